/* C20 harnesses: report the case that was running when a sanitizer kills the process.
 * Include FIRST (defines _GNU_SOURCE).  The harness sets c20_cur to a description of the current case; when ASan or
 * UBSan aborts, the line "X <c20_cur> sanitizer" is the last line written to h_out.
 * gcc links libasan and libubsan as two shared objects, each with its own death-callback slot: set every one. */
#ifndef C20_DEATH_H
#define C20_DEATH_H
#ifndef _GNU_SOURCE
#define _GNU_SOURCE
#endif
#include <link.h>
#include <dlfcn.h>
#include "hcommon.h"

void __sanitizer_set_death_callback(void (*)(void));
void __asan_poison_memory_region(void const volatile *, size_t);
void __asan_unpoison_memory_region(void const volatile *, size_t);

static char c20_cur[1 << 20];
static void c20_on_death(void) {
  if (!h_out) return;
  fprintf(h_out, "X %s sanitizer\n", c20_cur[0] ? c20_cur : "gen -");
  fflush(h_out);
}
static int c20_each_lib(struct dl_phdr_info *i, size_t sz, void *d) {
  if (!i->dlpi_name || !strstr(i->dlpi_name, "san")) return 0;
  void *h = dlopen(i->dlpi_name, RTLD_NOLOAD | RTLD_LAZY);
  if (!h) return 0;
  void (*f)(void (*)(void)) = (void (*)(void (*)(void)))dlsym(h, "__sanitizer_set_death_callback");
  if (f) f(c20_on_death);
  return 0;
}
static void c20_install_death(void) {
  __sanitizer_set_death_callback(c20_on_death);
  dl_iterate_phdr(c20_each_lib, 0);
}
#endif
