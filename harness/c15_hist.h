/* C15 daemon histories: the real pqstart/pqadd/pass_dochan/del_dochan/job_close/markdone/addbounce/
 * pqrun/pqfinish/pass_selprep of qmail-send.c (included by c15_sched.c) over a real on-disk queue
 * directory, with the virtual clock h_clock.  Included from c15_sched.c.
 *
 * script = steps separated by ';' (no blanks):
 *   m<id>,<c>,<birth>,<due>,<nrec>  create info/<id> (mtime birth, unless it exists) and the channel file
 *                                   local/<id> (c=0) or remote/<id> (c=1) with nrec 'T' records, mtime due
 *   L                               fresh daemon process: empty heaps, pqstart()
 *   t<time>                         clock := time  (recent = now() = time)
 *   a                               SIGALRM seen by the main loop: pqrun()
 *   w                               pass_selprep(&wakeup) with wakeup = recent + SLEEP_FOREVER
 *   p<c>,<letters>[,<fault>]        pass_dochan(c); if a job was opened run the pass to EOF and answer the
 *                                   started deliveries in slot order with the letters (cycled; '?' = mangled);
 *                                   fault (on the files of the message at the head of the heap): o = open_read of the
 *                                   channel file fails, i = open_read of info/<id> fails (both: "trouble" exit, event p0),
 *                                   u = unlink of the channel file fails, s = stat of the other channel file fails (EIO)
 *   f[,<c>:<id>,...]                SIGTERM: pqfinish() (+ pass_finish()); utimes() fails with EIO on the listed channel files
 *   d[,<fault>]                     the pqdone part of pass_do() (flagexitasap set, so pass_dochan returns at once): prioq_min/
 *                                   delmin(&pqdone) + the real messdone(); fault (on the files of the message at the head of
 *                                   pqdone): l/r = stat of local/remote/<id> fails, t = stat of todo/<id>, n = stat of info/<id>,
 *                                   b = stat of bounce/<id> (injectbounce fails), u = unlink of info/<id>
 *   p<c>,<letters>,x<k>             as p, but record k of the started message's channel file has an unknown type ('X') during the
 *                                   pass (restored afterwards): the "unknown record type" exit;  ...,r = read() of the channel
 *                                   file fails: the "trouble reading" exit (before the first record: k = 0)
 * events (same separators), <q> = heap array as dt:id,… or '-':
 *   m | t | L/<q0>/<q1>/<done> | a/<q0>/<q1> | w<wakeup> | f/<mt0>/<mt1>  (mt = mtime:id of each channel file)
 *   p<id>,<retry>,<dying>,<ndel>,<records|gone>,<paragraphs>,<toolong>/<q0>/<q1>/<done>   (id 0 = nothing started)
 *   d<id>,<gone>/<done>             id = message messdone() was called for (0 = none), gone = info/<id> no longer exists
 */
#include "auto_split.h"
#define HMAXMSG 16
static struct hmsg { unsigned long id; int has[2]; long birth; } hmsgs[HMAXMSG];
static int hnmsg;
static char hq_dir[256];
static int hist_ready;
static int hpipe[2][2];
static int hqc_to_r = -1, hqc_from_w = -1;   /* the harness's ends of the qmail-clean pipes (daemon side: fd 5 / fd 6) */
static hbuf hscript, hevents;
static long h_lifetime;

static void hmk(const char *d) { if (mkdir(d, 0700) == -1 && errno != EEXIST) { perror(d); exit(95); } }

static void hist_init(void) {
  if (hist_ready) return;
  /* under the current directory (the check runs the harness inside its scratch build, which it removes) */
  char cwd[200];
  if (!getcwd(cwd, sizeof cwd)) { perror("getcwd"); exit(95); }
  snprintf(hq_dir, sizeof hq_dir, "%s/c15q-XXXXXX", cwd);
  if (!mkdtemp(hq_dir)) { perror("mkdtemp"); exit(95); }
  if (chdir(hq_dir) == -1) { perror("chdir"); exit(95); }
  { /* qmail-clean stand-in: messdone() writes the file name to fd 5 and reads one byte from fd 6 */
    int a[2], b[2]; if (pipe(a) == -1 || pipe(b) == -1) { perror("pipe"); exit(95); }
    int ar = fcntl(a[0], F_DUPFD, 60), aw = fcntl(a[1], F_DUPFD, 60), br = fcntl(b[0], F_DUPFD, 60), bw = fcntl(b[1], F_DUPFD, 60);
    close(a[0]); close(a[1]); close(b[0]); close(b[1]);
    if (dup2(aw, 5) == -1 || dup2(br, 6) == -1) { perror("dup2"); exit(95); }
    close(aw); close(br); hqc_to_r = ar; hqc_from_w = bw;
    fcntl(hqc_to_r, F_SETFL, O_NONBLOCK); fcntl(hqc_from_w, F_SETFL, O_NONBLOCK);
    substdio_fdbuf(&sstoqc, write, 5, sstoqcbuf, sizeof sstoqcbuf);
    substdio_fdbuf(&ssfromqc, h_read, 6, ssfromqcbuf, sizeof ssfromqcbuf);
  }
  static const char *top[] = { "info", "local", "remote", "mess" };
  char b[64];
  for (int k = 0; k < 4; k++) { hmk(top[k]); for (int i = 0; i < auto_split; i++) { snprintf(b, sizeof b, "%s/%d", top[k], i); hmk(b); } }
  hmk("bounce"); hmk("todo");
  fnmake_init();
  numjobs = 12; job_init();
  concurrency[0] = concurrency[1] = 20;
  del_init(); pass_init();
  while (!constmap_init(&mapvdoms, "", 0, 1)) ;
  while (!constmap_init(&maplocals, "", 0, 0)) ;   /* stripvdomprepend consults locals since 160bf54 */
  for (int c = 0; c < 2; c++) { if (pipe(hpipe[c]) == -1) { perror("pipe"); exit(95); } chanfdin[c] = hpipe[c][0]; }
  hist_ready = 1;
}

static void hpath(char *out, const char *pre, unsigned long id, int split) {
  if (split) sprintf(out, "%s%lu/%lu", pre, id % auto_split, id); else sprintf(out, "%s%lu", pre, id);
}

static void hist_reset(void) {
  char p[128];
  for (int i = 0; i < hnmsg; i++) {
    hpath(p, "info/", hmsgs[i].id, 1); unlink(p);
    hpath(p, "local/", hmsgs[i].id, 1); unlink(p);
    hpath(p, "remote/", hmsgs[i].id, 1); unlink(p);
    hpath(p, "bounce/", hmsgs[i].id, 0); unlink(p);
    hpath(p, "mess/", hmsgs[i].id, 1); unlink(p);
  }
  h_read_fail_fd = -1;
  hnmsg = 0;
  pqchan[0].len = pqchan[1].len = pqdone.len = pqfail.len = 0;
  for (int c = 0; c < 2; c++) {
    if (pass[c].id) { close(pass[c].fd); pass[c].id = 0; }
    for (unsigned i = 0; i < concurrency[c]; i++) d[c][i].used = 0;
    concurrencyused[c] = 0; comm_buf[c].len = 0; dline[c].len = 0; flagspawnalive[c] = 1;
  }
  for (int j = 0; j < numjobs; j++) jo[j].refs = 0;
  flagexitasap = 0; flagrunasap = 0;
  hbuf_reset(&logb); nomem_calls = 0;
}

static void hset_mtime(const char *p, long t) {
  struct timeval ut[2] = { { t + 12345, 0 }, { t, 0 } };   /* atime differs from mtime on purpose */
  if (utimes(p, ut) == -1) { perror("utimes"); exit(95); }
}

static void hev(const char *fmt, ...) {
  char b[512]; va_list ap; va_start(ap, fmt); int n = vsnprintf(b, sizeof b, fmt, ap); va_end(ap);
  hbuf_add(&hevents, b, n);
}
static void hev_pq(prioq *q) {
  hev("/");
  if (!q->p || !q->len) { hev("-"); return; }
  for (unsigned i = 0; i < q->len; i++) hev("%s%ld:%lu", i ? "," : "", (long)q->p[i].dt, q->p[i].id);
}

static void hist_step(const char *st) {
  char p[128];
  if (hscript.n) hbuf_add(&hscript, ";", 1);
  hbuf_add(&hscript, st, strlen(st));
  if (hevents.n) hbuf_add(&hevents, ";", 1);
  switch (st[0]) {
    case 'm': {
      unsigned long id; int c, nrec; long birth, due;
      if (sscanf(st + 1, "%lu,%d,%ld,%ld,%d", &id, &c, &birth, &due, &nrec) != 5 || c < 0 || c > 1 || id == 0 || nrec < 0 || nrec > 8) { hev("bad"); return; }
      int k; for (k = 0; k < hnmsg; k++) if (hmsgs[k].id == id) break;
      if (k == hnmsg) {
        if (hnmsg == HMAXMSG) { hev("bad"); return; }
        hmsgs[hnmsg].id = id; hmsgs[hnmsg].birth = birth; hmsgs[hnmsg].has[0] = hmsgs[hnmsg].has[1] = 0; hnmsg++;
        hpath(p, "info/", id, 1);
        FILE *f = fopen(p, "w"); fputs("Fsender@example.org", f); fputc(0, f); fclose(f);
        hset_mtime(p, birth);
        hpath(p, "mess/", id, 1);
        f = fopen(p, "w"); fputs("Subject: x\n\nbody\n", f); fclose(f);
      }
      hmsgs[k].has[c] = 1;
      hpath(p, c ? "remote/" : "local/", id, 1);
      FILE *f = fopen(p, "w");
      for (int r = 0; r < nrec; r++) { fprintf(f, "Tr%d@h%d.example", r, c); fputc(0, f); }
      fclose(f);
      hset_mtime(p, due);
      hev("m");
      return;
    }
    case 't': h_clock = strtol(st + 1, 0, 10); recent = now(); hev("t"); return;
    case 'L':
      pqchan[0].len = pqchan[1].len = pqdone.len = pqfail.len = 0;
      pqstart();
      hev("L"); hev_pq(&pqchan[0]); hev_pq(&pqchan[1]); hev_pq(&pqdone);
      return;
    case 'a': flagrunasap = 1; if (flagrunasap) { flagrunasap = 0; pqrun(); } hev("a"); hev_pq(&pqchan[0]); hev_pq(&pqchan[1]); return;
    case 'w': { datetime_sec wk = recent + SLEEP_FOREVER; pass_selprep(&wk); hev("w%ld", (long)wk); return; }
    case 'f': {
      h_poison_clear();
      if (st[1] == ',') {
        char tmp[128]; snprintf(tmp, sizeof tmp, "%s", st + 2); char *sv = 0;
        for (char *t = strtok_r(tmp, ",", &sv); t; t = strtok_r(0, ",", &sv)) {
          int fc; unsigned long fid;
          if (sscanf(t, "%d:%lu", &fc, &fid) == 2 && (fc == 0 || fc == 1)) { hpath(p, fc ? "remote/" : "local/", fid, 1); h_poison_add(3, p); }
        }
      }
      flagexitasap = 1; pqfinish(); if (pass_finish) pass_finish(); flagexitasap = 0;   /* the exit sequence of main() */
      h_poison_clear();
      hev("f");
      for (int c = 0; c < 2; c++) {
        hev("/"); int n = 0;
        for (int k = 0; k < hnmsg; k++) {
          struct stat sb; hpath(p, c ? "remote/" : "local/", hmsgs[k].id, 1);
          if (stat(p, &sb) == 0) hev("%s%ld:%lu", n++ ? "," : "", (long)sb.st_mtime, hmsgs[k].id);
        }
        if (!n) hev("-");
      }
      return;
    }
    case 'd': {
      char fault = st[1] == ',' ? st[2] : 0;
      unsigned long did = 0;
      h_poison_clear();
      if (pqdone.len && pqdone.p[0].dt <= recent) did = pqdone.p[0].id;
      if (fault && did) {
        switch (fault) {
          case 'l': hpath(p, "local/", did, 1); h_poison_add(0, p); break;
          case 'r': hpath(p, "remote/", did, 1); h_poison_add(0, p); break;
          case 't': hpath(p, "todo/", did, 0); h_poison_add(0, p); break;
          case 'n': hpath(p, "info/", did, 1); h_poison_add(0, p); break;
          case 'b': hpath(p, "bounce/", did, 0); h_poison_add(0, p); break;
          case 'u': hpath(p, "info/", did, 1); h_poison_add(1, p); break;
          default: hev("bad"); return;
        }
      }
      if (write(hqc_from_w, "+", 1) != 1) { /* pipe full of unread answers: fine */ }
      flagexitasap = 1; pass_do(); flagexitasap = 0;     /* pass_dochan returns at once; pqfail is empty in S histories */
      { char junk[512]; while (read(hqc_to_r, junk, sizeof junk) > 0) ; }
      h_poison_clear();
      int gone = 1;
      if (did) { struct stat sb; hpath(p, "info/", did, 1); gone = stat(p, &sb) == -1; }
      hev("d%lu,%d", did, gone); hev_pq(&pqdone);
      return;
    }
    case 'p': {
      int c = st[1] - '0'; char lbuf[32] = "Z"; char fault = 0; int cutk = -1; long cutoff = -1, cutmt0 = 0; char cutorig = 0; char cutpath[128];
      if (c < 0 || c > 1) { hev("bad"); return; }
      if (st[2] == ',') {
        const char *l = st + 3; const char *e = strchr(l, ','); size_t n = e ? (size_t)(e - l) : strlen(l);
        if (n > 0 && n < sizeof lbuf) { memcpy(lbuf, l, n); lbuf[n] = 0; }
        if (e && e[1]) { fault = e[1]; if (fault == 'x') cutk = atoi(e + 2); }
      }
      const char *letters = lbuf;
      size_t nl = strlen(letters);
      h_poison_clear();
      if (fault && !pass[c].id && pqchan[c].len) {        /* injected system failure on the message about to be started */
        unsigned long fid = pqchan[c].p[0].id;
        switch (fault) {
          case 'o': hpath(p, c ? "remote/" : "local/", fid, 1); h_poison_add(2, p); break;
          case 'i': hpath(p, "info/", fid, 1); h_poison_add(2, p); break;
          case 'u': hpath(p, c ? "remote/" : "local/", fid, 1); h_poison_add(1, p); break;
          case 's': hpath(p, c ? "local/" : "remote/", fid, 1); h_poison_add(0, p); break;
          case 'x': {            /* record cutk gets the type byte 'X' for the duration of the pass */
            hpath(cutpath, c ? "remote/" : "local/", fid, 1);
            struct stat sb0; long mt0 = 0; if (stat(cutpath, &sb0) == 0) mt0 = sb0.st_mtime; cutmt0 = mt0;
            FILE *f = fopen(cutpath, "r+");
            if (f) { int ch, start = 1, k = 0; long off = 0;
              while ((ch = fgetc(f)) != EOF) { if (start) { if (k == cutk) { cutoff = off; cutorig = (char)ch; break; } k++; } start = (ch == 0); off++; }
              if (cutoff >= 0) { fseek(f, cutoff, SEEK_SET); fputc('X', f); }
              fclose(f); if (cutoff >= 0) hset_mtime(cutpath, mt0); }
            break; }
          case 'r': { int probe = dup(0); if (probe >= 0) { close(probe); h_read_fail_fd = probe; } break; }
          default: hev("bad"); return;
        }
      }
      /* a pass that is cut short before its first delivery closes inside this very call: remember what it will open */
      int jfree = -1; for (int jj = 0; jj < numjobs; jj++) if (!jo[jj].refs) { jfree = jj; break; }
      unsigned long willstart = (!pass[c].id && jfree >= 0 && pqchan[c].len && pqchan[c].p[0].dt <= recent) ? pqchan[c].p[0].id : 0;
      pass_dochan(c);
      h_read_fail_fd = -1;
      int closed_at_once = !pass[c].id && willstart && (fault == 'x' || fault == 'r') && jo[jfree].id == willstart && jo[jfree].channel == c;
      if (!pass[c].id && !closed_at_once) { h_poison_clear(); if (cutoff >= 0) { FILE *f = fopen(cutpath, "r+"); if (f) { fseek(f, cutoff, SEEK_SET); fputc(cutorig, f); fclose(f); hset_mtime(cutpath, cutmt0); } }
        hev("p0"); hev_pq(&pqchan[0]); hev_pq(&pqchan[1]); hev_pq(&pqdone); return; }
      unsigned long id = closed_at_once ? willstart : pass[c].id; int j = closed_at_once ? jfree : pass[c].j;
      long retry = jo[j].retry; int dying = jo[j].flagdying;
      for (int guard = 0; pass[c].id && guard < 64; guard++) { comm_buf[c].len = 0; pass_dochan(c); }
      comm_buf[c].len = 0;
      int ndel = 0;
      for (unsigned i = 0; i < concurrency[c]; i++) if (d[c][i].used) {
        char rep[64]; char L = letters[ndel % nl]; if (L == '?') L = 'X';
        int n = 0; rep[n++] = (char)i; rep[n++] = L; n += sprintf(rep + n, "report_%d\n", ndel); rep[n++] = 0;
        if (write(hpipe[c][1], rep, n) != n) { perror("pipe write"); exit(95); }
        del_dochan(c);
        ndel++;
      }
      h_poison_clear();
      if (cutoff >= 0) { FILE *f = fopen(cutpath, "r+"); if (f) { fseek(f, cutoff, SEEK_SET); fputc(cutorig, f); fclose(f); } }
      /* observe the queue files */
      char recs[32]; int nr = 0;
      hpath(p, c ? "remote/" : "local/", id, 1);
      FILE *f = fopen(p, "r");
      if (!f) { strcpy(recs, "gone"); for (int k = 0; k < hnmsg; k++) if (hmsgs[k].id == id) hmsgs[k].has[c] = 0; }
      else { int ch, start = 1; while ((ch = fgetc(f)) != EOF) { if (start && nr < 30) recs[nr++] = ch; start = (ch == 0); } recs[nr] = 0; fclose(f); if (!nr) strcpy(recs, "empty"); }
      int npar = 0, ntoo = 0;
      hpath(p, "bounce/", id, 0);
      f = fopen(p, "r");
      if (f) { static char bb[8192]; size_t n = fread(bb, 1, sizeof bb - 1, f); bb[n] = 0; fclose(f);
        for (char *q = bb; (q = strstr(q, ">:\n")); q += 3) npar++;
        for (char *q = bb; (q = strstr(q, "I'm not going to try again; this message has been in the queue too long.\n")); q += 10) ntoo++; }
      hev("p%lu,%ld,%d,%d,%s,%d,%d", id, retry, dying, ndel, recs, npar, ntoo);
      hev_pq(&pqchan[0]); hev_pq(&pqchan[1]); hev_pq(&pqdone);
      return;
    }
    default: hev("bad"); return;
  }
}

static void hist_begin(long lifetime_) { hist_init(); hist_reset(); hbuf_reset(&hscript); hbuf_reset(&hevents); h_lifetime = lifetime_; lifetime = (int)lifetime_; h_clock = 0; recent = 0; }
static void hist_end(void) {
  fprintf(h_out, "S %ld ", h_lifetime);
  if (hscript.n) fwrite(hscript.p, 1, hscript.n, h_out); else fputc('-', h_out);
  fputc(' ', h_out);
  if (hevents.n) fwrite(hevents.p, 1, hevents.n, h_out); else fputc('-', h_out);
  fputc('\n', h_out);
}

static void hist_run(long lifetime_, char *script) {
  hist_begin(lifetime_);
  if (!(script[0] == '-' && !script[1])) {
    char *save = 0;
    for (char *t = strtok_r(script, ";", &save); t; t = strtok_r(0, ";", &save)) hist_step(t);
  }
  hist_end();
}

static long hmin_due(int *cc) {        /* earliest due time over both channel heaps (peeking the real state) */
  long best = LONG_MAX; *cc = -1;
  for (int c = 0; c < 2; c++) if (pqchan[c].len && pqchan[c].p[0].dt < best) { best = pqchan[c].p[0].dt; *cc = c; }
  return best;
}

static void hist_generate(int n, int shard, int nshards) {
  static const long lifetimes[] = { 0, 1, 100, 3600, 604800, 604800, 2000000 };
  static const char *letterss[] = { "Z", "K", "D", "ZK", "ZZD", "KZ?", "?", "ZDK?",
                                    "Z,o", "Z,i", "K,u", "KD,u", "K,s", "D,s", "ZK,u", "Z,s", "K,o", "DK,i",
                                    "K,x0", "KZ,x1", "Z,x1", "KD,x2", "K,r", "ZK,r", "D,x1", "K,x3" };
  static const char *dsteps[] = { "d", "d", "d", "d,l", "d,r", "d,t", "d,n", "d,b", "d,u", "d,u" };
#define NLET() (h_below(5) == 0 ? 8 + h_below(18) : h_below(8))
#define DSTEP() hist_step(dsteps[h_below(10)])
  char st[128];
  for (int r = 0; r < n; r++) {
    if ((r % nshards) != shard) continue;
    long lt = (h_below(8) == 0) ? (long)h_below(3000000) : lifetimes[h_below(7)];
    long t0 = (h_below(4) == 0) ? 5000000 + (long)h_below(1000) : 1758862800L + (long)h_below(100000);
    hist_begin(lt);
    int nm = 1 + h_below(4);
    for (int k = 0; k < nm; k++) {
      unsigned long id = 100 + h_below(60) * 23 + (h_below(3) ? h_below(23) : 0);   /* some share a split dir */
      long age;
      switch (h_below(6)) { case 0: age = 0; break; case 1: age = h_below(5000); break;
        case 2: age = lt - 2 + (long)h_below(5); break; case 3: age = lt + (long)h_below(100000); break;
        case 4: age = h_below(2000000); break; default: { long s = h_below(1500); age = s * s + (long)h_below(3) - 1; } }
      if (age < 0) age = 0;
      long due = t0 + (long)h_below(7) - 3 + (h_below(3) == 0 ? (long)h_below(4000) - 2000 : 0);
      int both = h_below(4) == 0, c = h_below(2);
      snprintf(st, sizeof st, "m%lu,%d,%ld,%ld,%d", id, c, t0 - age, due, (int)(1 + h_below(4))); hist_step(st);
      if (both) { snprintf(st, sizeof st, "m%lu,%d,%ld,%ld,%d", id, 1 - c, t0 - age, due + (long)h_below(5) - 2, (int)(1 + h_below(3))); hist_step(st); }
    }
    hist_step("L");
    snprintf(st, sizeof st, "t%ld", t0 - 4 + (long)h_below(6)); hist_step(st);
    int nsteps = 4 + h_below(12);
    for (int k = 0; k < nsteps; k++) {
      int c; long due = hmin_due(&c);
      int r = h_below(12);
      if (r < 5 && c >= 0) {                 /* chase the next retry time: just before, at, just after */
        static const long offs[] = { -1, 0, 1, 0, 7 };
        long t = due + offs[h_below(5)];
        if (t < h_clock && h_below(4)) t = h_clock;
        snprintf(st, sizeof st, "t%ld", t); hist_step(st);
        if (h_below(5) == 0) hist_step("w");
        snprintf(st, sizeof st, "p%d,%s", c, letterss[NLET()]); hist_step(st);
        if (h_below(3) == 0) { snprintf(st, sizeof st, "p%d,%s", (int)h_below(2), letterss[NLET()]); hist_step(st); }
        if (pqdone.len && h_below(2)) { DSTEP(); if (h_below(3) == 0) { snprintf(st, sizeof st, "t%ld", h_clock + (long)SLEEP_SYSFAIL - 1 + (long)h_below(3)); hist_step(st); DSTEP(); } }
      } else if (r < 7) { snprintf(st, sizeof st, "p%d,%s", (int)h_below(2), letterss[NLET()]); hist_step(st); }
      else if (r == 7) { if (h_below(2)) hist_step("w"); else DSTEP(); }
      else if (r == 8) { hist_step("a"); if (h_below(2)) { snprintf(st, sizeof st, "p%d,%s", (int)h_below(2), letterss[NLET()]); hist_step(st); } }
      else if (r == 9) {
        int fc = h_below(2);
        if (h_below(3) == 0 && pqchan[fc].len) {      /* utimes fails on one or two scheduled channel files */
          int n2 = snprintf(st, sizeof st, "f,%d:%lu", fc, pqchan[fc].p[h_below(pqchan[fc].len)].id);
          if (h_below(3) == 0 && pqchan[1 - fc].len) snprintf(st + n2, sizeof st - n2, ",%d:%lu", 1 - fc, pqchan[1 - fc].p[0].id);
          hist_step(st);
        } else hist_step("f");
        hist_step("L"); }
      else if (r == 10) { snprintf(st, sizeof st, "t%ld", h_clock + (long)h_below((uint32_t)(lt / 2 + 1000))); hist_step(st); }
      else if (hnmsg) {                      /* the expiry boundary of some message: birth + lifetime -1/0/+1/+2 */
        long t = hmsgs[h_below(hnmsg)].birth + lt - 1 + (long)h_below(4);
        if (t >= h_clock) { snprintf(st, sizeof st, "t%ld", t); hist_step(st); }
        if (h_below(2)) hist_step("a");
        snprintf(st, sizeof st, "p%d,%s", (int)h_below(2), letterss[NLET()]); hist_step(st);
      }
    }
    /* drain: everything that is due now, then jump past the last due time */
    for (int c = 0; c < 2; c++) for (int k = 0; k < 2; k++) { snprintf(st, sizeof st, "p%d,%s", c, letterss[NLET()]); hist_step(st); }
    for (int k = 0; k < 2 && pqdone.len; k++) DSTEP();
    hist_end();
  }
}

/* ------------------------------------------------------------------ P: pqadd() / pqfail scenarios
 * P <recent> <now> <pqfail> <files> <ncalls>
 *   pqfail = dt:id,… | -      entries inserted into pqfail (in this order) before the first call
 *   files  = id:info:todo:ch0:ch1,… | -   per message the stat() outcome of info/<id>, todo/<id>, local/<id>,
 *            remote/<id>: n = ENOENT, e = EIO (poisoned), <mtime> = the file exists with this mtime
 *   the real pass_do() is called ncalls times with flagexitasap set (pass_dochan returns at once) and
 *   pqdone entries not yet due (now > recent), so only the pqfail part runs: prioq_min / prioq_delmin / pqadd.
 * output: the same fields (now possibly adjusted) + after each call q0/q1/done/fail, calls separated by ';' */
static char p_paths[64][96]; static int p_npaths;
static void p_file(const char *path, const char *spec) {
  if (spec[0] == 'n') return;
  if (spec[0] == 'e') { h_poison_add(0, path); return; }
  FILE *f = fopen(path, "w"); if (!f) { perror(path); exit(95); }
  fputs("Fsender@example.org", f); fputc(0, f); fclose(f);
  hset_mtime(path, strtol(spec, 0, 10));
  if (p_npaths < 64) strncpy(p_paths[p_npaths++], path, 95);
}
static void p_case(long rec, long nw, char *failq, char *files, int ncalls) {
  char p[128];
  hist_init(); hist_reset(); h_poison_clear(); p_npaths = 0;
  if (nw <= rec) nw = rec + 1;
  fprintf(h_out, "P %ld %ld %s %s %d ", rec, nw, failq, files, ncalls);
  char fcopy[1024]; strncpy(fcopy, files, sizeof fcopy - 1); fcopy[sizeof fcopy - 1] = 0;
  if (!(fcopy[0] == '-' && !fcopy[1])) {
    char *save = 0;
    for (char *t = strtok_r(fcopy, ",", &save); t; t = strtok_r(0, ",", &save)) {
      unsigned long id; char a[4][24];
      if (sscanf(t, "%lu:%23[^:]:%23[^:]:%23[^:]:%23[^:]", &id, a[0], a[1], a[2], a[3]) != 5) continue;
      hpath(p, "info/", id, 1); p_file(p, a[0]);
      hpath(p, "todo/", id, 0); p_file(p, a[1]);
      hpath(p, "local/", id, 1); p_file(p, a[2]);
      hpath(p, "remote/", id, 1); p_file(p, a[3]);
    }
  }
  pqchan[0].len = pqchan[1].len = pqdone.len = pqfail.len = 0;
  char qcopy[1024]; strncpy(qcopy, failq, sizeof qcopy - 1); qcopy[sizeof qcopy - 1] = 0;
  if (!(qcopy[0] == '-' && !qcopy[1])) {
    char *save = 0;
    for (char *t = strtok_r(qcopy, ",", &save); t; t = strtok_r(0, ",", &save)) {
      struct prioq_elt pe; long dt; unsigned long id;
      if (sscanf(t, "%ld:%lu", &dt, &id) != 2) continue;
      pe.dt = dt; pe.id = id;
      while (!prioq_insert(&pqfail, &pe)) nomem();
    }
  }
  recent = rec; h_clock = nw; flagexitasap = 1;
  hbuf_reset(&hevents);
  for (int k = 0; k < ncalls; k++) {
    pass_do();
    if (k) hev(";");
    hev("c"); hev_pq(&pqchan[0]); hev_pq(&pqchan[1]); hev_pq(&pqdone); hev_pq(&pqfail);
  }
  flagexitasap = 0;
  if (hevents.n) fwrite(hevents.p, 1, hevents.n, h_out); else fputc('-', h_out);
  fputc('\n', h_out);
  for (int i = 0; i < p_npaths; i++) unlink(p_paths[i]);
  p_npaths = 0; h_poison_clear();
  pqchan[0].len = pqchan[1].len = pqdone.len = pqfail.len = 0;
}

static void p_generate(int n, int shard, int nshards) {
  static const char *specs[] = { "n", "e", "%ld" };
  char failq[512], files[900];
  for (int r = 0; r < n; r++) {
    if ((r % nshards) != shard) continue;
    long rec = 1758862800L + (long)h_below(100000), nw = rec + (long)h_below(3);
    int nm = 1 + h_below(4), fl = 0, ql = 0;
    failq[0] = files[0] = 0;
    for (int k = 0; k < nm; k++) {
      unsigned long id = 1000 + 37 * k + h_below(30);
      char a[4][24];
      for (int j = 0; j < 4; j++) {
        /* info mostly present, todo mostly absent, channel files anything */
        int w = j == 0 ? (h_below(8) == 0 ? h_below(2) : 2) : j == 1 ? (h_below(8) == 0 ? 1 + h_below(2) : 0) : (int)h_below(3);
        if (h_below(3) == 0) w = h_below(3);
        snprintf(a[j], sizeof a[j], specs[w], rec - 2000 + (long)h_below(4000));
      }
      fl += snprintf(files + fl, sizeof files - fl, "%s%lu:%s:%s:%s:%s", k ? "," : "", id, a[0], a[1], a[2], a[3]);
      ql += snprintf(failq + ql, sizeof failq - ql, "%s%ld:%lu", k ? "," : "", rec - 3 + (long)h_below(5) + (h_below(4) == 0 ? 200 : 0), id);
    }
    p_case(rec, nw, failq, files, 1 + h_below(nm + 2));
  }
}

static void hist_cleanup(void) {
  if (!hist_ready) return;
  hist_reset();
  char cmd[512];
  if (chdir("/") == 0 && strstr(hq_dir, "/c15q-")) { snprintf(cmd, sizeof cmd, "rm -rf '%s'", hq_dir); if (system(cmd)) {} }
  hist_ready = 0;
}
