/* C15 correspondence harness: the real scheduling code of qmail-send.c and prioq.c.
 *
 * usage: c15_sched <sqrtbits> <pqlen> <nrandom> <nhist> <seed> <shard> <nshards>
 *        c15_sched -            explicit cases on stdin (corpus, replay, failing-input search)
 *
 * stdin case lines:   Q <lo> <hi>            squareroot() on every x in [lo,hi]
 *                     N <birth> <recent> <c> nextretry(birth,c) with the global recent
 *                     H <ops>                ops = comma separated  i<dt> | d
 *                     S <lifetime> <script>  daemon history (see hist_run)
 *                     P <recent> <now> <pqfail> <files> <ncalls>   pqadd()/pqfail scenario (see p_case)
 *
 * output lines:
 *   Q <lo> <hi> <r>                 squareroot(x) == r for every x in [lo,hi] (maximal run, every x evaluated)
 *   N <birth> <recent> <c> <r>      r = nextretry(birth,c)
 *   H <ops> <mins> <final>          mins  = what prioq_min returned before each 'd' ("e" if empty), dt:id,…
 *                                   final = the heap array p[0..len) after the last op
 *   S <lifetime> <script> <events>  events of the history (see hist_run)
 *   P <recent> <now> <pqfail> <files> <ncalls> <heaps>   the four heaps after each pass_do() call
 *   K <name> <value>                a constant of the source
 *
 * squareroot() is static in qmail-send.c, hence the #include of the unmodified source. time() is
 * replaced by the harness's virtual clock; logging (qsutil.o) is replaced by a sink. */
#include "hcommon.h"
#include <time.h>
#include <sys/stat.h>
#include <sys/time.h>
#include <dirent.h>
#include <fcntl.h>
#include <errno.h>
#include <limits.h>
#include <stdarg.h>

#include <unistd.h>
#include "open.h"

static long h_clock;
static time_t h_time(time_t *p) { if (p) *p = h_clock; return h_clock; }

/* ---- fault injection: stat()/unlink()/open_read() of a poisoned path fail with EIO (the libc call is
 * replaced by a wrapper inside the included source only; everything else goes to the real call) */
#define HPOISON 40
static char h_poison[4][HPOISON][96];   /* 0 = stat, 1 = unlink, 2 = open_read, 3 = utimes */
static int h_npoison[4];
static long h_faults_hit;
static int h_poisoned(int k, const char *p) {
  for (int i = 0; i < h_npoison[k]; i++) if (!strcmp(h_poison[k][i], p)) { errno = EIO; h_faults_hit++; return 1; }
  return 0;
}
static void h_poison_add(int k, const char *p) { if (h_npoison[k] < HPOISON) { strncpy(h_poison[k][h_npoison[k]], p, 95); h_npoison[k]++; } }
static void h_poison_clear(void) { h_npoison[0] = h_npoison[1] = h_npoison[2] = h_npoison[3] = 0; }
static int h_stat(const char *p, struct stat *st) { if (h_poisoned(0, p)) return -1; return stat(p, st); }
static int h_unlink(const char *p) { if (h_poisoned(1, p)) return -1; return unlink(p); }
static int h_open_read(const char *p) { if (h_poisoned(2, p)) return -1; return open_read(p); }
static int h_utimes(const char *p, const struct timeval *t) { if (h_poisoned(3, p)) return -1; return utimes(p, t); }
/* "trouble reading": read() on this descriptor fails with EIO (the channel file of the pass about to be opened) */
static int h_read_fail_fd = -1;
static ssize_t h_read(int fd, void *b, size_t n) { if (fd >= 0 && fd == h_read_fail_fd) { errno = EIO; h_faults_hit++; return -1; } return read(fd, b, n); }

/* main()'s exit sequence is pqfinish(); pass_finish(); (since be3a18d) - weak, so that a tree without it still builds */
void pass_finish() __attribute__((weak));

#define time(x) h_time(x)
#define stat(p,b) h_stat(p,b)
#define unlink(p) h_unlink(p)
#define open_read(p) h_open_read(p)
#define utimes(p,t) h_utimes(p,t)
#define read h_read
#define _exit(x) h_exit(x)
#define main qmail_send_main
#include "qmail-send.c"
#undef main
#undef _exit
#undef read
#undef utimes
#undef open_read
#undef unlink
#undef stat
#undef time

/* ---- replacement of qsutil.o: the daemon's log goes to a buffer */
static hbuf logb;
void logsa(stralloc *sa) { hbuf_add(&logb, sa->s, sa->len); }
void log1(char *a) { hbuf_add(&logb, a, strlen(a)); }
void qslog2(char *a, char *b) { log1(a); log1(b); }
void log3(char *a, char *b, char *c) { log1(a); log1(b); log1(c); }
static int nomem_calls;
void nomem(void) { if (++nomem_calls > 3) { fprintf(stderr, "c15 harness: nomem() loop\n"); fflush(h_out); _exit(97); } }
void pausedir(char *d) { fprintf(stderr, "c15 harness: pausedir(%s)\n", d); fflush(h_out); _exit(98); }
void logsafe(char *s) { log1(s); }

/* ---- stand-in for qmail.o (excluded from the link): a bounce injection succeeds unless the message text could not be read */
#include "qmail.h"
static int h_nbounce;
int qmail_open(struct qmail *qq) { qq->flagerr = 0; qq->pid = 9000 + h_nbounce; qq->fdm = 1; return 0; }
unsigned long qmail_qp(struct qmail *qq) { return qq->pid; }
void qmail_fail(struct qmail *qq) { qq->flagerr = 1; }
void qmail_put(struct qmail *qq, char *s, size_t len) { (void)qq; (void)s; (void)len; }
#ifndef qmail_puts
void qmail_puts(struct qmail *qq, char *s) { (void)qq; (void)s; }
#endif
void qmail_from(struct qmail *qq, char *s) { (void)qq; (void)s; }
void qmail_to(struct qmail *qq, char *s) { (void)qq; (void)s; }
char *qmail_close(struct qmail *qq) { h_nbounce++; return qq->flagerr ? "Zqq read error (#4.3.0)" : ""; }

/* ------------------------------------------------------------------ Q: squareroot */
static long q_lines, q_cap = 400000;
static void q_range(long lo, long hi) {
  long runlo = lo, r = squareroot(lo);
  for (long x = lo; x < hi; ) {
    ++x;
    long v = squareroot(x);
    if (v != r) {
      if (q_lines++ < q_cap) fprintf(h_out, "Q %ld %ld %ld\n", runlo, x - 1, r);
      runlo = x; r = v;
    }
  }
  if (q_lines++ < q_cap) fprintf(h_out, "Q %ld %ld %ld\n", runlo, hi, r);
  else if (q_lines == q_cap + 2) fprintf(h_out, "QOVER %ld\n", lo);
}

/* ------------------------------------------------------------------ N: nextretry */
static void n_case(long birth, long rec, int c) {
  recent = rec;
  fprintf(h_out, "N %ld %ld %d %ld\n", birth, rec, c, (long)nextretry(birth, c));
}

/* ------------------------------------------------------------------ H: prioq */
static prioq hq;
static void pe_print(struct prioq_elt *pe) { fprintf(h_out, "%ld:%lu", (long)pe->dt, pe->id); }
static void pq_print(prioq *q) {
  if (!q->p || !q->len) { fputc('-', h_out); return; }
  for (unsigned i = 0; i < q->len; i++) { if (i) fputc(',', h_out); pe_print(&q->p[i]); }
}
/* ops: array of longs; LONG_MIN = delmin, else insert that dt */
#define OP_DEL LONG_MIN
static void h_case(const long *ops, int n) {
  struct prioq_elt pe;
  hq.len = 0;
  fputs("H ", h_out);
  if (!n) fputc('-', h_out);
  for (int i = 0; i < n; i++) {
    if (i) fputc(',', h_out);
    if (ops[i] == OP_DEL) fputc('d', h_out); else fprintf(h_out, "i%ld", ops[i]);
  }
  fputc(' ', h_out);
  int nm = 0;
  for (int i = 0; i < n; i++) {
    if (ops[i] == OP_DEL) {
      if (nm++) fputc(',', h_out);
      if (prioq_min(&hq, &pe)) pe_print(&pe); else fputc('e', h_out);
      prioq_delmin(&hq);
    } else {
      pe.dt = ops[i]; pe.id = (unsigned long)(i + 1);
      if (!prioq_insert(&hq, &pe)) { fprintf(stderr, "prioq_insert: out of memory\n"); exit(96); }
    }
  }
  if (!nm) fputc('-', h_out);
  fputc(' ', h_out);
  pq_print(&hq);
  fputc('\n', h_out);
}

static int parse_ops(char *s, long *ops, int max) {
  int n = 0;
  if (s[0] == '-' && !s[1]) return 0;
  for (char *t = strtok(s, ","); t && n < max; t = strtok(0, ",")) {
    if (t[0] == 'd') ops[n++] = OP_DEL;
    else if (t[0] == 'i') ops[n++] = strtol(t + 1, 0, 10);
  }
  return n;
}

#include "c15_hist.h"

/* ------------------------------------------------------------------ main */
#define MAXOPS 20000
static long opsbuf[MAXOPS];

int main(int argc, char **argv) {
  h_init_out();
  if (argc > 1 && !strcmp(argv[1], "-")) {
    static char line[1 << 20];
    while (fgets(line, sizeof line, stdin)) {
      size_t l = strlen(line);
      while (l && (line[l - 1] == '\n' || line[l - 1] == ' ')) line[--l] = 0;
      if (line[0] == 'Q') { long lo, hi; if (sscanf(line + 1, "%ld %ld", &lo, &hi) == 2 && lo <= hi) q_range(lo, hi); }
      else if (line[0] == 'N') { long b, r; int c; if (sscanf(line + 1, "%ld %ld %d", &b, &r, &c) == 3 && (c == 0 || c == 1)) n_case(b, r, c); }
      else if (line[0] == 'H') { char *p = line + 1; while (*p == ' ') p++; char *e = strchr(p, ' '); if (e) *e = 0; int n = parse_ops(p, opsbuf, MAXOPS); h_case(opsbuf, n); }
      else if (line[0] == 'P') { long rc, nw; char fq[1024], fs[1024]; int nc; if (sscanf(line + 1, "%ld %ld %1023s %1023s %d", &rc, &nw, fq, fs, &nc) == 5 && nc >= 0 && nc <= 16) p_case(rc, nw, fq, fs, nc); }
      else if (line[0] == 'S') { long lt; int off = 0; if (sscanf(line + 1, "%ld %n", &lt, &off) >= 1 && off) { char *p = line + 1 + off; char *e = strchr(p, ' '); if (e) *e = 0; hist_run(lt, p); } }
    }
    fprintf(h_out, "K SLEEP_SYSFAIL %d\n", (int)SLEEP_SYSFAIL);
    hist_cleanup();
    fflush(h_out);
    return 0;
  }
  int sqrtbits = h_argi(argc, argv, 1, 24), pqlen = h_argi(argc, argv, 2, 8);
  int nrandom = h_argi(argc, argv, 3, 200), nhist = h_argi(argc, argv, 4, 200);
  uint64_t seed = (uint64_t)h_argi(argc, argv, 5, 1);
  int shard = h_argi(argc, argv, 6, 0), nshards = h_argi(argc, argv, 7, 1);
  h_seed(seed * 1000003ull + 77 * shard + 15);

  /* ---- squareroot: [0,2^sqrtbits) contiguous (this shard's slice); a window around every perfect
   * square up to 65536^2 and beyond; random windows up to 2^33; out-of-domain samples */
  {
    long total = 1L << sqrtbits, per = total / nshards;
    long lo = per * shard, hi = (shard == nshards - 1) ? total - 1 : per * (shard + 1) - 1;
    /* cut into blocks so that RLE runs never span a shard boundary silently */
    q_range(lo, hi);
    for (long s = 1 + shard; s <= 65540; s += nshards) { long c = s * s; q_range(c - 2, c + 2); }
    for (int r = 0; r < 64; r++) { long b = (long)(h_rand() % (1ull << 33)); q_range(b, b + 4095); }
    if (shard == 0) {
      static const long far[] = { 1L << 34, 1L << 40, 1L << 52, (1L << 62), LONG_MAX - 5, 4296147025L - 3, 4297458025L - 3 };
      for (unsigned i = 0; i < sizeof far / sizeof *far; i++) q_range(far[i], far[i] + 5);
      q_range(-5, -1); q_range(-(1L << 31) - 2, -(1L << 31) + 2); q_range(LONG_MIN, LONG_MIN + 3);
    }
  }

  /* ---- nextretry: dense grid */
  {
    static const long births[] = { 0, 1, 86399, 1000000000L, 1700000000L, 1758862800L, 2147483647L, 2147483648L,
                                   4294967301L, -5, -86400 };
    uint64_t id = 0;
    int sstep = sqrtbits >= 30 ? 1 : 5;
    for (unsigned bi = 0; bi < sizeof births / sizeof *births; bi++) {
      long b = births[bi];
      for (int c = 0; c < 2; c++) {
        for (long age = -40; age <= 3000; age++, id++) if ((int)(id % nshards) == shard) n_case(b, b + age, c);
        for (long s = 54 + (long)(bi % sstep); s <= 65537; s += sstep, id++)
          if ((int)(id % nshards) == shard) { n_case(b, b + s * s - 1, c); n_case(b, b + s * s, c); n_case(b, b + s * s + 1, c); }
        for (int k = 0; k < 6; k++, id++) if ((int)(id % nshards) == shard) {
          static const long big[] = { 4294967295L, 4294967296L, 4296147024L, 4296147025L, 4297458025L, 1L << 40 };
          n_case(b, b + big[k], c);
        }
        for (int k = 0; k < 4; k++, id++) if ((int)(id % nshards) == shard) {
          static const long neg[] = { -1, -100, -1000000L, -3000000000L };
          n_case(b, b + neg[k], c);
        }
      }
    }
    if (shard == 0) {   /* the edges of the range where no `long` operation of nextretry overflows (nextretryOk) */
      static const long ages[] = { 0, 1, 99, 100, 10000, 4294967295L, 4294967296L, 4296147024L, 4297458025L };
      for (int c = 0; c < 2; c++) {
        for (long d = 0; d < 3; d++) {
          long b = LONG_MAX - 4297458025L - d;        /* birth + (65535+20)^2 <= LONG_MAX */
          for (unsigned k = 0; k < sizeof ages / sizeof *ages; k++) n_case(b, b + ages[k], c);
          n_case(b, b - 1 - d, c);
          b = LONG_MIN + d;                            /* recent - birth fits while recent <= LONG_MAX + birth */
          for (unsigned k = 0; k < sizeof ages / sizeof *ages; k++) n_case(b, b + ages[k], c);
          n_case(b, b + LONG_MAX, c);
          n_case(-(1L << 62) + d, (1L << 62) - 1, c);
        }
      }
    }
    for (int r = 0; r < 20000; r++) {
      long b = (long)(h_rand() % 4000000000ull) - 1000000;
      long age = (r & 1) ? (long)(h_rand() % 1300000) : (long)(h_rand() % (1ull << 32));
      n_case(b, b + age, (int)h_below(2));
    }
  }

  /* ---- prioq: every op sequence over {i0,i1,i2,i3,d} up to length pqlen */
  {
    uint64_t id = 0;
    for (int len = 0; len <= pqlen; len++) {
      uint64_t total = 1; for (int i = 0; i < len; i++) total *= 5;
      for (uint64_t k = 0; k < total; k++, id++) {
        if ((int)(id % nshards) != shard) continue;
        uint64_t v = k;
        for (int i = 0; i < len; i++) { int o = v % 5; v /= 5; opsbuf[i] = o == 4 ? OP_DEL : o; }
        h_case(opsbuf, len);
      }
    }
    /* random long sequences: key ranges from "many ties" to "all distinct", negative keys included */
    for (int r = 0; r < nrandom; r++) {
      if ((r % nshards) != shard) continue;
      int n = (r % 5 == 0) ? 10000 : 1 + (int)h_below(600);
      int mode = h_below(5);
      int pdel = 20 + h_below(50);      /* percentage of delmin ops */
      long base = (mode == 3) ? 1758862800L : 0;
      uint32_t range = mode == 0 ? 4 : mode == 1 ? 50 : mode == 2 ? 100000 : mode == 3 ? 700000 : 16;
      int phase = 0;
      for (int i = 0; i < n; i++) {
        if (mode == 4 && (i % 200) == 0) phase ^= 1;          /* fill / drain phases */
        int del = mode == 4 ? (int)h_below(100) < (phase ? 80 : 15) : (int)h_below(100) < pdel;
        opsbuf[i] = del ? OP_DEL : base + (long)h_below(range) - (mode == 1 ? 25 : 0);
      }
      h_case(opsbuf, n);
    }
  }

  /* ---- daemon histories */
  hist_generate(nhist, shard, nshards);
  p_generate(nhist / 4 + 16, shard, nshards);
  if (shard == 0) fprintf(h_out, "K SLEEP_SYSFAIL %d\n", (int)SLEEP_SYSFAIL);
  hist_cleanup();
  fflush(h_out);
  return 0;
}
