/* C20: "no input can corrupt memory in any program of the suite".
 * Runs the REAL sanitised binaries (ASan+UBSan, no recovery) as child processes on hostile byte
 * streams and prints one line per case saying how the child ended:
 *   P <prog> <variant> <in-hex> <exit> <sig> <san> <outlen> <out-prefix-hex> <errmark>
 * usage: c20_prog <bindir> <qhome> <workdir> <level> <nrandom> <seed> <shard> <nshards>
 *        c20_prog <bindir> <qhome> <workdir> -      (cases "P <prog> <variant> <in-hex>" on stdin)
 * <workdir>/c20_qq (compiled from c20_qq.c by the check script) stands in for qmail-queue.
 * variants: smtpd/qmtpd bit0 RELAYCLIENT, bit1 DATABYTES=50; popup 0 checkpassword=/bin/true, 1 /bin/false;
 *   inject 0 "-n", 1 "-n -H extra@arg.example" QMAILINJECT=f, 2 "-n -h -fsnd-@[]" QMAILINJECT=cfsirm QMAILNAME QMAILMFTFILE,
 *     3 no -n: the message is really queued (qmail_open/put/from/to/close) through the stand-in qmail-queue;
 *   local (input = contents of .qmail-ext): 0 "-n" (instructions are printed), 1 REAL delivery: the message is a regular file
 *     on stdin, mbox / maildir instructions write into the private home directory, "|" lines run /bin/sh (PATH=/nonexistent),
 *     forward lines build the recipient table and go through the stand-in qmail-queue; run as uid 65534 when we are root so
 *     that a generated absolute path cannot write outside the scratch directory;
 *   qmqpd, pop3d (run as uid 65534 when we are root): 0 only.
 * exit -1 sig 9 san 0 = killed by us: hung after its stdin was closed (or after it stopped reading); see expired().
 * Enumerated cases depend only on <level>; random cases on <seed> and <shard>.  The out-prefix / outlen of some
 * programs contain the time and pids (qp, APOP banner, Message-ID), so only exit/sig/san are reproducible there. */
#include "hcommon.h"
#include <errno.h>
#include <fcntl.h>
#include <poll.h>
#include <signal.h>
#include <dirent.h>
#include <grp.h>
#include <time.h>
#include <utime.h>
#include <sys/stat.h>
#include <sys/wait.h>

#define TIMEOUT_S 10.0
#define ERRCAP (1u << 20)
#define NOBODY 65534
#define MAXREQ "2000000009" /* largest length the netstring readers accept */

enum { SMTPD, QMTPD, QMQPD, POP3D, POPUP, INJECT, LOCAL, NPROG };
static const char *pname[NPROG] = {"smtpd", "qmtpd", "qmqpd", "pop3d", "popup", "inject", "local"};
static const char *pbin[NPROG] = {"qmail-smtpd", "qmail-qmtpd", "qmail-qmqpd", "qmail-pop3d",
                                  "qmail-popup", "qmail-inject", "qmail-local"};
static const int pnvar[NPROG] = {4, 4, 1, 1, 2, 4, 2};
static const char LOCALMSG[] = "Subject: c20\n\nbody line\n";

static const char *bindir, *qhome, *workdir;
static char sdir[2048], popdir[2100], homedir[2100], qqpath[2100], mftpath[2100], sanlog[2100], msgpath[2100];
static int level = 1, shard, nshards = 1, isroot;
static unsigned long caseid;

static void die(const char *m)
{
  if (h_out) fflush(h_out);
  fprintf(stderr, "c20_prog: %s: %s\n", m, strerror(errno));
  exit(2);
}
static double now_s(void) { struct timespec t; clock_gettime(CLOCK_MONOTONIC, &t); return (double)t.tv_sec + (double)t.tv_nsec * 1e-9; }

/* ---------- files and directories ---------- */
static void mkdirp(const char *p)
{
  char t[4096];
  snprintf(t, sizeof t, "%s", p);
  for (char *s = t + 1; *s; s++)
    if (*s == '/') { *s = 0; mkdir(t, 0755); *s = '/'; }
  if (mkdir(t, 0755) == -1 && errno != EEXIST) die(p);
}
/* write dir/name (mode 0644) via temporary name + rename; keep != 0 leaves an existing file alone;
 * mtime != 0 also sets the modification time (qmail-pop3d skips files as new as "now") */
static void put_in(const char *dir, const char *name, const void *p, size_t n, int keep, long mtime)
{
  struct stat st;
  struct utimbuf ut;
  char path[4200], t[4300];
  snprintf(path, sizeof path, "%s/%s", dir, name);
  if (keep && stat(path, &st) == 0) return;
  snprintf(t, sizeof t, "%s.tmp%ld", path, (long)getpid());
  int fd = open(t, O_WRONLY | O_CREAT | O_TRUNC, 0644);
  if (fd < 0) die(t);
  for (size_t off = 0; off < n;) {
    ssize_t w = write(fd, (const char *)p + off, n - off);
    if (w < 0) { if (errno == EINTR) continue; die(t); }
    off += (size_t)w;
  }
  fchmod(fd, 0644); close(fd);
  ut.actime = ut.modtime = mtime;
  if (mtime && utime(t, &ut) == -1) die(t);
  if (rename(t, path) == -1) die(path);
}
static void empty_dir(const char *dir, const char *sub)
{
  char d[4200], t[4600];
  struct dirent *e;
  snprintf(d, sizeof d, "%s/%s", dir, sub);
  DIR *D = opendir(d);
  while (D && (e = readdir(D))) { snprintf(t, sizeof t, "%s/%s", d, e->d_name); unlink(t); } /* "." and ".." fail harmlessly */
  if (D) closedir(D);
}
static void reset_maildir(int fill)
{
  static char big[3014];
  empty_dir(popdir, "Maildir/new"); empty_dir(popdir, "Maildir/cur"); empty_dir(popdir, "Maildir/tmp");
  if (!fill) return;
  static const char m1[] = "Subject: one\n\nfirst line\n.dot line\nlast line\n";
  put_in(popdir, "Maildir/new/1000000001.a", m1, sizeof m1 - 1, 0, 1000000001);
  memset(big, 'y', sizeof big); memcpy(big, "Subject: two\n\n", 14);
  put_in(popdir, "Maildir/new/1000000002.b", big, sizeof big, 0, 1000000002); /* 3000-byte last line, no newline */
  put_in(popdir, "Maildir/cur/1000000003.c:2,S", "", 0, 0, 1000000003);
}
static void setup(const char *tag)
{
  char t[4200];
  static const char *sub[] = {"", "/Maildir", "/Maildir/new", "/Maildir/cur", "/Maildir/tmp"};
  isroot = (geteuid() == 0);
  snprintf(t, sizeof t, "%s/control", qhome); mkdirp(t);
  put_in(t, "me", "me.example\n", 11, 1, 0);
  put_in(t, "rcpthosts", "me.example\n.sub.example\n", 24, 1, 0);
  put_in(t, "databytes", "100000\n", 7, 1, 0);
  put_in(t, "localiphost", "me.example\n", 11, 1, 0);
  put_in(t, "badmailfrom", "bad@client.example\n@bad.example\n", 32, 1, 0); /* the table is built and consulted; no base sender matches */
  mkdirp(workdir);
  if (!(workdir = realpath(workdir, 0)) || !(bindir = realpath(bindir, 0))) die("realpath");
  snprintf(sdir, sizeof sdir, "%s/%s", workdir, tag);
  snprintf(popdir, sizeof popdir, "%s/pop", sdir);
  snprintf(homedir, sizeof homedir, "%s/home", sdir);
  snprintf(qqpath, sizeof qqpath, "%s/c20_qq", workdir);
  snprintf(mftpath, sizeof mftpath, "%s/c20_mft", workdir);
  snprintf(sanlog, sizeof sanlog, "%s/sanitizer.log", workdir);
  if (access(qqpath, X_OK) == -1) die(qqpath);
  put_in(workdir, "c20_mft", "list@lists.example\nto@example\n", 30, 1, 0);
  mkdirp(homedir); chmod(homedir, 0755);
  snprintf(msgpath, sizeof msgpath, "%s/c20_msg", sdir);
  put_in(sdir, "c20_msg", LOCALMSG, sizeof LOCALMSG - 1, 0, 0);
  { static const char *hs[] = {"", "/Maildir", "/Maildir/tmp", "/Maildir/new", "/Maildir/cur"};   /* real deliveries of qmail-local */
    for (int i = 0; i < 5; i++) {
      snprintf(t, sizeof t, "%s%s", homedir, hs[i]);
      mkdirp(t); chmod(t, 0755);
      if (isroot && chown(t, NOBODY, NOBODY) == -1) die(t);
    } }
  for (int i = 0; i < 5; i++) {
    snprintf(t, sizeof t, "%s%s", popdir, sub[i]);
    mkdirp(t); chmod(t, 0755);
    if (isroot && chown(t, NOBODY, NOBODY) == -1) die(t);
  }
  if (isroot) { chmod(workdir, 0755); chmod(sdir, 0755); } /* uid 65534 must be able to reach popdir */
}

/* ---------- running one child ---------- */
static void child_exec(int prog, int var)
{
  static char path[4200], e_qq[2200], e_mft[2200];
  char *av[16], *ev[16];
  int a = 0, e = 0;
  const char *cwd = sdir;
  snprintf(path, sizeof path, "%s/%s", bindir, pbin[prog]);
  snprintf(e_qq, sizeof e_qq, "QMAILQUEUE=%s", qqpath);
  snprintf(e_mft, sizeof e_mft, "QMAILMFTFILE=%s", mftpath);
  ev[e++] = "ASAN_OPTIONS=detect_leaks=0:exitcode=86:abort_on_error=0:allocator_may_return_null=1";
  ev[e++] = "UBSAN_OPTIONS=exitcode=86:print_stacktrace=1:halt_on_error=1";
  av[a++] = path;
  switch (prog) {
  case SMTPD: case QMTPD: case QMQPD:
    ev[e++] = "TCPREMOTEIP=1.2.3.4"; ev[e++] = "TCPREMOTEHOST=client.example";
    ev[e++] = "TCPLOCALHOST=me.example"; ev[e++] = e_qq;
    if (var & 1) ev[e++] = (prog == SMTPD) ? "RELAYCLIENT=" : "RELAYCLIENT=@relay.example";
    if (var & 2) ev[e++] = "DATABYTES=50";
    break;
  case POP3D: av[a++] = "Maildir"; cwd = popdir; break;
  case POPUP:
    av[a++] = "me.example"; av[a++] = (var & 1) ? "/bin/false" : "/bin/true"; av[a++] = "/bin/true";
    break;
  case INJECT: /* -n: print instead of queueing; -H: recipients from args and header; -h: header only */
    ev[e++] = "QMAILUSER=u"; ev[e++] = "QMAILHOST=h.example";
    if (var != 3) av[a++] = "-n"; else ev[e++] = e_qq;
    if (var == 1) { ev[e++] = "QMAILINJECT=f"; av[a++] = "-H"; av[a++] = "extra@arg.example"; }
    if (var == 2) {
      ev[e++] = "QMAILINJECT=cfsirm"; ev[e++] = "QMAILNAME=Full (Name) \"x\""; ev[e++] = e_mft;
      av[a++] = "-h"; av[a++] = "-fsnd-@[]";
    }
    break;
  case LOCAL:
    if (var & 1) { ev[e++] = e_qq; ev[e++] = "PATH=/nonexistent"; } else av[a++] = "-n";
    av[a++] = "user"; av[a++] = homedir; av[a++] = "user-ext"; av[a++] = "-";
    av[a++] = "ext"; av[a++] = "dom.example"; av[a++] = "sender@x.example"; av[a++] = "./Maildir/";
    break;
  }
  av[a] = 0; ev[e] = 0;
  if (chdir(cwd) == -1) _exit(126);
  if (prog == LOCAL && (var & 1)) { /* deliveries rewind the message: stdin must be a regular file */
    int fd = open(msgpath, O_RDONLY);
    if (fd == -1 || dup2(fd, 0) == -1) _exit(123);
    close(fd);
  }
  if ((prog == POP3D || (prog == LOCAL && (var & 1))) && isroot) /* qmail-pop3d refuses to run with uid 0; qmail-local must not write as root */
    if (setgroups(0, 0) == -1 || setgid(NOBODY) == -1 || setuid(NOBODY) == -1) _exit(125);
  execve(path, av, ev);
  _exit(127);
}

static const char *find(const char *h, size_t hn, const char *needle)
{
  size_t m = strlen(needle);
  for (size_t i = 0; i + m <= hn; i++)
    if (h[i] == needle[0] && !memcmp(h + i, needle, m)) return h + i;
  return 0;
}
static void hexto(hbuf *b, const unsigned char *p, size_t n)
{
  static const char d[] = "0123456789abcdef";
  if (!n) hbuf_add(b, "-", 1);
  for (size_t i = 0; i < n; i++) { char c[2] = {d[p[i] >> 4], d[p[i] & 15]}; hbuf_add(b, c, 2); }
}

/* CPU seconds (user+system) the child has used so far, from /proc/<pid>/stat; 0 if unreadable */
static double cpu_s(pid_t pid)
{
  char p[64], b[1024]; snprintf(p, sizeof p, "/proc/%ld/stat", (long)pid);
  FILE *f = fopen(p, "r"); if (!f) return 0;
  size_t k = fread(b, 1, sizeof b - 1, f); fclose(f); b[k] = 0;
  char *q = strrchr(b, ')'); if (!q) return 0;
  unsigned long ut = 0, stt = 0;
  if (sscanf(q + 1, " %*c %*d %*d %*d %*d %*d %*u %*u %*u %*u %*u %lu %lu", &ut, &stt) != 2) return 0;
  return (double)(ut + stt) / (double)sysconf(_SC_CLK_TCK);
}
/* has the child hung?  Decided on CPU time, not wall time (a wall-clock limit alone made a slow but finishing case - 58 k
 * recipients through a sanitised qmail-inject - look hung on a machine shared with other work; thorough tier, seed 2).
 * After TIMEOUT_S of wall time without progress on its descriptors the child is
 *   busy-hung   if it has burnt CPU_LIMIT_S seconds of CPU (no generated case needs a tenth of that), or
 *   blocked     if its CPU time has not advanced by 0.2 s during a further window of TIMEOUT_S (180 s when the load average
 *               is well above the number of processors: starved, not hung);
 * a child that keeps computing is given up to WALL_LIMIT_S. */
#define CPU_LIMIT_S 90.0
#define WALL_LIMIT_S 900.0
static int expired(pid_t pid, double t0)
{
  static pid_t seen_pid;
  static double seen_cpu, seen_t;
  double now = now_s(), w = now - t0, la[1];
  if (w <= TIMEOUT_S) return 0;
  double c = cpu_s(pid);
  if (c >= CPU_LIMIT_S || w >= WALL_LIMIT_S) return 1;
  if (pid != seen_pid) { seen_pid = pid; seen_cpu = c; seen_t = now; return 0; }
  if (c - seen_cpu >= 0.2) { seen_cpu = c; seen_t = now; return 0; }
  double idle = now - seen_t;
  if (idle < TIMEOUT_S) return 0;
  long nc = sysconf(_SC_NPROCESSORS_ONLN);
  if (idle < 180.0 && getloadavg(la, 1) == 1 && la[0] > 1.5 * (double)(nc > 0 ? nc : 1)) return 0;
  return 1;
}

static void run_case(int prog, int var, const unsigned char *in, size_t n)
{
  static hbuf err, rec;
  static char rb[65536];
  const unsigned char *sin = in;
  size_t sn = n, off = 0, outlen = 0, pren = 0;
  unsigned char pre[48];
  int pi[2], po[2], pe[2], st = 0, timedout = 0, inopen = 1, oopen = 1, eopen = 1;
  static int san_hits, hang_hits;   /* a broken tree makes every child print a (slowly symbolised) report: 20 failing inputs per shard are enough */

  if (san_hits >= 20 || hang_hits >= 4) return;
  if (prog == POP3D) reset_maildir(1);
  if (prog == LOCAL && (var & 1)) { /* real delivery forks (and fsyncs) once per mbox / maildir / program line: a generated file with
                                       more than 100 such lines is run with -n instead */
    size_t dl = 0;
    for (size_t i = 0; i < n; i++) if ((i == 0 || in[i - 1] == '\n') && (in[i] == '.' || in[i] == '/' || in[i] == '|')) dl++;
    if (dl > 100) var = 0;
  }
  if (prog == LOCAL) {
    put_in(homedir, ".qmail-ext", in, n, 0, 0);
    sin = (const unsigned char *)LOCALMSG; sn = sizeof LOCALMSG - 1;
    if (var & 1) { sn = 0; empty_dir(homedir, "Maildir/new"); empty_dir(homedir, "Maildir/tmp"); }
  }
  fflush(h_out);
  if (pipe(pi) == -1 || pipe(po) == -1 || pipe(pe) == -1) die("pipe");
  pid_t pid = fork();
  if (pid == -1) die("fork");
  if (pid == 0) {
    setpgid(0, 0);
    if (dup2(pi[0], 0) == -1 || dup2(po[1], 1) == -1 || dup2(pe[1], 2) == -1) _exit(124);
    for (int fd = 3; fd < 256; fd++) close(fd); /* qmail-popup insists on pipe() returning fd 3 */
    signal(SIGPIPE, SIG_DFL);
    child_exec(prog, var);
  }
  setpgid(pid, pid);
  close(pi[0]); close(po[1]); close(pe[1]);
  fcntl(pi[1], F_SETFL, O_NONBLOCK);
  hbuf_reset(&err);
  double t0 = now_s(); /* time of the last progress on stdin (the limit runs from its close) */
  if (!sn) { close(pi[1]); inopen = 0; }
  while (inopen || oopen || eopen) {
    struct pollfd f[3];
    int nf = 0, ii = -1, oi = -1, ei = -1;
    if (inopen) { f[nf].fd = pi[1]; f[nf].events = POLLOUT; ii = nf++; }
    if (oopen) { f[nf].fd = po[0]; f[nf].events = POLLIN; oi = nf++; }
    if (eopen) { f[nf].fd = pe[0]; f[nf].events = POLLIN; ei = nf++; }
    double left = t0 + TIMEOUT_S - now_s();
    if (left <= 0) { if (expired(pid, t0)) { timedout = 1; break; } left = 1.0; }
    int r = poll(f, (nfds_t)nf, (int)(left * 1000) + 1);
    if (r < 0) { if (errno == EINTR) continue; die("poll"); }
    if (r == 0) continue;
    if (ii >= 0 && f[ii].revents) {
      ssize_t w = write(pi[1], sin + off, sn - off);
      if (w > 0) { off += (size_t)w; t0 = now_s(); }
      else if (w < 0 && errno != EAGAIN && errno != EINTR) off = sn; /* EPIPE: child stopped reading */
      if (off >= sn) { close(pi[1]); inopen = 0; t0 = now_s(); }
    }
    if (oi >= 0 && f[oi].revents) {
      ssize_t k = read(po[0], rb, sizeof rb);
      if (k > 0) {
        if (pren < 48) { size_t c = 48 - pren; if (c > (size_t)k) c = (size_t)k; memcpy(pre + pren, rb, c); pren += c; }
        outlen += (size_t)k;
      } else if (k == 0 || errno != EINTR) { close(po[0]); oopen = 0; }
    }
    if (ei >= 0 && f[ei].revents) {
      ssize_t k = read(pe[0], rb, sizeof rb);
      if (k > 0) { if (err.n < ERRCAP) hbuf_add(&err, rb, (size_t)k); }
      else if (k == 0 || errno != EINTR) { close(pe[0]); eopen = 0; }
    }
  }
  if (inopen) close(pi[1]);
  if (oopen) close(po[0]);
  if (eopen) close(pe[0]);
  for (;;) {
    if (!timedout) {
      pid_t w = waitpid(pid, &st, WNOHANG);
      if (w == pid) break;
      if (w == -1 && errno != EINTR) die("waitpid");
      if (expired(pid, t0)) timedout = 1; else { usleep(100); continue; }
    }
    kill(-pid, SIGKILL); kill(pid, SIGKILL);
    while (waitpid(pid, &st, 0) == -1 && errno == EINTR) ;
    break;
  }
  kill(-pid, SIGKILL); /* stray grandchildren, if any */

  int ex = -1, sig = 0, san = 0;
  char mark[164] = "-";
  if (timedout) { sig = 9; hang_hits++; }
  else if (WIFSIGNALED(st)) sig = WTERMSIG(st);
  else ex = WEXITSTATUS(st);
  const char *es = (const char *)err.p, *hit = 0;
  if (!timedout) {
    hit = find(es, err.n, "Sanitizer");
    const char *h2 = find(es, err.n, "runtime error:");
    if (h2 && (!hit || h2 < hit)) hit = h2;
    san = (hit || ex == 86);
  }
  if (san) {
    san_hits++;
    /* errmark: first line with ERROR / runtime error, blanks -> '_', "==pid==" prefix dropped */
    const char *l = es, *end = es + err.n;
    while (l < end) {
      const char *nl = memchr(l, '\n', (size_t)(end - l));
      size_t ln = nl ? (size_t)(nl - l) : (size_t)(end - l);
      if (find(l, ln, "ERROR") || find(l, ln, "runtime error")) {
        if (ln > 4 && l[0] == '=' && l[1] == '=') {
          const char *q = l + 2;
          while (q < l + ln && *q >= '0' && *q <= '9') q++;
          if (q + 1 < l + ln && q[0] == '=' && q[1] == '=') { ln -= (size_t)(q + 2 - l); l = q + 2; }
        }
        if (ln > 160) ln = 160;
        for (size_t i = 0; i < ln; i++) mark[i] = (l[i] <= ' ' || l[i] >= 127) ? '_' : l[i];
        if (ln) mark[ln] = 0;
        break;
      }
      if (!nl) break;
      l = nl + 1;
    }
    /* full report (8 KiB starting at the line of the first sanitizer marker) to sanitizer.log */
    const char *from = es;
    if (hit) { from = hit; while (from > es && from[-1] != '\n') from--; }
    size_t fn = (size_t)(es + err.n - from);
    if (fn > 8192) fn = 8192;
    char hd[64];
    hbuf_reset(&rec); hbuf_add(&rec, hd, (size_t)snprintf(hd, sizeof hd, "CASE P %s %d ", pname[prog], var));
    hexto(&rec, in, n); hbuf_add(&rec, "\n", 1); hbuf_add(&rec, from, fn);
    if (!fn || from[fn - 1] != '\n') hbuf_add(&rec, "\n", 1);
    int fd = open(sanlog, O_WRONLY | O_CREAT | O_APPEND, 0644);
    if (fd >= 0) { if (write(fd, rec.p, rec.n) < 0) {} close(fd); }
  }
  fprintf(h_out, "P %s %d ", pname[prog], var); h_hex(in, n);
  fprintf(h_out, " %d %d %d %zu ", ex, sig, san, outlen); h_hex(pre, pren);
  fprintf(h_out, " %s\n", mark);
}

/* numeric tables */
static long LEN[600]; static int nLEN;       /* address / line lengths for smtpd */
static const long PLEN[] = {0, 1, 100, 255, 256, 257, 511, 512, 513, 1000, 8191, 8192, 8193, 100000};
static const char *BIGNUM[] = {"0", "1", "9", "10", "99", "100", "999", "1000", "1001", "200000000", "200000001",
  "2000000009", "2147483647", "2147483648", "2147483649", "4294967295", "4294967296", "4294967297", "9999999999",
  "18446744073709551615", "18446744073709551616", "99999999999999999999999",
  /* level 2 */ "2", "998", "1002", "199999999", "200000002", "2000000000", "2000000010", "4294967299",
  "9223372036854775807", "9223372036854775808", "18446744073709551617", "18446744073709551619", 0};
static const char *POPNUM[] = {"0", "1", "2", "3", "4", "-1", "+1", "00000000001", "4294967295", "4294967296",
  "4294967297", "18446744073709551615", "18446744073709551616", "18446744073709551617", "99999999999999999999999",
  "@5000", /* level 2 */ "2147483647", "2147483648", "4294967299", "9223372036854775808", "18446744073709551619",
  "1x", "0x1", " 1", "", "1 1 1", 0};
static void addlen(long lo, long hi) { for (long v = lo; v <= hi; v++) LEN[nLEN++] = v; }
static void make_tables(void)
{
  int w = level < 2 ? 1 : 3;
  static const long pts[] = {64, 256, 4096}, one[] = {16384, 65535, 65536, 100000};
  addlen(0, 1);
  for (int i = 0; i < 3; i++) addlen(pts[i] - 1 - w, pts[i] + 1 + w);
  addlen(895 - 4 * w, 905 + 4 * w); addlen(999 - 4 * w, 1005 + 4 * w); addlen(8190 - 2 * w, 8194 + 2 * w);
  for (int i = 0; i < 4; i++) addlen(one[i], one[i]);
  if (level >= 2) { static const long x[] = {32, 100, 128, 512, 1024, 2048, 32768, 131072, 300000};
    for (int i = 0; i < 9; i++) addlen(x[i] - 1, x[i] + 1); }
}
static int nbig(void) { int n = 0; while (BIGNUM[n]) n++; return level < 2 ? 22 : n; }
static int npop(void) { int n = 0; while (POPNUM[n]) n++; return level < 2 ? 16 : n; }

/* one random mutation of p[0..n) into t: delete / duplicate a range, overwrite a byte, insert a huge number, truncate */
static void mutate1(const unsigned char *p, size_t n, hbuf *t)
{
  static const unsigned char sp[] = "\0\r\n()<>\"\\@,;:.[]\xff" "0123456789";
  hbuf_reset(t);
  if (!n) { hbuf_add(t, sp, 1 + h_below(8)); return; }
  size_t a = h_below((uint32_t)n), b = a + h_below((uint32_t)(n - a)) + 1;
  switch (h_below(6)) {
  case 0: hbuf_add(t, p, a); hbuf_add(t, p + b, n - b); break;
  case 1: {
    if (b - a > 64 && h_below(2)) b = a + 1 + h_below(64);
    size_t reps = 1 + h_below(h_below(4) ? 4 : (uint32_t)(50000 / (b - a)));
    hbuf_add(t, p, b);
    for (size_t r = 0; r < reps && t->n < 400000; r++) hbuf_add(t, p + a, b - a);
    hbuf_add(t, p + b, n - b); break; }
  case 2: case 3: hbuf_add(t, p, n); t->p[a] = sp[h_below(sizeof sp - 1)]; break;
  case 4: { const char *s = BIGNUM[h_below(34)]; hbuf_add(t, p, a); hbuf_add(t, s, strlen(s)); hbuf_add(t, p + a, n - a); break; }
  default: hbuf_add(t, p, h_below(8) ? n : a); break;
  }
}

/* a case is run by the shard that owns its number; at level 2 every enumerated case is followed by
 * two mutated neighbours (derived from the case number only, so they do not depend on the seed) */
static void emit(int prog, int var, const void *p, size_t n)
{
  static hbuf t;
  unsigned long id = caseid++, ns = (unsigned long)nshards;
  var %= pnvar[prog];
  if (id % ns == (unsigned long)shard) run_case(prog, var, (const unsigned char *)p, n);
  for (int j = 1; level >= 2 && j <= 2; j++) {
    if (caseid++ % ns != (unsigned long)shard) continue;
    h_seed(id * 4 + (unsigned long)j);
    mutate1((const unsigned char *)p, n, &t);
    run_case(prog, var, t.p, t.n);
  }
}

/* ---------- building inputs ---------- */
static hbuf B; /* the input under construction */
static void S(const char *s) { hbuf_add(&B, s, strlen(s)); }
static void M(const void *p, size_t n) { hbuf_add(&B, p, n); }
static void R(int c, size_t n) { char t[256]; memset(t, c, sizeof t); while (n) { size_t k = n < 256 ? n : 256; M(t, k); n -= k; } }
static void RS(const char *s, size_t n) { while (n--) S(s); }
static void E(int prog, int var) { emit(prog, var, B.p, B.n); hbuf_reset(&B); }
static void Snum(const char *s) { if (s[0] == '@') { S("1"); R('7', (size_t)atol(s + 1) - 1); } else S(s); }
/* every variant at level 2, the given one at level 1 */
static void EV(int prog, int var)
{
  if (level < 2) { E(prog, var); return; }
  for (int v = 0; v < pnvar[prog]; v++) emit(prog, v, B.p, B.n);
  hbuf_reset(&B);
}
static void trunc_all(int prog, int var, const unsigned char *p, size_t n)
{
  for (size_t k = 0; k <= n; k++) { M(p, k); EV(prog, var); }
}
static void S_lf(const hbuf *b) /* append b with CRLF turned into bare LF */
{
  for (size_t i = 0; i < b->n; i++)
    if (!(b->p[i] == '\r' && i + 1 < b->n && b->p[i + 1] == '\n')) M(b->p + i, 1);
}
static void trunc_lf(int prog, int var, const hbuf *b) /* same with bare LF line ends */
{
  static hbuf l;
  S_lf(b); hbuf_reset(&l); hbuf_add(&l, B.p, B.n); hbuf_reset(&B);
  trunc_all(prog, var, l.p, l.n);
}

static hbuf base[NPROG][6];
static int nbase[NPROG];
static void addbase(int prog, const void *p, size_t n) { hbuf_add(&base[prog][nbase[prog]++], p, n); }
static void addbases(int prog, const char *s) { addbase(prog, s, strlen(s)); }

/* ---------- smtpd ---------- */
static const char SM_HEAD[] = "HELO client.example\r\n", SM_MSG[] = "DATA\r\nSubject: t\r\n\r\nhi\r\n.\r\nQUIT\r\n";
static void smtp_addr(int var, const void *m, size_t mn, const void *r, size_t rn)
{
  S(SM_HEAD); S("MAIL FROM:"); M(m, mn); S("\r\nRCPT TO:"); M(r, rn); S("\r\n"); S(SM_MSG); EV(SMTPD, var);
}
static void smtp_data(int var, const void *body, size_t n)
{
  S(SM_HEAD); S("MAIL FROM:<a@client.example>\r\nRCPT TO:<bob@me.example>\r\nDATA\r\n"); M(body, n); S("QUIT\r\n");
  EV(SMTPD, var);
}
static void gen_smtpd(void)
{
  static const char ok_m[] = "<alice@client.example>", ok_r[] = "<bob@me.example>";
  hbuf a = {0};
  for (int b = 0; b < nbase[SMTPD]; b++) {
    trunc_all(SMTPD, b, base[SMTPD][b].p, base[SMTPD][b].n);
    if (level < 2 && b < 2) trunc_all(SMTPD, b + 2, base[SMTPD][b].p, base[SMTPD][b].n);
    trunc_lf(SMTPD, b + 1, &base[SMTPD][b]);
  }
  for (int i = 0; i < nLEN; i++) {
    size_t L = (size_t)LEN[i];
    for (int k = 0; k < 4; k++) { /* local part / domain of L bytes in MAIL FROM / RCPT TO */
      hbuf_reset(&a); hbuf_add(&a, "<", 1);
      if (k & 1) hbuf_add(&a, "u@", 2);
      for (size_t j = 0; j < L; j++) hbuf_add(&a, (k & 1) && j % 60 == 59 ? "." : "a", 1);
      hbuf_add(&a, (k & 1) ? ">" : "@me.example>", (k & 1) ? 1 : 12);
      if (k < 2) smtp_addr(i + k, a.p, a.n, ok_r, sizeof ok_r - 1);
      else smtp_addr(k == 3 ? 1 : i, ok_m, sizeof ok_m - 1, a.p, a.n); /* foreign domain needs RELAYCLIENT */
    }
    R('A', L); EV(SMTPD, i);                       /* line that never ends */
    S("EHLO "); R('h', L); S("\r\n"); R('V', L); S(" x\r\nQUIT\r\n"); EV(SMTPD, i);
    S(SM_HEAD); S("MAIL FROM:<"); R('b', L); EV(SMTPD, i);
  }
  static const int nr[] = {1, 100, 1000, 5000, 20000};
  for (int i = 0; i < (level < 2 ? 4 : 5); i++) {
    S(SM_HEAD); S("MAIL FROM:<a@b>\r\n"); RS("RCPT TO:<bob@me.example>\r\n", (size_t)nr[i]); S(SM_MSG); EV(SMTPD, i);
  }
#define AD(s) {s, sizeof s - 1}
  static const struct { const char *p; size_t n; } bad[] = {
    AD("<a\0b@me.example>"), AD("<a\xff\x80@me.example>"), AD("<\"abc@me.example>"), AD("<abc\"@me.example>"),
    AD("<abc@me.example\\>"), AD("<abc\\"), AD("<abc@me.example"), AD("abc@me.example>"), AD("<<<<a@me.example>>>>"),
    AD("<\"\\"), AD("<a@[127.0.0.1>"), AD("<a@[127.0.0.1]>"), AD("<@>"), AD("<@me.example:>"), AD(":::"), AD(""),
    AD("<a@b@c@me.example>"), AD("<\"a\\\0b\"@me.example>"), AD("<\"\"@me.example>"), AD("<>"), AD("<@"), AD("<\\@@me.example>"),
    AD(" \t <a@me.example> junk=\"x"), AD("<a@me.example> SIZE=99999999999999999999"), AD("\0"), AD("<a@\0>") };
  for (unsigned i = 0; i < sizeof bad / sizeof bad[0]; i++) {
    smtp_addr((int)i, bad[i].p, bad[i].n, ok_r, sizeof ok_r - 1);
    smtp_addr((int)i + 1, ok_m, sizeof ok_m - 1, bad[i].p, bad[i].n);
  }
  static const int rt[] = {1, 2, 10, 100, 1000, 2000, 20000};
  for (int i = 0; i < (level < 2 ? 6 : 7); i++)
    for (int k = 0; k < 2; k++) {
      hbuf_reset(&a); hbuf_add(&a, "<", 1);
      for (int j = 0; j < rt[i]; j++) hbuf_add(&a, "@a,@b:", 6);
      hbuf_add(&a, "u@me.example>", 13);
      if (k) smtp_addr(i, ok_m, sizeof ok_m - 1, a.p, a.n); else smtp_addr(i, a.p, a.n, ok_r, sizeof ok_r - 1);
    }
  /* DATA: one huge line, hop counting, databytes, stray CR / LF */
  hbuf_reset(&a); for (int j = 0; j < 100000; j++) hbuf_add(&a, "x", 1);
  hbuf_add(&a, "\r\n.\r\n", 5); smtp_data(0, a.p, a.n); smtp_data(2, a.p, a.n);
  smtp_data(1, a.p, 100000);                        /* never terminated */
  static const int hops[] = {99, 100, 101, 200, 5000};
  for (int i = 0; i < 5; i++)
    for (int k = 0; k < 2; k++) {
      hbuf_reset(&a);
      for (int j = 0; j < hops[i]; j++) hbuf_add(&a, k ? "Delivered-To: x\r\n" : "Received: by y\r\n", k ? 17 : 16);
      hbuf_add(&a, "\r\nb\r\n.\r\n", 8); smtp_data(i, a.p, a.n);
    }
  static const char sb[] = "Subject: s\r\n\r\nab\r\n.c\r\n..\r\n.\r\n";
  for (size_t k = 0; k < sizeof sb; k++)
    for (int c = 0; c < 3; c++) {
      hbuf_reset(&a); hbuf_add(&a, sb, k); hbuf_add(&a, c == 0 ? "\r" : c == 1 ? "\n" : "\0", 1);
      hbuf_add(&a, sb + k, sizeof sb - 1 - k); smtp_data(c == 2 ? 2 : (int)k, a.p, a.n);
    }
  free(a.p);
}

/* ---------- qmtpd / qmqpd: netstring requests ----------
 * elements 0 message, 1 sender, 2 first recipient, (3.. further recipients); position 3 = the wrapper
 * (qmtpd: recipient list; qmqpd: the whole request).  lt replaces the length of the chosen position;
 * tail 0: EOF right after "lt:", 1: ten more bytes then EOF, 2: dlen bytes of data and the rest. */
static int ns_nul, ns_extra, ns_dos;
static void nsadd(hbuf *d, const void *p, size_t n)
{
  char t[32];
  hbuf_add(d, t, (size_t)snprintf(t, sizeof t, "%zu:", n)); hbuf_add(d, p, n); hbuf_add(d, ",", 1);
}
static void nsfill(hbuf *d, int e, size_t n)
{
  size_t start = d->n;
  for (size_t i = 0; i < n; i++)
    hbuf_add(d, e == 0 ? (i == 0 ? (ns_dos ? "\r" : "\n") : i % 40 == 39 ? "\n" : "m") : "a", 1);
  if (e && n > 11) memcpy(d->p + start + n - 11, "@me.example", 11);
  if (e && ns_nul && n) d->p[start + n / 2] = 0;
}
static void nsreq(int q, int var, int mpos, const char *lt, size_t ltn, int tail, size_t dlen)
{
  static hbuf X, W;
  static const char *el[4] = {"\nSubject: x\n\nbody\n", "alice@client.example", "bob@me.example", "carol@host.sub.example"};
  static const char dosmsg[] = "\rSubject: x\r\n\r\nbo\rdy\r\n\r";
  int stop = 0, prog = q ? QMQPD : QMTPD;
  char t[32];
  hbuf_reset(&X); hbuf_reset(&W);
  for (int e = 0; e < 4 + ns_extra && !stop; e++) {
    hbuf *cur = (q || e >= 2) ? &W : &X;
    if (e == mpos) {
      hbuf_add(cur, lt, ltn); hbuf_add(cur, ":", 1);
      if (tail == 0) stop = 1;
      else if (tail == 1) { hbuf_add(cur, e ? "aaaaaaaaaa" : "\nmmmmmmmmm", 10); stop = 1; }
      else { nsfill(cur, e, dlen); hbuf_add(cur, ",", 1); }
    } else if (e == 0 && ns_dos) nsadd(cur, dosmsg, sizeof dosmsg - 1);
    else if (e >= 4) nsadd(cur, e % 3 ? "dave@me.example" : "x@y.sub.example", 15);
    else nsadd(cur, el[e], strlen(el[e]));
  }
  M(X.p, X.n);
  if (stop && !q && mpos < 2) { E(prog, var); return; }
  if (mpos == 3) {
    M(lt, ltn); S(":");
    if (tail == 1) M(W.p, 10);
    if (tail == 2) {
      size_t k = dlen;
      if (!q) while (k > 0 && (size_t)snprintf(t, sizeof t, "%zu", k) + k + 2 != dlen) k--;
      if (q) M(W.p, W.n);
      else if (k || dlen == 3) { hbuf_reset(&W); hbuf_add(&W, t, (size_t)snprintf(t, sizeof t, "%zu:", k)); nsfill(&W, 2, k); M(W.p, W.n); S(","); }
      else R('x', dlen);
      S(",");
    }
  } else {
    if (stop) S(MAXREQ ":"); else M(t, (size_t)snprintf(t, sizeof t, "%zu:", W.n));
    M(W.p, W.n);
    if (!stop) S(",");
  }
  E(prog, var);
}
static void nsnum(int q, int var, int mpos, size_t dlen) /* consistent request with a dlen-byte element */
{
  char t[32];
  nsreq(q, var, mpos, t, (size_t)snprintf(t, sizeof t, "%zu", dlen), 2, dlen);
}
static void gen_ns(int q)
{
  int prog = q ? QMQPD : QMTPD, nv = q ? 1 : 2;
  char z[5100];
  for (int b = 0; b < nbase[prog]; b++)
    for (int v = 0; v < (level < 2 ? nv : pnvar[prog]); v++)
      for (size_t k = 0; k <= base[prog][b].n; k++) { M(base[prog][b].p, k); E(prog, q ? 0 : (b == 1 ? v + 2 : v)); }
  for (int v = 0; v < nv; v++)
    for (int pos = 0; pos < 4; pos++) {
      for (int i = 0; i < nbig(); i++) {
        const char *s = BIGNUM[i];
        size_t sl = strlen(s);
        nsreq(q, v, pos, s, sl, 0, 0); nsreq(q, v, pos, s, sl, 1, 0);
        if (sl <= 4) nsreq(q, v, pos, s, sl, 2, (size_t)atol(s));
      }
      static const int zs[] = {1, 50, 5000};
      for (int i = 0; i < 3; i++) {
        memset(z, '0', (size_t)zs[i]); strcpy(z + zs[i], "20");
        nsreq(q, v, pos, z, strlen(z), 2, 20); nsreq(q, v, pos, z, (size_t)zs[i], 2, 0);
      }
      static const struct { const char *p; size_t n; } nd[] = {AD("1x"), AD("-1"), AD("+5"), AD(" 5"), AD("5 "), AD(""),
        AD("\0"), AD("0x10"), AD("1\0" "0"), AD("\xff"), AD("/"), AD(";"), AD("5,"), AD("1e3")};
      for (unsigned i = 0; i < sizeof nd / sizeof nd[0]; i++) nsreq(q, v, pos, nd[i].p, nd[i].n, 1, 0);
    }
  for (int v = 0; v < nv; v++) {
    for (size_t L = 998 - (level > 1) * 4; L <= 1001 + (level > 1) * 4; L++) { nsnum(q, v, 1, L); nsnum(q, v, 2, L); }
    for (size_t L = 1000 - 14 - 2; L <= 1000 - 14 + 2; L++) nsnum(q, v, 2, L); /* len + strlen(RELAYCLIENT) */
    ns_nul = 1;
    nsnum(q, v, 1, 20); nsnum(q, v, 2, 20); nsnum(q, v, 1, 1); nsnum(q, v, 2, 1); nsnum(q, v, 2, 999 - 14 * v);
    ns_nul = 0;
    static const int ex[] = {0, 98, 1998, 19998};
    for (int i = 0; i < (level < 2 ? 3 : 4); i++) { ns_extra = ex[i]; nsnum(q, v, 1, 20); }
    ns_extra = 0;
    ns_dos = 1;
    for (size_t L = 0; L < 6; L++) nsnum(q, v, 0, L);
    nsnum(q, v + 2, 0, 49); nsnum(q, v + 2, 0, 50); nsnum(q, v + 2, 0, 51); nsnum(q, v + 2, 0, 52);
    ns_dos = 0;
    nsnum(q, v + 2, 0, 50); nsnum(q, v + 2, 0, 51); nsnum(q, v + 2, 0, 52); nsnum(q, v, 0, 100001);
    /* two requests back to back, the second one broken */
    M(base[prog][0].p, base[prog][0].n); M(base[prog][0].p, base[prog][0].n); S("5:\nabc"); E(prog, v);
  }
}

/* ---------- pop3d / popup ---------- */
static void gen_pop3d(void)
{
  static const char *cmd[] = {"LIST %", "UIDL %", "RETR %", "DELE %", "TOP % 1", "TOP 1 %", "TOP % %"};
  for (int b = 0; b < nbase[POP3D]; b++) {
    trunc_all(POP3D, 0, base[POP3D][b].p, base[POP3D][b].n);
    trunc_lf(POP3D, 0, &base[POP3D][b]);
  }
  for (int i = 0; i < npop(); i++)
    for (int c = 0; c < 7; c++) {
      for (const char *s = cmd[c]; *s; s++) if (*s == '%') Snum(POPNUM[i]); else M(s, 1);
      S("\r\n"); if (c == 3) S("LIST\r\nRETR 1\r\n"); S("QUIT\r\n"); E(POP3D, 0);
    }
  static const char *pre[] = {"", "RETR ", "TOP 1 ", "LIST 1", "USER "};
  for (int i = 0; i < 5; i++)
    for (int k = 0; k < 3; k++) { /* digits / spaces / letters; with and without line end */
      S(pre[i]); R(k == 0 ? '1' : k == 1 ? ' ' : 'A', 100000); E(POP3D, 0);
      if (level > 1 || k == i % 3) { S(pre[i]); R(k == 0 ? '1' : k == 1 ? ' ' : 'A', 100000); S("\r\nSTAT\r\nQUIT\r\n"); E(POP3D, 0); }
    }
  static const struct { const char *p; size_t n; } nl[] = {AD("\0\r\n"), AD("RETR\0 1\r\n"), AD("RETR \0" "1\r\n"), AD("RETR 1\0\r\n"),
    AD("TOP 1\0 1\r\n"), AD("LIST 1\0" "2\r\n"), AD("\0\0\0\0"), AD("ST\0AT\r\n"), AD("RETR 1 \xff\r\n"), AD("\xff\xfe\r\n"), AD("TOP\r\n"),
    AD("TOP 1\r\n"), AD("TOP  1  1\r\n"), AD("RETR\t1\r\n"), AD("retr 1\r\n"), AD("RETR 1\r"), AD("RETR 1\n\rSTAT\n")};
  for (unsigned i = 0; i < sizeof nl / sizeof nl[0]; i++) { M(nl[i].p, nl[i].n); S("STAT\r\nQUIT\r\n"); E(POP3D, 0); }
  static const char *many[] = {"LIST\r\n", "TOP 2 0\r\n", "RETR 1\r\n", "DELE 1\r\nRSET\r\n", "X\r\n", "\r\n"};
  for (int i = 0; i < 6; i++) { RS(many[i], level < 2 ? 3000 : 30000); S("QUIT\r\n"); E(POP3D, 0); }
}
static void gen_popup(void)
{
  for (int b = 0; b < nbase[POPUP]; b++)
    for (int v = 0; v < 2; v++) {
      for (size_t k = 0; k <= base[POPUP][b].n; k++) { M(base[POPUP][b].p, k); E(POPUP, v); }
      trunc_lf(POPUP, v, &base[POPUP][b]);
    }
  for (unsigned i = 0; i < sizeof PLEN / sizeof PLEN[0]; i++)
    for (int d = (level < 2 ? 0 : -1); d <= (level < 2 ? 0 : 1); d++) {
      size_t L = (size_t)(PLEN[i] + d);
      if (PLEN[i] + d < 0) continue;
      S("USER "); R('u', L); S("\r\nPASS p\r\n"); EV(POPUP, (int)i);
      S("USER u\r\nPASS "); R('p', L); S("\r\n"); EV(POPUP, (int)i + 1);
      S("APOP "); R('u', L); S(" 0123456789abcdef0123456789abcdef\r\n"); EV(POPUP, (int)i);
      S("APOP u "); R('d', L); S("\r\n"); EV(POPUP, (int)i + 1);
      S("USER u\r\n"); R('X', L); EV(POPUP, (int)i);
    }
  static const struct { const char *p; size_t n; } nl[] = {AD("USER a\0b\r\nPASS c\0d\r\n"), AD("USER \0\r\nPASS \0\r\n"),
    AD("APOP a\0b c\0d\r\n"), AD("APOP \0 \0\r\n"), AD("APOP  \r\n"), AD("APOP a\r\n"), AD("\0USER a\r\n"), AD("USER a\r\nPASS \xff\xff\r\n"),
    AD("USER\r\nPASS\r\n"), AD("USER a\r\nUSER b\r\nPASS\r\nPASS  \r\n"), AD("APOP a b c d e\r\n"), AD("user a\npass b\n")};
  for (unsigned i = 0; i < sizeof nl / sizeof nl[0]; i++) { M(nl[i].p, nl[i].n); E(POPUP, 0); M(nl[i].p, nl[i].n); E(POPUP, 1); }
  RS("USER u\r\n", 3000); S("PASS p\r\n"); E(POPUP, 0);
  RS("BOGUS\r\n", 3000); S("QUIT\r\n"); E(POPUP, 1);
}

/* ---------- inject ---------- */
#define NPAY 75
static int payload(int k) /* appends the k-th hostile field body to B; returns 1 if the input must end right there */
{
  static const int cnt[] = {1, 100, 1000, 3000}, dep[] = {1, 10, 100, 1000, 10000, 50000}, rep[] = {1, 100, 2000};
  static const long big[] = {1000, 8192, 65536};
  static const char *thou[] = {"<", ">", ":", ";", "@", ",", ".", "\"", "\\", "[", "]", "(a)", "<>", "a@b ", "a:;", "\t"};
  static const char *verp[] = {"<u-@[]>", "<-@[]>", "<@[]>", "<u-@h.example-@[]>", "<#@[]>", "<>", "u-@[]", "<u@h-@[]-@[]>", "<@a,@b:u-@[]>"};
  if (k < 4) { for (int i = 0; i < cnt[k]; i++) { char t[40]; M(t, (size_t)snprintf(t, sizeof t, "a%d@b%d.example, ", i, i)); } return 0; }
  if ((k -= 4) < 18) { int d = dep[k % 6];
    if (k / 6 == 0) { R('(', (size_t)d); S("c"); R(')', (size_t)d); S(" a@b"); }
    else { S("a@b "); R(k / 6 == 1 ? '(' : ')', (size_t)d); }
    return 0; }
  if ((k -= 18) < 3) { S("\"abc"); R('q', k == 0 ? 10 : 3000); if (k == 2) S("\\"); return k == 2; }
  if ((k -= 3) < 2) { S(k ? "\"a\\" : "a@b\\"); return 1; }
  if ((k -= 2) < 6) { if (k < 3) R('[', (size_t)(k == 0 ? 1 : k == 1 ? 100 : 10000)); else S(k == 3 ? "a@[" : k == 4 ? "a@[1.2.3.4]" : "a@[\\]]]"); return 0; }
  if ((k -= 6) < 3) { RS("<@a,@b:c@d>, ", (size_t)rep[k]); return 0; }
  if ((k -= 3) < 6) { if (k == 0) S("g: a@b, c@d;"); else if (k == 1) S("g: h: i: a@b;;;"); else if (k == 2) S("g: a@b, c@d");
    else if (k == 3) { RS("g:", 1000); S("a@b"); RS(";", 1000); } else if (k == 4) RS("g: a@b, <c@d>; ", 1000); else S(":;;:;:a@b;");
    return 0; }
  if ((k -= 6) < 3) { if (k == 0) M("a\0b@c.example, \0", 16); else if (k == 1) S("a\xff\x80@c\xfe.example (\xe9) \"\xe9\" <\xe9@\xe9>"); else M("\"a\0\" <x@y>", 10); return 0; }
  if ((k -= 3) < 3) { if (k == 0) R('a', 100000); else if (k == 1) RS("a@b,", 25000); else RS("a b ", 25000); return 0; }
  if ((k -= 3) < 2) { RS(k ? "\n\t" : "a@b,\n ", 5000); S("z@y"); return 0; }
  if ((k -= 2) < 6) { if (k & 1) S("u@"); R('l', (size_t)big[k / 2]); if (!(k & 1)) S("@d.example"); return 0; }
  if ((k -= 6) < 3) { if (k == 0) { R('.', 3000); S("a@b"); } else if (k == 1) { S("a@b"); R('.', 3000); } else RS("a.@.b,", 500); return 0; }
  if ((k -= 3) < 16) { RS(thou[k], 3000); S(" a@b"); return 0; }
  if ((k -= 16) < 9) { S(verp[k]); return 0; }
  return 0;
}
static void gen_inject(void)
{
  static const char *hdr[] = {"To", "Cc", "Bcc", "From", "Sender", "Reply-To", "Resent-To", "Resent-From", "Resent-Sender",
    "Mail-Followup-To", "Return-Path", "Date", "Message-ID", "Errors-To", "Notice-Requested-Upon-Delivery-To",
    /* level 2 */ "Resent-Cc", "Resent-Bcc", "Resent-Reply-To", "Return-Receipt-To", "Apparently-To", "Resent-Date", "Resent-Message-ID", "Received", "Subject", "X-Other"};
  int nh = level < 2 ? 15 : 25;
  for (int b = 0; b < nbase[INJECT]; b++) {
    for (int v = 0; v < 3; v++) { M(base[INJECT][b].p, base[INJECT][b].n); E(INJECT, v); }
    for (int v = 0; v < (level < 2 ? (b ? 1 : 2) : 3); v++) for (size_t k = 0; k <= base[INJECT][b].n; k++) { M(base[INJECT][b].p, k); E(INJECT, v + b); }
  }
  for (int h = 0; h < nh; h++)
    for (int k = 0; k < NPAY; k++) {
      S(hdr[h]); S(": ");
      if (!payload(k)) S("\nSubject: t\n\nbody\n");
      EV(INJECT, h + k);
      if (level < 2) { S(hdr[h]); S(":"); if (!payload(k)) S("\nTo: list@lists.example\n\nb\n"); E(INJECT, h + k + 1); } /* second form */
    }
  static const struct { const char *p; size_t n; } od[] = {AD("no colon here\nTo: a@b\n\nbody\n"), AD(": empty name\n\n"), AD("To\n"), AD("To"),
    AD("To :a@b\n"), AD("To\t : a@b\n\n"), AD(" leading space: x\nTo: a@b\n"), AD("\nbody only\n"), AD(""), AD("\n"), AD("To: a@b"), AD("To: a@b\n continued"),
    AD("T\0o: a@b\n\n"), AD("To: a@b\r\nCc: c@d\r\n\r\nbody\r\n"), AD("Date: \nMessage-ID: \nFrom: \nTo: \n\n"), AD("To:\n\t\n \n\nx\n"),
    AD("From: (\nTo: )\n\n"), AD("Resent-To: r@s\nTo: a@b\nResent-Cc: (\n\n"), AD("Return-Path: <a@b> <c@d>\nReturn-Path: x\n\n"),
    AD("Mail-Followup-To: \nTo: list@lists.example, \"q\" <to@example>, other@x\nCc: list@lists.example\n\n")};
  for (unsigned i = 0; i < sizeof od / sizeof od[0]; i++) for (int v = 0; v < 3; v++) { M(od[i].p, od[i].n); E(INJECT, v); }
  for (int v = 0; v < 3; v++) { RS("X: y\n", 20000); S("\nbody\n"); E(INJECT, v); RS("To: a@b\n", 3000); E(INJECT, v); S("To: a@b\n\n"); R('z', 300000); E(INJECT, v); }
}

/* ---------- local (.qmail file contents) ---------- */
/* every case in both modes: 0 = -n (the instructions are printed), 1 = real delivery (mbox / maildir / program / forward table) */
static void EL(void) { emit(LOCAL, 0, B.p, B.n); emit(LOCAL, 1, B.p, B.n); hbuf_reset(&B); }
/* without the level-2 mutated neighbours */
static void EP(int var)
{
  if (caseid++ % (unsigned long)nshards == (unsigned long)shard) run_case(LOCAL, var, B.p, B.n);
}
/* grammar of .qmail lines: <first byte> <tail> [newline].  qmail-local sizes its forward-recipient table in a first pass over
 * the lines and fills it in a second pass that classifies each line again after stripping trailing blanks: the two passes
 * must agree for every first byte, for empty / blank / indented remainders, in every line position, with and without a
 * final newline.  Only the real delivery mode builds the table. */
static void gen_local_grammar(void)
{
  static const unsigned char INTR[] = {'#', '.', '/', '|', '&', '+', ' ', '\t', '\n', '\r', 0, 'a', '@', 0xff, '-', '0', '"', '<', '\\', ':', ',', '(', 0x7f, 0x80};
  static const struct { const char *p; size_t n; } TAIL[] = {AD(""), AD("fwd@x.example"), AD(" \t "), AD(" fwd@x.example")};
  static const char *fill0[] = {"#c\n", "&f@x.example\n"}, *fill1[] = {"g@y.example\n", "+x\n", " \n"};
  static const long LL[] = {254, 255, 256, 257, 1000, 8192};
  const int NI = (int)sizeof INTR, NT = 4;
  /* A: one line, every first byte 0..255 */
  for (int b = 0; b < 256; b++)
    for (int t = 0; t < NT; t++)
      for (int nl = 1; nl >= 0; nl--) {
        int intr = memchr(INTR, b, sizeof INTR) != 0;
        if (!nl && level < 2 && !intr) continue;
        unsigned char c = (unsigned char)b;
        for (int v = 1; v >= 0; v--) {
          if (!v && level < 2 && !(intr && nl)) continue;
          hbuf_reset(&B); M(&c, 1); M(TAIL[t].p, TAIL[t].n); if (nl) S("\n"); EP(v);
        }
      }
  /* B: the line in every position of files of 2..6 lines, the other lines harmless (comments, +x, forwards, blank) */
  for (int n = 2; n <= 6; n++)
    for (int pos = 0; pos < n; pos++)
      for (int i = 0; i < NI; i++)
        for (int t = 0; t < NT; t++) {
          hbuf_reset(&B);
          for (int l = 0; l < n; l++) {
            if (l == pos) { M(INTR + i, 1); M(TAIL[t].p, TAIL[t].n); S("\n"); }
            else S((n + pos) % 2 ? fill1[l % 3] : fill0[l % 2]);
          }
          if ((i + t + pos) % 5 == 0) B.n--;   /* no final newline */
          EP(1);
          if (level >= 2 && (i + t) % 3 == 0) EP(0);
        }
  /* C: 1..6 lines of the same shape */
  for (int n = 1; n <= 6; n++)
    for (int i = 0; i < NI; i++)
      for (int t = 0; t < NT; t++) {
        hbuf_reset(&B);
        for (int l = 0; l < n; l++) { M(INTR + i, 1); M(TAIL[t].p, TAIL[t].n); if (t == 1 || t == 3) { char d[8]; M(d, (size_t)snprintf(d, sizeof d, ".%d", l)); } S("\n"); }
        EP(1);
      }
  /* D: long lines around the 256-byte read buffer of slurpclose, after a forward line */
  for (int i = 0; i < NI; i++)
    for (int k = 0; k < 6; k++) {
      hbuf_reset(&B); S("&f@x.example\n"); M(INTR + i, 1); R(k % 2 ? ' ' : 'x', (size_t)LL[k] - 22); S("@y.examp"); if (k < 4) S("\n&z@z\n"); EP(1);
    }
  hbuf_reset(&B);
}
static void gen_local(void)
{
  static const char *kind[] = {"#", "|", "/", "./", "&", "", "+", ".", " "};
  static const char sh[] = "#c\n|p\n./M/\n&a@b\nc@d\n";
  for (int b = 0; b < nbase[LOCAL]; b++) for (size_t k = 0; k <= base[LOCAL][b].n; k++) { M(base[LOCAL][b].p, k); EL(); }
  for (size_t k = 0; k < base[LOCAL][0].n; k++) { M(base[LOCAL][0].p, base[LOCAL][0].n); B.p[k] = 0; EL(); }
  for (int k = 0; k < 9; k++) {
    S(kind[k]); R('x', 100000); S("\n"); EL();
    S("#first\n"); S(kind[k]); R('x', 100000); S("/"); EL();
    for (int v = 0; v < 2; v++) { /* real delivery forks once per mbox line: fewer lines there */
      for (int i = 0; i < (v ? 60 : level < 2 ? 5000 : 50000); i++) { S(kind[k]); S("l@x.example\n"); }
      emit(LOCAL, v, B.p, B.n); hbuf_reset(&B);
    }
    for (int i = 0; i < (level < 2 ? 5000 : 50000); i++) { S(kind[k]); S("l@x.example\n"); }
    if (k >= 4 && k != 7) emit(LOCAL, 1, B.p, B.n); /* forward / ignored lines: one big recipient table */
    hbuf_reset(&B);
    S("#\n"); S(kind[k]); S("\n"); EL(); S(kind[k]); EL(); S("#\n"); S(kind[k]); S(" \t \n"); S(kind[k]); R(' ', 10000); EL();
  }
  for (size_t k = 0; k < sizeof sh; k++) {
    M(sh, k); M("\0", 1); M(sh + k, sizeof sh - 1 - k); EL();       /* NUL inserted */
    if (k < sizeof sh - 1) { M(sh, sizeof sh - 1); B.p[k] = 0; EL(); } /* NUL overwriting */
  }
  static const struct { const char *p; size_t n; } od[] = {AD(""), AD("\n"), AD(" \n"), AD("   \n&a@b\n"), AD("#\n   \n\t\n&a@b\n"), AD("&"), AD("&\n"), AD("&\n&\n"),
    AD("& a@b\n"), AD("#\n\n\n\n"), AD("a@b\n\n\n"), AD("+list\n&a@b\n./M/\n"), AD("+list"), AD("+\n"), AD("#\n/\n"), AD("#\n.\n"), AD("#\n|\n"), AD("./\n"),
    AD("|exit 99\n&never@x\n"), AD("a@b\r\n&c@d\r\n"), AD("\xff\xfe\n"), AD("#\n\xff@\xff\n"), AD("&a@b \t \n/x/ \t\n|p \n./m  \n"),
    AD("|exit 0\n./Maildir/\n./mbox\n&a@b\n c@d\n\te@f \n"), AD("|exit 100\n&a@b\n"), AD("|exit 111\n"), AD("|exit 64\n"), AD("|kill -9 $$\n"), AD("./Maildir/\n./Maildir/\n&a@b\n&c@d\n&e@f\n")};
  for (unsigned i = 0; i < sizeof od / sizeof od[0]; i++) { M(od[i].p, od[i].n); EL(); }
  S("&u"); R('@', 2000); S("x\n"); EL();
  S("u"); R('@', 2000); EL();
  RS("\n", 5000); EL(); S("#\n"); RS("\n", 5000); S("&a@b"); EL(); S("#\n"); RS(" \n", 5000); EL();
  gen_local_grammar();
}

/* ---------- base inputs (also the seeds of the random mutations) ---------- */
static void nsbase(int q, int idx, const void *msg, size_t mn, const char *snd, const char *r1, const char *r2, const char *r3)
{
  hbuf x = {0}, w = {0};
  nsadd(q ? &w : &x, msg, mn); nsadd(q ? &w : &x, snd, strlen(snd));
  nsadd(&w, r1, strlen(r1)); if (r2) nsadd(&w, r2, strlen(r2)); if (r3) nsadd(&w, r3, strlen(r3));
  nsadd(&x, w.p, w.n);
  hbuf_add(&base[q ? QMQPD : QMTPD][idx], x.p, x.n);
  free(x.p); free(w.p);
}
static void make_bases(void)
{
  addbases(SMTPD, "HELO client.example\r\nMAIL FROM:<alice@client.example>\r\nRCPT TO:<bob@me.example>\r\n"
    "RCPT TO:<carol@host.sub.example>\r\nDATA\r\nReceived: from x by y; Thu, 1 Jan 1970 00:00:00 -0000\r\nSubject: hi\r\n\r\n"
    "line one\r\n..dot stuffed\r\n.\r\nQUIT\r\n");
  addbases(SMTPD, "EHLO [1.2.3.4]\r\nMAIL FROM:<@a.example,@b.example:\"quoted\\ local\"@client.example> SIZE=1000 BODY=8BITMIME\r\n"
    "RCPT TO:<@me.example:dave@[127.0.0.1]>\r\nRCPT TO:<postmaster>\r\nRCPT TO:<eve@elsewhere.example>\r\nRSET\r\nNOOP\r\nHELP\r\n"
    "VRFY bob\r\nMAIL FROM:<>\r\nRCPT TO: bob@me.example\r\nDATA\r\n\r\n.\r\nQUIT\r\n");
  addbases(SMTPD, "mail from:<x@y>\r\nrcpt to:<\"a b\"@me.example>\r\ndata\r\nReceived: a\r\nReceived: b\r\nDelivered-To: z\r\n\r\n"
    "REJECTME this line makes the message longer than fifty bytes\r\n.\r\nDATA\r\nRCPT TO:<b@me.example>\r\nBOGUS\r\nQUIT\r\n");
  static const char m1[] = "\nSubject: x\n\nbody\n", m2[] = "\rSubject: x\r\n\r\nbo\rdy that is longer than fifty bytes REJECTME\r\n\r";
  for (int q = 0; q < 2; q++) { /* second base: CR-terminated lines, empty sender; for qmtpd a second request follows */
    nsbase(q, 0, m1, sizeof m1 - 1, "alice@client.example", "bob@me.example", "carol@host.sub.example", "eve@elsewhere.example");
    nsbase(q, 1, m2, sizeof m2 - 1, "", "bob@me.example", 0, 0);
    if (!q) nsbase(q, 1, "\nabc\n", 5, "a", "b", 0, 0);
    nbase[q ? QMQPD : QMTPD] = 2;
  }
  addbases(POP3D, "STAT\r\nLIST\r\nLIST 1\r\nUIDL\r\nUIDL 2\r\nRETR 1\r\nTOP 2 1\r\nDELE 1\r\nRSET\r\nNOOP\r\nLAST\r\nQUIT\r\n");
  addbases(POP3D, "DELE 1\r\nDELE 3\r\nLIST\r\nUIDL 1\r\nRETR 1\r\nDELE 1\r\nRETR 3\r\nTOP 3 5\r\nLAST\r\nBOGUS\r\nRETR 2\r\nQUIT\r\n");
  addbases(POPUP, "USER u\r\nPASS p\r\n");
  addbases(POPUP, "APOP u 0123456789abcdef0123456789abcdef\r\n");
  addbases(POPUP, "PASS x\r\nUSER\r\nAPOP u\r\nBOGUS\r\nUSER a\r\nUSER b\r\nQUIT\r\n");
  addbases(INJECT, "From: \"A. Sender\" <as@from.example> (comment (nested))\nTo: plain, user@host, \"quoted local\"@dom.example,\n"
    "  Full Name <fn@x.example>, <@r1,@r2:routed@z.example>, grp: a@b, c+d;, lit@[1.2.3.4]\nCc: list@lists.example, .dots..@x+.y\n"
    "Return-Path: <rp-@[]>\nMail-Followup-To: mft@x\nDate: today\nMessage-ID: <1@2>\nSubject: base one\n\nbody line\n.\n");
  addbases(INJECT, "Resent-From: rf\nResent-To: rt1, rt2@h (c), \"q\\\"q\" <rt3@h>\nResent-Cc: g:;\nTo: ignored@orig.example\n"
    "Sender: s@+\nReply-To: r@h.+\nBcc: hidden@b.example\nErrors-To: e\nNotice-Requested-Upon-Delivery-To: n@n\n\nb\n");
  addbases(INJECT, "to:a\ncc:b@c\n\tfolded@d\nreceived: x\ncontent-length: 5\napparently-to: ap\nreturn-receipt-to: rr\n\nbody");
  addbases(LOCAL, "# comment\n|echo prog\n/home/u/Mailbox\n./Maildir/\n&fwd@x.example\nbare@y.example\n+list\n  \n&last@z.example \t\n");
  addbases(LOCAL, "&a@b\n\n# c\n.rel/mbox\n|p");
}

/* ---------- random mutations ---------- */
static void gen_random(unsigned long count)
{
  static hbuf a, t;
  static const int weight[NPROG] = {5, 3, 2, 3, 2, 5, 2};
  for (unsigned long c = 0; c < count; c++) {
    int prog = 0, w = (int)h_below(22);
    while (w >= weight[prog]) w -= weight[prog++];
    int var = (int)h_below((uint32_t)pnvar[prog]);
    hbuf *b = &base[prog][h_below((uint32_t)nbase[prog])];
    hbuf_reset(&a); hbuf_add(&a, b->p, b->n);
    for (int m = 1 + (int)h_below(6); m > 0; m--) { mutate1(a.p, a.n, &t); hbuf tmp = a; a = t; t = tmp; }
    run_case(prog, var, a.p, a.n);
  }
}

static int progof(const char *s) { for (int i = 0; i < NPROG; i++) if (!strcmp(s, pname[i])) return i; return -1; }
static int hv(int c) { return c >= '0' && c <= '9' ? c - '0' : c >= 'a' && c <= 'f' ? c - 'a' + 10 : c >= 'A' && c <= 'F' ? c - 'A' + 10 : -1; }

int main(int argc, char **argv)
{
  char tag[64];
  if (argc < 5) { fprintf(stderr, "usage: c20_prog bindir qhome workdir (level nrandom seed shard nshards | -)\n"); return 2; }
  bindir = argv[1]; qhome = argv[2]; workdir = argv[3];
  signal(SIGPIPE, SIG_IGN);
  umask(022);
  h_init_out();
  int explicit = !strcmp(argv[4], "-");
  unsigned long nrandom = 0, seed = 0;
  if (!explicit) {
    level = atoi(argv[4]); nrandom = (unsigned long)h_argi(argc, argv, 5, 0); seed = (unsigned long)h_argi(argc, argv, 6, 1);
    shard = h_argi(argc, argv, 7, 0); nshards = h_argi(argc, argv, 8, 1);
    if (nshards < 1 || shard < 0 || shard >= nshards) { fprintf(stderr, "c20_prog: bad shard\n"); return 2; }
    snprintf(tag, sizeof tag, "s%d", shard);
  } else snprintf(tag, sizeof tag, "sX%ld", (long)getpid());
  setup(tag);
  make_tables();
  make_bases();
  if (explicit) {
    char *line = 0; size_t cap = 0; ssize_t n;
    hbuf in = {0};
    while ((n = getline(&line, &cap, stdin)) > 0) {
      char pn[16]; int var, used = 0;
      if (line[0] != 'P' || line[1] != ' ' || sscanf(line, "P %15s %d %n", pn, &var, &used) < 2 || !used) continue;
      int prog = progof(pn);
      if (prog < 0 || var < 0 || var >= pnvar[prog]) continue;
      hbuf_reset(&in);
      for (const char *s = line + used; hv(s[0]) >= 0 && hv(s[1]) >= 0; s += 2) { unsigned char c = (unsigned char)(hv(s[0]) * 16 + hv(s[1])); hbuf_add(&in, &c, 1); }
      run_case(prog, var, in.p, in.n);
    }
    free(line); free(in.p);
    /* remove the private directory again (sdir = <workdir>/sX<pid>, made by setup()) */
    char t[4300];
    snprintf(t, sizeof t, "rm -rf '%s'", sdir);
    if (strstr(sdir, "/sX") && system(t)) {}
  } else {
    gen_smtpd(); gen_ns(0); gen_ns(1); gen_pop3d(); gen_popup(); gen_inject(); gen_local();
    h_seed((uint64_t)seed * 1000003ull + (uint64_t)shard);
    gen_random(nrandom / (unsigned long)nshards + ((unsigned long)shard < nrandom % (unsigned long)nshards));
  }
  fflush(h_out);
  return 0;
}
