/* C20 harness: the real parsers of notqmail driven in-process, under ASan+UBSan, on hostile / extreme inputs.
 *
 * usage: h_c20_parse <workdir> <level> <nrandom> <seed> <shard> <nshards>
 *        h_c20_parse <workdir> -     (cases from stdin: "T <kind> <in-hex> [<in2-hex> | <chunk> <bufsz> <sep>]")
 *
 * output (every line ends with inv=<0|1>; the fields after the kind up to the first result field are the inputs,
 * so an output line fed back on stdin replays its case):
 *   T tok  <in> <rc> <ntok> <buflen> <naddr> <unparse-len> p=<ta.a>,<buf.a>,<nstored> u=<a,len x4> q=<a,len x2>   token822.c
 *          p: sizes of the two fresh blocks (= pass 1's numtoks / numchars) and the number of token records pass 2
 *          really wrote (valid type; ASan fills a fresh block with 0xbe); u: stralloc a (= the length the first walk of
 *          token822_unparse computed) and final len for linelen 0, 72, 1 and for the reversed array with 72;
 *          q: the same for token822_unquote on the array and on the reversed array.  "-" when rc != 1.
 *   T utok <spec> <linelen> <ua> <ulen> <qa> <qlen>       token822_unparse/unquote on a hand-made token array:
 *          spec = sequence of (type byte, length byte, bytes); types 0..255 (also outside TOKEN822_*)
 *   T cdb  <file> <key> <r> <dlen> <data>                                         cdb_seek.c
 *   T ctl  <file> <rlrc> <line> <rirc> <int> <rfrc> <nlines> <rflen> <cmrc> <cmhits>   control.c constmap.c getln
 *   T ip   <str> <r1> <ip1> <r2> <ip2>                                            ip.c
 *   T hdr  <in> <rc> <nfields> <nbody> <maxfieldlen>                              headerbody.c hfield.c
 *   T gl   <stream> <chunk> <bufsz> <sep> <nlines> <total> <lastmatch>            getln.c getln2.c substdi.c
 *   T gl2  <stream> <chunk> <bufsz> <sep> <calls>      getln2.c called directly until end of stream; <calls> = ';'-separated
 *          <ret>,<cont - ss.x>,<clen>,<sa.len>,<sa.a>,<ss.p>,<ss.n> per call ("-" for cont when clen = 0)
 *   T scan <str> <r> <val>                                                        scan_ulong scan_8long fmt_ulong
 *   X <kind> <inputs as in the T line> <sanitizer|timeout>      printed by the sanitizer death callback / SIGALRM;
 *        kind "init" (input "-") = crash in control_init at start-up, "gen" = crash outside any case
 * tok: rc 1 ok, 0 syntax error, -1 out of memory. token822_parse never sets buf.len, so <buflen> is the number of
 *   buffer bytes the tokens use; with a fresh buffer it must equal buf.a (= pass 1's count). addrlist is called as
 *   doheaderfield() calls it (list not reversed; the callback gets each address reversed and un-reverses it).
 * cdb: r = 1/0/-1 from cdb_seek; -2 = data shorter than dlen; -3 = dlen > 1 MiB (not read).
 * ctl: cmhits = successful constmap() calls over both flagcolon passes. hdr: the case runs with read chunks of
 *   1, 7 and 8192 bytes; the figures are those of the first run and inv=0 if the other two differ.
 *
 * Every input handed to the code under test lives in a malloc block of exactly its size; the stralloc /
 * token822_alloc objects the code writes into are fresh per case, so their first allocation is exact too. */
#define _GNU_SOURCE
#include "hcommon.h"
#include <fcntl.h>
#include <signal.h>
#include <errno.h>
#include <dlfcn.h>
#include <link.h>
#include <sys/stat.h>
#include "ip.c"        /* ip.o is not on qmail-inject's link line */
#include "hfield.c"    /* for the static hname[] table; hfield.o is left out of the link */
#include "token822.h"
#include "stralloc.h"
#include "substdio.h"
#include "getln.h"
#include "cdb.h"
#include "control.h"
#include "constmap.h"
#include "headerbody.h"

/* ---------- current case, crash channel, sharding ---------- */
static struct { const char *kind; const unsigned char *a, *b; size_t an, bn; int nb, nx; long x[3]; } cur;
static void cur_set(const char *k, const void *a, size_t an) { cur.kind = k; cur.a = a; cur.an = an; cur.nb = 0; cur.nx = 0; }
static void cur_print(void) {
  fprintf(h_out, "%s ", cur.kind); h_hex(cur.a, cur.an);
  if (cur.nb) { fputc(' ', h_out); h_hex(cur.b, cur.bn); }
  for (int i = 0; i < cur.nx; i++) fprintf(h_out, " %ld", cur.x[i]);
}
static char g_dir[4096];   /* workdir/p<pid>, our cwd */
static void cleanup(void) {
  unlink("cdb"); unlink("control/x"); unlink("control/me"); rmdir("control");
  if (g_dir[0] && chdir("..") == 0) rmdir(strrchr(g_dir, '/') + 1);
  g_dir[0] = 0;
}
/* kind "init" = crash while reading control/me at start-up, "gen" = crash outside any case (in the generators) */
static void death(const char *why) {
  if (!h_out) return;
  if (cur.kind) { fputs("X ", h_out); cur_print(); fprintf(h_out, " %s\n", why); }
  else fprintf(h_out, "X gen - %s\n", why);
  fflush(h_out);
  cleanup();
}
static void death_cb(void) { death("sanitizer"); }
static void on_alarm(int s) { death("timeout"); _exit(3); }
void __sanitizer_set_death_callback(void (*)(void));
/* gcc links libasan and libubsan as two shared objects, each with its own callback slot: set every one */
static int each_lib(struct dl_phdr_info *i, size_t sz, void *d) {
  if (!i->dlpi_name || !strstr(i->dlpi_name, "san")) return 0;
  void *h = dlopen(i->dlpi_name, RTLD_NOLOAD | RTLD_LAZY);
  if (!h) return 0;
  void (*f)(void (*)(void)) = (void (*)(void (*)(void)))dlsym(h, "__sanitizer_set_death_callback");
  if (f) f(death_cb);
  return 0;
}

static uint64_t g_id; static int g_shard, g_nshards = 1, g_level = 1;
static int take(void) { uint64_t i = g_id++; if (!(i & 1023)) alarm(300); return (int)(i % g_nshards) == g_shard; }

/* a copy of p[0..n) (+ NUL) in a block of exactly that size; an empty block points at the end of an 8-byte
 * block so that even an access at offset 0 lands in the redzone */
static unsigned char *xdup(const void *p, size_t n, int nul) {
  size_t m = n + (nul ? 1 : 0);
  unsigned char *b = m ? malloc(m) : (unsigned char *)malloc(8) + 8;
  if (n) memcpy(b, p, n);
  if (nul) b[n] = 0;
  return b;
}
static void xfree(void *b, size_t m) { if (m) free(b); else free((unsigned char *)b - 8); }
static int within(const void *p, size_t l, const void *base, size_t cap) {
  uintptr_t a = (uintptr_t)p, b = (uintptr_t)base;
  return a >= b && a + l <= b + cap;
}
static void fresh_sa(stralloc *s) { free(s->s); s->s = 0; s->len = s->a = 0; }
static void fresh_ta(token822_alloc *t) { free(t->t); t->t = 0; t->len = t->a = 0; }
static void endline(int inv) { fprintf(h_out, " inv=%d\n", inv); cur.kind = 0; }

static hbuf g;   /* scratch for the generators */
static void G(const char *s) { hbuf_add(&g, s, strlen(s)); }
static void Gb(const void *s, size_t n) { hbuf_add(&g, s, n); }
static void Gr(const char *s, size_t c) { size_t l = strlen(s); while (c--) hbuf_add(&g, s, l); }
static void Gc(int c, size_t n) { unsigned char ch = c; while (n--) hbuf_add(&g, &ch, 1); }

/* ---------- 1. token822 ---------- */
static token822_alloc t_a, t_r, t_addr; static stralloc t_in, t_buf, t_out, t_uq;
static int t_inv, t_naddr; static long t_uplen;

static void tok_toks(token822_alloc *x) {
  if (x->len > x->a) t_inv = 0;
  for (unsigned i = 0; i < x->len; i++) {
    struct token822 *t = x->t + i;
    if (t->type < 1 || t->type > 11) { t_inv = 0; continue; }
    if (t->type > 4) continue;
    if (t->slen < 0) { t_inv = 0; continue; }
    if (!within(t->s, t->slen, t_buf.s, t_buf.a) && !within(t->s, t->slen, t_in.s, t_in.len)) t_inv = 0;
  }
}
static long tok_unparse(token822_alloc *x, unsigned linelen) {
  fresh_sa(&t_out);
  if (token822_unparse(&t_out, x, linelen) != 1) { t_inv = 0; return 0; }
  if (t_out.len > t_out.a) t_inv = 0;
  return t_out.len;
}
static void tok_unquote(token822_alloc *x) {
  fresh_sa(&t_uq);
  if (token822_unquote(&t_uq, x) != 1 || t_uq.len > t_uq.a) t_inv = 0;
}
/* what qmail-inject's rw callbacks do with an address: it arrives reversed */
static int tok_cb(token822_alloc *a) {
  ++t_naddr;
  tok_toks(a);
  token822_reverse(a);
  t_uplen += tok_unparse(a, (t_naddr & 1) ? 72 : 0);
  tok_unquote(a);
  token822_reverse(a);
  return 1;
}
static void case_tok(const unsigned char *in, size_t n) {
  unsigned char *x = xdup(in, n, 0);
  cur_set("tok", x, n);
  t_in.s = (char *)x; t_in.len = n; t_in.a = n;
  fresh_ta(&t_a); fresh_ta(&t_r); fresh_ta(&t_addr); fresh_sa(&t_buf);
  t_inv = 1; t_naddr = 0; t_uplen = 0;
  int rc = token822_parse(&t_a, &t_in, &t_buf);
  unsigned ntok = 0; unsigned long used = 0;
  char ext[400]; strcpy(ext, "p=- u=- q=-");
  if (rc == 1) {
    ntok = t_a.len;
    tok_toks(&t_a);
    unsigned nstored = 0;
    for (unsigned i = 0; i < t_a.len; i++) if (t_a.t[i].type >= 1 && t_a.t[i].type <= 11) nstored++;
    for (unsigned i = 0; i < t_a.len; i++) if (t_a.t[i].type >= 1 && t_a.t[i].type <= 4) used += t_a.t[i].slen;
    /* the blocks are fresh, so their sizes are pass 1's counts: pass 2 must have used exactly that much */
    if (used != t_buf.a || t_a.len != t_a.a || t_buf.len > t_buf.a) t_inv = 0;
    unsigned ua[4], ul[4], qa[2], ql[2];
    ul[0] = tok_unparse(&t_a, 0); ua[0] = t_out.a; ul[1] = tok_unparse(&t_a, 72); ua[1] = t_out.a;
    ul[2] = tok_unparse(&t_a, 1); ua[2] = t_out.a; tok_unquote(&t_a); qa[0] = t_uq.a; ql[0] = t_uq.len;
    token822_reverse(&t_a); ul[3] = tok_unparse(&t_a, 72); ua[3] = t_out.a; tok_unquote(&t_a); qa[1] = t_uq.a; ql[1] = t_uq.len;
    token822_reverse(&t_a);   /* dorecip()'s order */
    snprintf(ext, sizeof ext, "p=%u,%u,%u u=%u,%u,%u,%u,%u,%u,%u,%u q=%u,%u,%u,%u", t_a.a, t_buf.a, nstored,
             ua[0], ul[0], ua[1], ul[1], ua[2], ul[2], ua[3], ul[3], qa[0], ql[0], qa[1], ql[1]);
    int arc = token822_addrlist(&t_r, &t_addr, &t_a, tok_cb);                             /* doheaderfield()'s call */
    if (arc == 1) { tok_toks(&t_r); tok_unparse(&t_r, 80); tok_unparse(&t_r, 0); tok_unparse(&t_r, 1); tok_unquote(&t_r); }
    else if (arc != 0) t_inv = 0;
  } else if (rc != 0) t_inv = 0;
  fputs("T ", h_out); cur_print();
  fprintf(h_out, " %d %u %lu %d %ld %s", rc, ntok, used, t_naddr, t_uplen, ext);
  endline(t_inv);
  xfree(x, n);
}

/* token822_unparse / token822_unquote on a hand-made array: every token's bytes in a block of exactly its size */
static void case_utok(const unsigned char *spec, size_t n, unsigned linelen) {
  unsigned char *x = xdup(spec, n, 0);
  cur_set("utok", x, n); cur.nx = 1; cur.x[0] = linelen;
  unsigned cnt = 0;
  for (size_t p = 0; p + 2 <= n; p += 2 + x[p + 1]) { if (p + 2 + x[p + 1] > n) break; cnt++; }
  struct token822 *arr = cnt ? malloc(cnt * sizeof *arr) : (struct token822 *)((char *)malloc(8) + 8);
  unsigned k = 0;
  for (size_t p = 0; p + 2 <= n && k < cnt; p += 2 + x[p + 1]) {
    arr[k].type = x[p]; arr[k].slen = x[p + 1]; arr[k].s = (char *)xdup(x + p + 2, x[p + 1], 0); k++;
  }
  token822_alloc ta; ta.t = arr; ta.len = cnt; ta.a = cnt;
  t_inv = 1;
  long ul = tok_unparse(&ta, linelen); unsigned ua = t_out.a;
  tok_unquote(&ta);
  if (ul < 1 || ul >= (long)ua) t_inv = 0;
  fputs("T ", h_out); cur_print();
  fprintf(h_out, " %u %ld %u %u", ua, ul, t_uq.a, t_uq.len);
  endline(t_inv);
  for (k = 0; k < cnt; k++) xfree(arr[k].s, arr[k].slen);
  if (cnt) free(arr); else free((char *)arr - 8);
  xfree(x, n);
}

/* ---------- 2. cdb ---------- */
static int cdb_fd = -1;
static void case_cdb(const unsigned char *f, size_t fn, const unsigned char *k, size_t kn) {
  unsigned char *xf = xdup(f, fn, 0), *xk = xdup(k, kn, 0), *d = 0;
  cur_set("cdb", xf, fn); cur.b = xk; cur.bn = kn; cur.nb = 1;
  if (fn && pwrite(cdb_fd, xf, fn, 0) != (ssize_t)fn) abort();
  if (ftruncate(cdb_fd, fn) == -1) abort();
  uint32 dlen = 0; size_t dn = 0;
  int r = cdb_seek(cdb_fd, (char *)xk, (unsigned int)kn, &dlen);
  if (r == 1) {
    if (dlen > (1u << 20)) r = -3;
    else { d = dlen ? malloc(dlen) : (unsigned char *)malloc(8) + 8;
           if (cdb_bread(cdb_fd, (char *)d, (int)dlen) == -1) r = -2; else dn = dlen; }
  } else dlen = 0;
  fputs("T ", h_out); cur_print();
  fprintf(h_out, " %d %lu ", r, (unsigned long)dlen); h_hex(d, dn);
  endline(r >= -3 && r <= 1);
  if (d) xfree(d, dlen);
  xfree(xf, fn); xfree(xk, kn);
}
static void set32(unsigned char *p, uint32_t v) { p[0] = v; p[1] = v >> 8; p[2] = v >> 16; p[3] = v >> 24; }
static uint32_t get32(const unsigned char *p) { return p[0] | p[1] << 8 | p[2] << 16 | (uint32_t)p[3] << 24; }
static uint32_t khash(const char *k) { return cdb_hash((unsigned char *)k, (unsigned int)strlen(k)); }
/* keys (1..3 letters) whose header slot is below H, so that a "compact" cdb whose header has only H slots
 * is a well-formed file for every lookup we make: cdb_seek never looks at the other 256-H header slots */
static char ck[96][4]; static int ckn;
static void cdb_keys(int H) {
  char k[4]; ckn = 0;
  for (int len = 1; len <= 3; len++) {
    int tot = 1; for (int i = 0; i < len; i++) tot *= 26;
    for (int v = 0; v < tot && ckn < 96; v++) {
      int w = v; for (int i = 0; i < len; i++) { k[i] = 'a' + w % 26; w /= 26; } k[len] = 0;
      if ((int)(khash(k) & 255) < H) strcpy(ck[ckn++], k);
    }
  }
}
/* header of H (pos,len) pairs; records klen,dlen,key,data; per header slot a table of 2*count (hash,pos) slots */
static void cdb_build(hbuf *o, int H, char (*keys)[4], int n, uint32_t *rec, uint32_t *slot) {
  static const unsigned char z[8]; unsigned char w[8];
  hbuf_reset(o);
  for (int t = 0; t < H; t++) hbuf_add(o, z, 8);
  for (int i = 0; i < n; i++) {
    unsigned dl = (unsigned)(i % 6); char data[8]; memset(data, 'A' + i, sizeof data);
    rec[i] = o->n; set32(w, strlen(keys[i])); set32(w + 4, dl); hbuf_add(o, w, 8);
    hbuf_add(o, keys[i], strlen(keys[i])); hbuf_add(o, data, dl);
  }
  for (int t = 0; t < H; t++) {
    uint32_t cnt = 0, pos = o->n;
    for (int i = 0; i < n; i++) if ((int)(khash(keys[i]) & 255) == t) cnt++;
    for (uint32_t s = 0; s < 2 * cnt; s++) hbuf_add(o, z, 8);
    set32(o->p + 8 * t, pos); set32(o->p + 8 * t + 4, 2 * cnt);
    for (int i = 0; i < n; i++) if ((int)(khash(keys[i]) & 255) == t) {
      uint32_t h = khash(keys[i]), s = (h >> 8) % (2 * cnt);
      while (get32(o->p + pos + 8 * s + 4)) s = (s + 1) % (2 * cnt);
      set32(o->p + pos + 8 * s, h); set32(o->p + pos + 8 * s + 4, rec[i]); slot[i] = pos + 8 * s;
    }
  }
}
static const unsigned char bvals[5] = { 0, 1, 0x7f, 0x80, 0xff };
static void cdb_lookups(const unsigned char *f, size_t fn, char (*keys)[4], int nk) {   /* the n keys and the absent one after them */
  for (int i = 0; i < nk; i++) if (take()) case_cdb(f, fn, (unsigned char *)keys[i], strlen(keys[i]));
}
/* every truncation and every single-byte corruption of a compact file with n keys */
static void cdb_enum(int H, int n, int off) {
  static hbuf b, m; uint32_t rec[8], slot[8];
  cdb_keys(H);
  char (*keys)[4] = ck + off % (ckn - n - 1);
  cdb_build(&b, H, keys, n, rec, slot);
  for (size_t L = 0; L <= b.n; L++) cdb_lookups(b.p, L, keys, n + 1);
  for (size_t p = 0; p < b.n; p++) for (int v = 0; v < 5; v++) {
    if (b.p[p] == bvals[v]) continue;
    hbuf_reset(&m); hbuf_add(&m, b.p, b.n); m.p[p] = bvals[v];
    cdb_lookups(m.p, m.n, keys, n + 1);
  }
}
static void cdb_mut32(hbuf *b, hbuf *m, size_t at, uint32_t v, size_t at2, uint32_t v2, char (*keys)[4], int nk) {
  hbuf_reset(m); hbuf_add(m, b->p, b->n);
  if (at < m->n && at + 4 <= m->n) set32(m->p + at, v);
  if (at2 < m->n && at2 + 4 <= m->n) set32(m->p + at2, v2);
  cdb_lookups(m->p, m->n, keys, nk);
}
#define NONE ((size_t)-1)
/* hand-made extreme files, in the compact (H=4) and in the standard (H=256) layout */
static void cdb_extremes(int H) {
  static hbuf b, m; uint32_t rec[8], slot[8];
  cdb_keys(H);
  char (*keys)[4] = ck + 3; int n = 2;
  cdb_build(&b, H, keys, n, rec, slot);
  size_t ho = 8 * (khash(keys[0]) & 255); uint32_t P = get32(b.p + ho), fl = b.n;
  static const uint32_t big[] = { 1, 0xffffffffu, 0x20000001u, 0x20000000u, 0x80000000u, 0x7fffffffu };
  for (unsigned i = 0; i < 6; i++) {
    cdb_mut32(&b, &m, ho, 0xfffffff8u, ho + 4, big[i], keys, 2);    /* table "at" 4 GiB - 8: pos + 8*h2 wraps */
    cdb_mut32(&b, &m, ho + 4, big[i], NONE, 0, keys, 2);            /* real table, huge length */
    cdb_mut32(&b, &m, ho, 0, ho + 4, big[i], keys, 2);              /* the table is the file itself */
    cdb_mut32(&b, &m, ho, fl - 8, ho + 4, big[i], keys, 2);         /* table = last 8 bytes */
    cdb_mut32(&b, &m, ho, fl - 7, ho + 4, big[i], keys, 2);         /* table straddles end of file */
  }
  cdb_mut32(&b, &m, ho, 0, ho + 4, H, keys, 3);                     /* self-referential: table = header */
  cdb_mut32(&b, &m, ho, ho, ho + 4, 1, keys, 3);                    /* the only slot is the header entry itself */
  cdb_mut32(&b, &m, ho, P, ho + 4, (fl - P) / 8, keys, 3);          /* table runs to the end of the file */
  static const uint32_t lens[] = { 0xffffffffu, 0x100000u, 0x100001u, 0x7fffffffu, 0x80000000u, 0 };
  for (unsigned i = 0; i < 6; i++) {
    cdb_mut32(&b, &m, rec[0], lens[i], NONE, 0, keys, 2);           /* klen */
    cdb_mut32(&b, &m, rec[0] + 4, lens[i], NONE, 0, keys, 2);       /* dlen */
    cdb_mut32(&b, &m, rec[1] + 4, lens[i], NONE, 0, keys, 2);
  }
  cdb_mut32(&b, &m, rec[1] + 4, get32(b.p + rec[1] + 4) + (fl - rec[1]), NONE, 0, keys, 2);  /* data runs past end of file */
  uint32_t tgt[] = { (uint32_t)ho, slot[0], slot[0] + 4, fl - 1, fl - 7, fl - 8, fl, fl + 1, 0xffffffffu, 0x80000000u, 1, rec[1] };
  for (unsigned i = 0; i < 12; i++) cdb_mut32(&b, &m, slot[0] + 4, tgt[i], NONE, 0, keys, 2);   /* slot points elsewhere */
  /* 64-slot tables without a free slot: (a) no slot has our hash (b) every slot has it but points at another record */
  for (int var = 0; var < 2; var++) {
    hbuf_reset(&m); hbuf_add(&m, b.p, b.n);
    uint32_t h = khash(keys[0]), tp = m.n; unsigned char w[8];
    for (int s = 0; s < 64; s++) { set32(w, var ? h : h ^ (s + 1) << 8); set32(w + 4, var ? rec[1] : rec[0]); hbuf_add(&m, w, 8); }
    set32(m.p + ho, tp); set32(m.p + ho + 4, 64);
    cdb_lookups(m.p, m.n, keys, 2);
  }
}
static void cdb_cases(void) {
  static hbuf b, m; uint32_t rec[8], slot[8];
  if (take()) case_cdb(0, 0, (unsigned char *)"a", 1);
  if (take()) case_cdb(0, 0, (unsigned char *)"", 0);
  cdb_keys(256);
  for (int L = 1; L <= 2047; L++) {           /* files of 0xff */
    if (L > 40 && (L + 1) % 64 > 2 && L != 2047) continue;
    hbuf_reset(&g); Gc(0xff, L);
    if (take()) case_cdb(g.p, g.n, (unsigned char *)"a", 1);
    if (take()) case_cdb(g.p, g.n, (unsigned char *)"", 0);
  }
  for (int n = 1; n <= 6; n++) cdb_enum(4, n, 5 * n);
  if (g_level >= 2) for (int n = 1; n <= 6; n++) { cdb_enum(8, n, 7 * n + 1); cdb_enum(2, n, 3 * n); cdb_enum(1, n > 3 ? 3 : n, n); }
  cdb_extremes(4); cdb_extremes(256);
  /* standard layout, two keys: truncations of everything behind the header, corruptions of every live field */
  cdb_keys(256);
  char (*keys)[4] = ck + 1;
  cdb_build(&b, 256, keys, 2, rec, slot);
  for (size_t L = 2040; L <= b.n; L++) cdb_lookups(b.p, L, keys, 3);
  for (int i = 0; i < 2; i++) {
    size_t at[3] = { 8 * (khash(keys[i]) & 255), rec[i], slot[i] };
    for (int a = 0; a < 3; a++) for (int o = 0; o < 8; o++) for (int v = 0; v < 5; v++) {
      size_t p = at[a] + o;
      if (b.p[p] == bvals[v]) continue;
      hbuf_reset(&m); hbuf_add(&m, b.p, b.n); m.p[p] = bvals[v];
      if (g_level >= 2) cdb_lookups(m.p, m.n, keys, 3);
      else if (take()) case_cdb(m.p, m.n, (unsigned char *)keys[(o + v) % 3 ? i : 2], strlen(keys[(o + v) % 3 ? i : 2]));
    }
  }
}
static void cdb_random(void) {
  static hbuf b; uint32_t rec[8], slot[8];
  int H = h_below(8) ? (int[]){1, 2, 4, 8}[h_below(4)] : 256, n = 1 + h_below(6);
  cdb_keys(H);
  char (*keys)[4] = ck + h_below(ckn - n - 1);
  cdb_build(&b, H, keys, n, rec, slot);
  uint32_t fl = b.n, sp[8] = { 0, 1, fl - 1, fl, fl + 1, 0x7fffffffu, 0x80000000u, 0xffffffffu };
  for (int c = 1 + h_below(8); c > 0; c--) {
    size_t p = h_below(3) ? h_below(fl) : (size_t[]){ 8 * (khash(keys[0]) & 255), rec[0], slot[0] }[h_below(3)] + h_below(8);
    if (p >= fl) continue;
    if (h_below(2) && p + 4 <= fl) set32(b.p + (h_below(2) ? p & ~(size_t)3 : p), h_below(4) ? sp[h_below(8)] : h_below(fl + 16));
    else b.p[p] = h_below(2) ? bvals[h_below(5)] : h_below(256);
  }
  if (!h_below(6)) b.n = h_below(fl + 1);
  const char *k = keys[h_below(3) ? 0 : h_below(n + 1)];
  case_cdb(b.p, b.n, (const unsigned char *)k, strlen(k));
}

/* ---------- 3. control + constmap ---------- */
static void put_file(const char *fn, const unsigned char *p, size_t n) {
  int fd = open(fn, O_WRONLY | O_CREAT | O_TRUNC, 0600);
  if (fd == -1) abort();
  for (size_t o = 0; o < n;) { ssize_t w = write(fd, p + o, n - o); if (w <= 0) abort(); o += w; }
  close(fd);
}
static int cm_inv; static long cm_hits;
static int cm_get(struct constmap *cm, const unsigned char *k, size_t kn, const unsigned char *m, size_t mn) {
  unsigned char *xk = xdup(k, kn, 0);
  char *p = constmap(cm, (char *)xk, (int)kn);
  xfree(xk, kn);
  if (!p) return 0;
  ++cm_hits;
  if (!within(p, 0, m, mn)) cm_inv = 0;     /* flagcolon=0 returns the byte after the entry's NUL: m+mn for the last one */
  return 1;
}
static void case_ctl(const unsigned char *f, size_t n) {
  unsigned char *x = xdup(f, n, 0);
  cur_set("ctl", x, n);
  put_file("control/x", x, n);
  stralloc sa = {0}, sa2 = {0}; int inv = 1, iv = 0, cmrc = 0; unsigned long nlines = 0;
  int rl = control_readline(&sa, "control/x");
  if (sa.len > sa.a) inv = 0;
  if (rl == 1 && sa.len && memchr(" \t\n", sa.s[sa.len - 1], 3)) inv = 0;
  int ri = control_readint(&iv, "control/x");
  if (ri != 1) iv = 0;
  int rf = control_readfile(&sa2, "control/x", 0);
  if (sa2.len > sa2.a || (rf == 1 && sa2.len && sa2.s[sa2.len - 1])) inv = 0;
  cm_inv = 1; cm_hits = 0;
  if (rf == 1) {
    size_t mn = sa2.len; unsigned char *m = xdup(sa2.s, mn, 0);
    static unsigned char big[5000]; memset(big, 'k', sizeof big);
    for (size_t j = 0; j < mn; j++) if (!m[j]) ++nlines;
    for (int flag = 0; flag < 2; flag++) {
      struct constmap cm;
      int r = constmap_init(&cm, (char *)m, (int)mn, flag);
      if (!flag) cmrc = r;
      if (!r) continue;
      for (size_t i = 0, j = 0; j < mn; j++) if (!m[j]) {
        size_t kl = j - i; unsigned char *c = flag ? memchr(m + i, ':', kl) : 0;
        if (flag && c) { if (!cm_get(&cm, m + i, c - (m + i), m, mn)) inv = 0; }   /* "key:value" is found by its key */
        if (!cm_get(&cm, m + i, kl, m, mn) && !flag) inv = 0;                      /* every entry is found by itself */
        if (kl) cm_get(&cm, m + i, kl - 1, m, mn);
        i = j + 1;
      }
      cm_get(&cm, m, 0, m, mn); cm_get(&cm, big, sizeof big, m, mn);
      constmap_free(&cm);
    }
    xfree(m, mn);
  }
  fputs("T ", h_out); cur_print();
  fprintf(h_out, " %d ", rl); h_hex((unsigned char *)sa.s, rl == 1 ? sa.len : 0);
  fprintf(h_out, " %d %d %d %lu %lu %d %ld", ri, iv, rf, nlines, (unsigned long)(rf == 1 ? sa2.len : 0), cmrc, cm_hits);
  endline(inv && cm_inv);
  free(sa.s); free(sa2.s); xfree(x, n);
}
#define CTL() do { if (take()) case_ctl(g.p, g.n); hbuf_reset(&g); } while (0)
static void ctl_cases(void) {
  static const int one[] = { 1, 63, 64, 65, 127, 128, 129, 8191, 8192, 8193, 100000 };
  hbuf_reset(&g);
  for (unsigned i = 0; i < 11; i++) for (int nl = 0; nl < 2; nl++) { Gc('x', one[i]); if (nl) G("\n"); CTL(); }
  Gr("\n", 1); CTL(); Gr("\n", 100); CTL(); Gr("\n", 10000); CTL(); G("\n\nx\n\n"); CTL();
  G(" \t \t\n"); CTL(); Gc(' ', 100); CTL(); G("\t\n \n\t"); CTL(); G(" "); CTL(); G(" \n x \n"); CTL();
  static const char sf[] = "ab\ncd:e\n#f\n g \n:h\n";
  for (size_t p = 0; p < sizeof sf - 1; p++) { G(sf); g.p[p] = 0; CTL(); G(sf); g.p[p] = 0xff; CTL(); }
  Gc(0, 1); CTL(); Gc(0, 200); CTL(); G("a"); Gc(0, 70); G("b\n"); CTL();
  G("#c\nx\n#d\n"); CTL(); G("#"); CTL(); G("#\n"); CTL(); G(" #x\n"); CTL(); Gr("#comment\n", 3000); G("x\n"); CTL();
  G("x"); Gc(' ', 10000); G("\n"); CTL(); G("x"); Gr("\t ", 5000); CTL(); Gc(' ', 10000); G("x\n"); CTL();
  Gc(' ', 10000); CTL(); Gr(" \n", 5000); CTL(); G("x"); Gc('\n', 10000); CTL();
  static const char *ints[] = { "", "0", "4294967295", "4294967296", "2147483647", "2147483648", "18446744073709551615",
    "18446744073709551616", "-1", "12x", " 12", "12 \n", "007\n", "+5", "99999999999999999999999999\n", "1\n2\n" };
  for (unsigned i = 0; i < 16; i++) { G(ints[i]); CTL(); }
  Gc('9', 5000); CTL(); Gc('0', 5000); G("1\n"); CTL();
  static const char *col[] = { ":\n", ":a\n", "a:\n", "a:b\n", "::\n", "a:b:c\n", "a\n:b\n", ":\n:\n:", "a:b\na:c\nA:d\n", "a\na:\nA\n", ":" };
  for (unsigned i = 0; i < 11; i++) { G(col[i]); CTL(); }
  char t[64];
  for (int v = 0; v < 2; v++) { for (int i = 0; i < 20000; i++) { sprintf(t, v ? "k%d:v%d\n" : "k%d\n", i, i); G(t); } CTL(); }
  for (int i = 0; i < 65; i++) { sprintf(t, "k%d\n", i); G(t); } CTL();     /* one more than the initial 64 buckets */
  Gr("same\n", 20000); CTL(); Gr("s:v\n", 5000); CTL(); Gr("a\nA\n", 3000); CTL();
}
static void ctl_random(void) {
  size_t n = h_below(8) ? h_below(300) : h_below(20000);
  int mode = h_below(3);
  hbuf_reset(&g);
  for (size_t i = 0; i < n; i++) Gc(mode == 0 ? (int)h_below(256) : mode == 1 ? "ab:# \t\n\n\0001" [h_below(11)] : (h_below(12) ? "0123456789kK:."[h_below(14)] : '\n'), 1);
  case_ctl(g.p, g.n); hbuf_reset(&g);
}

/* ---------- 4. ip ---------- */
static void case_ip(const unsigned char *s, size_t n) {
  static struct ip_address *i1, *i2; static char *fb;
  if (!i1) { i1 = malloc(sizeof *i1); i2 = malloc(sizeof *i2); fb = malloc(IPFMT); }
  unsigned char *x = xdup(s, n, 1);
  cur_set("ip", x, n);
  memset(i1, 0, 4); memset(i2, 0, 4);
  unsigned r1 = ip_scan((char *)x, i1), r2 = ip_scanbracket((char *)x, i2);
  size_t L = strlen((char *)x);
  int inv = r1 <= L && r2 <= L && (r2 == 0 || r2 >= 9) && (r1 == 0 || r1 >= 7);
  unsigned fl = ip_fmt(fb, i1);
  if (fl != ip_fmt((char *)0, i1) || fl > 15) inv = 0;
  fputs("T ", h_out); cur_print();
  fprintf(h_out, " %u ", r1); h_hex(i1->d, 4); fprintf(h_out, " %u ", r2); h_hex(i2->d, 4);
  endline(inv);
  xfree(x, n + 1);
}

/* ---------- 5. headerbody + hfield ---------- */
static const unsigned char *rd_p; static size_t rd_n, rd_pos, rd_chunk;
static ssize_t rd_op(int fd, char *buf, size_t len) {
  size_t k = rd_n - rd_pos;
  if (k > len) k = len;
  if (rd_chunk && k > rd_chunk) k = rd_chunk;
  if (k) memcpy(buf, rd_p + rd_pos, k);
  rd_pos += k;
  return k;
}
static int hd_nf, hd_nb, hd_done, hd_inv; static unsigned long hd_max, hd_sig;
static void hd_dohf(stralloc *h) {
  ++hd_nf;
  if (h->len > hd_max) hd_max = h->len;
  if (h->len > h->a || !h->len || h->s[h->len - 1] != '\n') hd_inv = 0;
  unsigned char *x = xdup(h->s, h->len, 0);
  int k = hfield_known(x, (int)h->len), v = hfield_valid(x, (int)h->len);
  unsigned s = hfield_skipname(x, (int)h->len);
  if (k < 0 || k >= H_NUM || (v != 0 && v != 1) || s > h->len || hd_done) hd_inv = 0;
  hd_sig = hd_sig * 1000003u + (k * 4 + v * 2) + 8 * s + 977 * h->len;
  xfree(x, h->len);
}
static void hd_hdone(void) { ++hd_done; }
static void hd_dobody(stralloc *h) { ++hd_nb; if (h->len > h->a || !hd_done) hd_inv = 0; hd_sig = hd_sig * 1000003u + 7 + 31 * h->len; }
static void case_hdr(const unsigned char *in, size_t n) {
  static const size_t chunk[3] = { 1, 7, 8192 }, bufsz[3] = { 3, 64, 8192 };
  unsigned char *x = xdup(in, n, 0);
  cur_set("hdr", x, n);
  int inv = 1, rc0 = 0, nf0 = 0, nb0 = 0; unsigned long max0 = 0, sig0 = 0;
  for (int v = 0; v < 3; v++) {
    char *sb = malloc(bufsz[v]); substdio ss;
    rd_p = x; rd_n = n; rd_pos = 0; rd_chunk = chunk[v];
    substdio_fdbuf(&ss, rd_op, -1, sb, (int)bufsz[v]);
    hd_nf = hd_nb = hd_done = 0; hd_inv = 1; hd_max = hd_sig = 0;
    int rc = headerbody(&ss, hd_dohf, hd_hdone, hd_dobody);
    if (!hd_inv || (rc == 0 && hd_done != 1) || rd_pos != n) inv = 0;
    if (v == 0) { rc0 = rc; nf0 = hd_nf; nb0 = hd_nb; max0 = hd_max; sig0 = hd_sig; }
    else if (rc != rc0 || hd_nf != nf0 || hd_nb != nb0 || hd_max != max0 || hd_sig != sig0) inv = 0;   /* chunking must not matter */
    free(sb);
  }
  fputs("T ", h_out); cur_print();
  fprintf(h_out, " %d %d %d %lu", rc0, nf0, nb0, max0);
  endline(inv);
  xfree(x, n);
}
#define HDR() do { if (take()) case_hdr(g.p, g.n); hbuf_reset(&g); } while (0)
static void hdr_cases(void) {
  static const char *fix[] = { "", "\n", "\n\n", "x", ":", ":\n", "a:", "a: b", "a: b\n", "a: b\n\nbody\n", "a: b\n\nbody", "nocolon\n", "nocolon",
    "a: b\nnocolon\nc: d\n", "From x\nTo: y\n\nb\n", "From ", "From", "From x", ">From x\n", "a: b\nFrom x\n", "a: b\n c\n\td\n\n", " leading\n",
    "\tx: y\n", "a: b\n \n\n", "a : b\n", " : b\n", "a\001: b\n", "a\x7f: b\n", "a\x80: b\n", "a: b\r\n\r\nbody\r\n", "a: b\n\n\n\n", "a: b\n " };
  hbuf_reset(&g);
  for (unsigned i = 0; i < sizeof fix / sizeof fix[0]; i++) { G(fix[i]); HDR(); }
  static const int nfl[] = { 1, 1000, 20000 }; char t[64];
  for (int k = 0; k < 3; k++) { for (int i = 0; i < nfl[k]; i++) { sprintf(t, "h%d: v\n", i); G(t); } G("\nbody\n"); HDR(); }
  G("a: "); Gc('x', 100000); G("\n\n"); HDR(); Gc('x', 100000); HDR(); Gc('x', 100000); G(":"); HDR();
  G("a: b\n"); Gr(" c\n", 5000); G("\nbody\n"); HDR(); G("a: b\n"); Gr("\t\n", 5000); HDR();
  G("a: b\n\n"); Gr("l\n", 5000); Gc('y', 8193); HDR(); Gr("\n", 5000); HDR();
  Gb("a\0: b\n", 6); HDR(); Gb("\0", 1); HDR(); Gb("a: \0\n\n\0\n", 8); HDR(); Gb("a: b\n\0: c\n", 10); HDR(); Gb("a: b\n\0", 6); HDR(); Gb("\0\n\0\n", 4); HDR();
  Gc(0, 9000); HDR(); Gc(0xff, 9000); HDR(); G("a:"); Gc(0, 9000); HDR();
  static const char *sp[] = { "", " ", "\t ", " \t" };
  for (int pass = 0; pass < 2; pass++) {       /* pass 0: one message per (header, variant); pass 1: all in one */
    for (int i = 0; hname[i]; i++) for (int v = 0; v < 8; v++) {
      size_t l = strlen(hname[i]), at = g.n;
      G(hname[i]);
      for (size_t j = 0; j < l; j++) if (((i + j + v) & 1) && g.p[at + j] >= 'a') g.p[at + j] -= 32;
      if (v < 4) { G(sp[v]); G(": v\n"); }
      else if (v == 4) G(":");                 /* input ends right behind the colon */
      else if (v == 5) { }                     /* ... right behind the name */
      else if (v == 6) { g.n--; G(":x\n"); }   /* name one letter short */
      else G("x: y\n");
      if (!pass) HDR(); else if (v >= 4 && v < 6) G("\n");
    }
    if (pass) HDR();
  }
}
static const char valid_msg[] = "From: a@b (c)\nTo: \"q\" <x@y>,\n\tz@w\nSubject: s\nReceived: by x;\n 1 Jan\n\nbody line\n.\nFrom me\n";
static void mutate(const char *base, size_t bn, const char *pool, size_t pn, int max) {
  hbuf_reset(&g); Gb(base, bn);
  for (int c = 1 + h_below(max); c > 0; c--) {
    size_t p = h_below(g.n + 1); int ch = h_below(8) ? pool[h_below(pn)] : (int)h_below(256);
    switch (h_below(3)) {
      case 0: if (p < g.n) g.p[p] = ch; break;
      case 1: Gc(0, 1); memmove(g.p + p + 1, g.p + p, g.n - 1 - p); g.p[p] = ch; break;
      default: if (p < g.n) { memmove(g.p + p, g.p + p + 1, g.n - 1 - p); g.n--; }
    }
  }
}

/* ---------- 6. getln ---------- */
static void case_gl(const unsigned char *st, size_t n, int chunk, int bufsz, int sep) {
  unsigned char *x = xdup(st, n, 0);
  cur_set("gl", x, n); cur.nx = 3; cur.x[0] = chunk; cur.x[1] = bufsz; cur.x[2] = sep;
  char *sb = malloc(bufsz); substdio ss; stralloc sa = {0};
  rd_p = x; rd_n = n; rd_pos = 0; rd_chunk = chunk;
  substdio_fdbuf(&ss, rd_op, -1, sb, bufsz);
  int match = 1, inv = 1; unsigned long nlines = 0, total = 0;
  for (size_t it = 0; it <= n + 1; it++) {
    if (getln(&ss, &sa, &match, sep) == -1) { inv = 0; break; }
    if (sa.len > sa.a || total + sa.len > n || (sa.len && memcmp(x + total, sa.s, sa.len))) { inv = 0; break; }
    void *q = sa.len ? memchr(sa.s, sep, sa.len) : 0;
    if (match) { ++nlines; if (!sa.len || q != sa.s + sa.len - 1) inv = 0; } else if (q) inv = 0;
    total += sa.len;
    if (!match) break;
  }
  if (total != n || match) inv = 0;
  fputs("T ", h_out); cur_print();
  fprintf(h_out, " %lu %lu %d", nlines, total, match);
  endline(inv);
  free(sa.s); free(sb); xfree(x, n);
}
/* getln2() itself: where do *cont / *clen point, how does the line buffer grow */
static void case_gl2(const unsigned char *st, size_t n, int chunk, int bufsz, int sep) {
  unsigned char *x = xdup(st, n, 0);
  cur_set("gl2", x, n); cur.nx = 3; cur.x[0] = chunk; cur.x[1] = bufsz; cur.x[2] = sep;
  char *sb = malloc(bufsz); substdio ss; stralloc sa = {0};
  rd_p = x; rd_n = n; rd_pos = 0; rd_chunk = chunk;
  substdio_fdbuf(&ss, rd_op, -1, sb, bufsz);
  int inv = 1; size_t total = 0;
  static hbuf ob; char tmp[160]; hbuf_reset(&ob);      /* printed after the run: a sanitizer abort must find a clean line start */
  for (size_t it = 0; it <= n + 1; it++) {
    char *cont = 0; unsigned int clen = 0;
    int r = getln2(&ss, &sa, &cont, &clen, sep);
    if (it) hbuf_add(&ob, ";", 1);
    if (r == 0 && clen) {
      /* the slice must lie inside the substdio buffer and hold the next bytes of the stream, ending in the separator */
      if (!within(cont, clen, sb, bufsz)) inv = 0;
      else if (total + sa.len + clen > n || memcmp(x + total + sa.len, cont, clen) || (unsigned char)cont[clen - 1] != (unsigned char)sep) inv = 0;
      snprintf(tmp, sizeof tmp, "%d,%ld,%u,%u,%u,%d,%d", r, (long)(cont - sb), clen, sa.len, sa.a, ss.p, ss.n);
    } else snprintf(tmp, sizeof tmp, "%d,-,%u,%u,%u,%d,%d", r, clen, sa.len, sa.a, ss.p, ss.n);
    hbuf_add(&ob, tmp, strlen(tmp));
    if (sa.len > sa.a || (sa.len && memcmp(x + total, sa.s, sa.len))) inv = 0;
    if (r != 0) { inv = 0; break; }
    total += sa.len + clen;
    if (!clen) break;
  }
  if (total != n) inv = 0;
  fputs("T ", h_out); cur_print(); fputc(' ', h_out); fwrite(ob.p, 1, ob.n, h_out);
  endline(inv);
  free(sa.s); free(sb); xfree(x, n);
}
static void gl_enum_cb(const unsigned char *s, size_t n) {
  static const int bs[4] = { 1, 2, 3, 16 };
  for (int c = 0; c < 4; c++) for (int b = 0; b < 4; b++) { case_gl(s, n, c, bs[b], '\n'); if (b == 0 || b == 3) case_gl(s, n, c, bs[b], 0); if (n <= 6 || b == 1) case_gl2(s, n, c, bs[b], '\n'); }
}
static void gl_cases(void) {
  static const int ll[] = { 8191, 8192, 8193, 100000 }, ch[] = { 0, 1, 3, 8192, 8191 }, bs[] = { 8192, 16, 1 };
  /* v=0: exactly ll bytes ending in the separator; v=1: no separator; v=2: two lines, the second unterminated */
  for (int i = 0; i < 4; i++) for (int v = 0; v < 3; v++) for (int c = 0; c < 5; c++) for (int b = 0; b < 3; b++) {
    if (i == 3 && (v == 2 || (c + b) % 3)) continue;
    if (!take()) continue;
    hbuf_reset(&g); Gc('a', ll[i] - (v == 0)); if (v == 0) G("\n"); if (v == 2) { G("\n"); Gc('b', ll[i]); }
    case_gl(g.p, g.n, ch[c], bs[b], '\n');
  }
  /* every line length around the stralloc growth steps (0, 31, 65, ...), fed in small pieces */
  static const int sc[] = { 1, 2, 3, 7 }, sb[] = { 1, 3, 16 };
  for (int l = 0; l <= 140; l++) for (int v = 0; v < 2; v++) for (int c = 0; c < 4; c++) for (int b = 0; b < 3; b++) {
    if (!take()) continue;
    hbuf_reset(&g); Gc('a', l); if (v) { G("\n"); Gc('b', l / 2); }
    case_gl(g.p, g.n, sc[c], sb[b], '\n');
    case_gl2(g.p, g.n, sc[c], sb[b], '\n');
  }
}

/* ---------- 7. scan / fmt ---------- */
static void case_scan(const unsigned char *s, size_t n) {
  static char *fb; if (!fb) fb = malloc(FMT_ULONG);
  unsigned char *x = xdup(s, n, 1);
  cur_set("scan", x, n);
  unsigned long u = 0, u8 = 0, u2 = 0;
  unsigned r = scan_ulong((char *)x, &u), r8 = scan_8long((char *)x, &u8);
  size_t L = strlen((char *)x);
  int inv = r <= L && r8 <= r;
  unsigned l = fmt_ulong(fb, u);
  if (l != fmt_ulong((char *)0, u) || l >= FMT_ULONG) inv = 0;
  else { fb[l] = 0; if (scan_ulong(fb, &u2) != l || u2 != u) inv = 0; }
  if (r && r <= 19 && x[0] != '0' && (l != r || memcmp(fb, x, r))) inv = 0;     /* no overflow below 10^19: exact round trip */
  l = fmt_ulong(fb, u8); if (l >= FMT_ULONG) inv = 0;
  fputs("T ", h_out); cur_print();
  fprintf(h_out, " %u %lu", r, u);
  endline(inv);
  xfree(x, n + 1);
}

/* ---------- generators ---------- */
static void enum_strings(const unsigned char *alpha, int na, int minlen, int maxlen, void (*f)(const unsigned char *, size_t)) {
  unsigned char m[16];
  for (int len = minlen; len <= maxlen; len++) {
    uint64_t total = 1; for (int i = 0; i < len; i++) total *= na;
    for (uint64_t k = 0; k < total; k++) {
      if (!take()) continue;
      uint64_t v = k; for (int i = 0; i < len; i++) { m[i] = alpha[v % na]; v /= na; }
      f(m, len);
    }
  }
}
#define TOK() do { if (take()) case_tok(g.p, g.n); hbuf_reset(&g); } while (0)
static const char talpha[] = "()<>\"\\@,;:a []\n.";     /* the first 12 are the length-5 alphabet */
static void tok_cases(void) {
  static const size_t dep[] = { 1, 10, 100, 1000, 10000, 100000 }, reps[] = { 1, 10, 100, 1000, 10000, 50000 };
  hbuf_reset(&g);
  for (int i = 0; i < 6; i++) {
    size_t d = dep[i];
    Gc('(', d); Gc(')', d); TOK(); Gc('(', d); G("a"); Gc(')', d); TOK(); Gc('(', d); TOK(); Gc(')', d); TOK();
    Gc('(', d); Gc(')', d - 1); TOK(); Gc('(', d); Gc(')', d + 1); TOK(); Gr("()", d); TOK(); G("("); Gr("\\)", d); G(")"); TOK();
    G("T:"); Gc('(', d); G("a@b"); Gc(')', d); G("c@d"); TOK();
    Gc('[', d); Gc(']', d); TOK(); Gc('[', d); G("]"); TOK(); Gc('[', d); TOK(); Gc(']', d); TOK(); Gr("[]", d); TOK();
    G("["); Gr("\\]", d); G("]"); TOK(); G("["); Gr("\\]", d); TOK(); G("a@["); Gr("\\\\", d); G("]"); TOK();
    G("\""); Gr("\\\"", d); G("\""); TOK(); G("\""); Gr("\\\\", d); TOK(); G("\""); Gc('\\', 2 * d + 1); G("\""); TOK();
    Gc('"', d); TOK(); Gc('"', d + 1); TOK(); G("\""); Gr("\\x", d); G("\"@d"); TOK(); Gc('\\', d); TOK(); Gr("\\ ", d); TOK();
  }
  static const char *piece[] = { "a@b,", "<a@b>,", "a,", "g:a@b;,", "\"q\"@d,", "(c)", "@a,@b:", ".", "..", "<", ">", ":", ";", "@", "\\",
                                 "a ", "\"\\\"\"", "[1],", "n<a@b>,", "<>,", ",", "a@b;", "x:;", "<@a:b@c>," };
  for (unsigned p = 0; p < sizeof piece / sizeof piece[0]; p++) for (int i = 0; i < 6; i++) {
    if (reps[i] <= 1000) { Gr(piece[p], reps[i]); TOK(); }
    G("To: "); Gr(piece[p], reps[i]); TOK();
  }
  Gc('a', 100000); TOK(); G("T:"); Gc('a', 100000); G("@"); Gc('b', 100000); TOK(); G("\""); Gc('q', 100000); G("\""); TOK();
  static const char *bs[] = { "\\", "a\\", "\"a\\", "(a\\", "[a\\", "a@b\\", "<a@b>\\", "(\\", "\"\\", "[\\", "((\\", "a \\", "T:a@b,\\", "\"\\\\", "(\\\\", "[\\\\" };
  for (unsigned i = 0; i < sizeof bs / sizeof bs[0]; i++) { G(bs[i]); TOK(); }
  static const unsigned char odd[] = { 0, 0xff, 0x80, 0x7f, 1, '\r', '\t' };
  static const char *ctx[] = { "%c", "a%cb@c", "\"%c\"", "(%c)", "[%c]", "T:a@%c,b", "\\%c", "\"\\%c\"", "%c%c%c", "<%c>" };
  for (unsigned o = 0; o < sizeof odd; o++) for (unsigned c = 0; c < sizeof ctx / sizeof ctx[0]; c++)
    for (const char *q = ctx[c]; ; q++) { if (!*q) { TOK(); break; } if (*q == '%') { Gc(odd[o], 1); q++; } else Gc(*q, 1); }
  for (int b = 0; b < 256; b++) for (unsigned c = 0; c < sizeof ctx / sizeof ctx[0]; c++)      /* every byte value in every context */
    for (const char *q = ctx[c]; ; q++) { if (!*q) { TOK(); break; } if (*q == '%') { Gc(b, 1); q++; } else Gc(*q, 1); }
  enum_strings((const unsigned char *)talpha, 16, 0, g_level >= 2 ? 5 : 4, case_tok);
  enum_strings((const unsigned char *)talpha, 12, g_level >= 2 ? 6 : 5, g_level >= 2 ? 6 : 5, case_tok);
}
#define UTOK(ll) do { if (take()) case_utok(g.p, g.n, ll); } while (0)
static void utok_shape(int k) {     /* 29 token shapes: 4 word types x 4 contents, 9 other types (0, 5..11, 12) , one long atom */
  static const char *cont[4] = { "", "a", "\"", "b\n(" };
  unsigned char h[2];
  if (k < 16) { h[0] = 1 + k / 4; h[1] = strlen(cont[k % 4]); Gb(h, 2); G(cont[k % 4]); }
  else if (k < 28) { static const unsigned char ty[12] = { 0, 5, 6, 7, 8, 9, 10, 11, 12, 8, 8, 255 }; h[0] = ty[k - 16]; h[1] = k == 27 ? 1 : 0; Gb(h, 2); if (k == 27) G("z"); }
  else { h[0] = 1; h[1] = 40; Gb(h, 2); Gc('x', 40); }
}
static void utok_cases(void) {
  static const unsigned lls[] = { 0, 1, 4, 9, 72 };
  int top = g_level >= 2 ? 29 : 21;
  hbuf_reset(&g); UTOK(0); UTOK(72);
  for (int a = 0; a < 29; a++) for (unsigned l = 0; l < 5; l++) { hbuf_reset(&g); utok_shape(a); UTOK(lls[l]); }
  for (int a = 0; a < 29; a++) for (int b = 0; b < 29; b++) for (unsigned l = 0; l < 5; l++) { hbuf_reset(&g); utok_shape(a); utok_shape(b); UTOK(lls[l]); }
  for (int a = 0; a < top; a++) for (int b = 0; b < top; b++) for (int c = 0; c < top; c++) for (unsigned l = 0; l < 3; l++) {
    hbuf_reset(&g); utok_shape(a); utok_shape(b); utok_shape(c); UTOK(lls[l * 2]);
  }
  /* long lists: every fold decision of NSUW for line lengths around the item width */
  for (int n = 1; n <= 40; n++) for (unsigned ll = 0; ll <= 14; ll++) for (int v = 0; v < 3; v++) {
    hbuf_reset(&g);
    for (int i = 0; i < n; i++) { utok_shape(v == 0 ? 1 : v == 1 ? (i % 3 ? 1 : 28) : 6 + (i * 7) % 22); utok_shape(20); }
    UTOK(ll);
  }
  hbuf_reset(&g);
}
static void utok_random(void) {
  int n = h_below(4) ? (int)h_below(12) : (int)h_below(300);
  hbuf_reset(&g);
  for (int i = 0; i < n; i++) {
    if (h_below(3)) utok_shape((int)h_below(29));
    else { unsigned char h[2]; h[0] = h_below(10) ? 1 + h_below(12) : h_below(256); h[1] = h_below(8) ? h_below(6) : h_below(256); Gb(h, 2);
           for (int j = 0; j < h[1]; j++) Gc(h_below(3) ? "\"[]()\\\r\n"[h_below(8)] : (int)h_below(256), 1); }
  }
  case_utok(g.p, g.n, h_below(3) ? (unsigned)h_below(100) : h_below(2) ? 0 : 0xffffffffu);
  hbuf_reset(&g);
}
static void tok_random(void) {
  static const char *addr[] = { "a@b", "<a@b>", "n <a@b>", "g: a@b, c@d;", "\"q\"@d", "(c) a@b", "<@r:a@b>", "a.b@c.d", "\"x y\" <\"q\\\"\"@[1.2.3.4]>",
                                "a", "<>", "g:;", "a@b (c (d))", "n1 n2 <a@b>" };
  if (h_below(2)) {
    size_t n = h_below(2) ? h_below(40) : h_below(3000);
    hbuf_reset(&g);
    for (size_t i = 0; i < n; i++) Gc(h_below(20) ? talpha[h_below(16)] : (int)h_below(256), 1);
  } else {
    char t[1200]; size_t tn = 0; int na = 1 + h_below(8);
    tn += sprintf(t, "To: ");
    for (int i = 0; i < na; i++) tn += sprintf(t + tn, "%s%s", i ? (h_below(4) ? ", " : ",\n ") : "", addr[h_below(14)]);
    mutate(t, tn, talpha, 16, 4);
  }
  case_tok(g.p, g.n); hbuf_reset(&g);
}
static void ip_cases(void) {
  static const char *fix[] = { "255", "256", "999", "4294967295", "4294967296", "99999999999999999999", "1.2.3", "1.2.3.4.5", "[1.2.3.4", "1.2.3.4]",
    "255.255.255.255", "256.256.256.256", "[255.255.255.255]", "4294967296.0.0.1", "1.2.3.99999999999999999999", "[1.2.3.4]]", "[[1.2.3.4]", "[1.2.3.4]x",
    "1.2.3.", "1..2.3", ".1.2.3", "[]", "[", "[1.2.3.4\001", "18446744073709551616.1.1.1", "00000000000000000000000001.2.3.4", "-1.2.3.4", "1.2.3.-4", " 1.2.3.4" };
  hbuf_reset(&g);
  for (unsigned i = 0; i < sizeof fix / sizeof fix[0]; i++) if (take()) case_ip((const unsigned char *)fix[i], strlen(fix[i]));
  for (int v = 0; v < 6; v++) {
    if (v == 1) G("["); if (v == 2) G("1.2.3."); if (v == 3) G("[1.2.3."); if (v == 4) G("1."); if (v == 5) G("[");
    Gc(v == 5 ? '0' : '7', 1000); if (v == 0 || v == 1 || v == 4 || v == 5) G(".1.1.1"); if (v == 1 || v == 3 || v == 5) G("]");
    if (take()) case_ip(g.p, g.n); hbuf_reset(&g);
  }
  enum_strings((const unsigned char *)"019.[]x", 7, 0, g_level >= 2 ? 8 : 7, case_ip);
}
static void scan_cases(void) {
  static const char *fix[] = { "", "x", "-1", "+1", " 1", "4294967295", "4294967296", "4294967297", "9223372036854775807", "9223372036854775808",
    "18446744073709551615", "18446744073709551616", "18446744073709551617", "99999999999999999999", "100000000000000000000", "0000000000000000000000000000000000000000017",
    "37777777777", "40000000000", "777777777777777777777", "1000000000000000000000", "1777777777777777777777", "2000000000000000000000", "12x", "0x10", "1\0002", "\xff", "/", ":" };
  for (unsigned i = 0; i < sizeof fix / sizeof fix[0]; i++) if (take()) case_scan((const unsigned char *)fix[i], strlen(fix[i]));
  hbuf_reset(&g);
  for (int v = 0; v < 4; v++) { Gc("9710"[v], 1000); if (v == 3) G("9"); if (take()) case_scan(g.p, g.n); hbuf_reset(&g); }
  enum_strings((const unsigned char *)"01789x", 6, 1, g_level >= 2 ? 6 : 5, case_scan);
}
static void random_case(int r) {
  switch (r % 7) {
    case 0: if (h_below(3)) tok_random(); else utok_random(); break;
    case 1: cdb_random(); break;
    case 2: ctl_random(); break;
    case 3: { size_t n = h_below(4) ? h_below(24) : h_below(60); hbuf_reset(&g);
              for (size_t i = 0; i < n; i++) Gc(h_below(30) ? "0123456789...[]25"[h_below(17)] : (int)(1 + h_below(255)), 1);
              case_ip(g.p, g.n); break; }
    case 4: if (h_below(3)) mutate(valid_msg, sizeof valid_msg - 1, "\n\n :\t\0aF", 9, 6);
            else { size_t n = h_below(400); hbuf_reset(&g); for (size_t i = 0; i < n; i++) Gc("ab: \t\n\n\n\0From "[h_below(15)], 1); }
            case_hdr(g.p, g.n); break;
    case 5: { size_t n = h_below(16) ? h_below(300) : h_below(20000); int dense = h_below(3); hbuf_reset(&g);
              for (size_t i = 0; i < n; i++) Gc(h_below(dense ? 6 : 400) ? (h_below(9) ? 'a' : 0) : '\n', 1);
              int ch = (int[]){0, 1, 2, 3, 7, 64, 8192, 5000}[h_below(8)], bz = (int[]){1, 2, 3, 16, 8192, 64, 5}[h_below(7)], sp = h_below(4) ? '\n' : 0;
              if (h_below(2)) case_gl(g.p, g.n, ch, bz, sp); else case_gl2(g.p, g.n, ch, bz, sp); break; }
    default: { size_t n = h_below(30); hbuf_reset(&g); if (h_below(2)) G((const char *[]){"1844674407370955", "429496729", "922337203685477580", "1777777777777777777"}[h_below(4)]);
               for (size_t i = 0; i < n; i++) Gc(h_below(40) ? '0' + (int)h_below(10) : (int)h_below(256), 1);
               case_scan(g.p, g.n); }
  }
}

static size_t unhex(const char *h, unsigned char **o) {
  size_t n = 0, l = strlen(h);
  *o = malloc(l / 2 + 1);
  if (h[0] == '-') return 0;
  for (; h[0] && h[1]; h += 2) { unsigned v = 0; sscanf(h, "%2x", &v); (*o)[n++] = v; }
  return n;
}
static void stdin_cases(void) {
  char *line = 0; size_t cap = 0;
  while (getline(&line, &cap, stdin) > 0) {
    char *sv, *t = strtok_r(line, " \r\n", &sv), *f[6]; int nf = 0;
    if (!t || strcmp(t, "T")) continue;
    while (nf < 6 && (f[nf] = strtok_r(0, " \r\n", &sv))) nf++;
    if (nf < 2) continue;
    unsigned char *a, *b = 0; size_t an = unhex(f[1], &a), bn = 0;
    alarm(300);
    if (!strcmp(f[0], "tok")) case_tok(a, an);
    else if (!strcmp(f[0], "utok")) case_utok(a, an, nf > 2 ? (unsigned)strtoul(f[2], 0, 10) : 0);
    else if (!strcmp(f[0], "cdb")) { bn = nf > 2 ? unhex(f[2], &b) : 0; case_cdb(a, an, b ? b : a, bn); }
    else if (!strcmp(f[0], "ctl")) case_ctl(a, an);
    else if (!strcmp(f[0], "ip")) case_ip(a, an);
    else if (!strcmp(f[0], "hdr")) case_hdr(a, an);
    else if (!strcmp(f[0], "gl")) { int bz = nf > 3 ? atoi(f[3]) : 8192; case_gl(a, an, nf > 2 ? atoi(f[2]) : 0, bz > 0 ? bz : 1, nf > 4 ? atoi(f[4]) : '\n'); }
    else if (!strcmp(f[0], "gl2")) { int bz = nf > 3 ? atoi(f[3]) : 8192; case_gl2(a, an, nf > 2 ? atoi(f[2]) : 0, bz > 0 ? bz : 1, nf > 4 ? atoi(f[4]) : '\n'); }
    else if (!strcmp(f[0], "scan")) case_scan(a, an);
    free(a); free(b);
  }
  free(line);
}

int main(int argc, char **argv) {
  h_init_out();
  if (argc < 3) { fprintf(stderr, "usage: %s <workdir> <level|-> <nrandom> <seed> <shard> <nshards>\n", argv[0]); return 2; }
  __sanitizer_set_death_callback(death_cb);
  dl_iterate_phdr(each_lib, 0);
  signal(SIGALRM, on_alarm);
  mkdir(argv[1], 0700);
  snprintf(g_dir, sizeof g_dir, "%s/p%ld", argv[1], (long)getpid());
  mkdir(g_dir, 0700);
  if (chdir(g_dir) == -1) { perror(g_dir); return 2; }
  cur_set("init", "", 0);
  mkdir("control", 0700);
  put_file("control/me", (const unsigned char *)"me.example\n", 11);
  if (control_init() != 1) { fprintf(stderr, "control_init failed\n"); return 2; }
  cdb_fd = open("cdb", O_RDWR | O_CREAT | O_TRUNC, 0600);
  if (cdb_fd == -1) { perror("cdb"); return 2; }
  cur.kind = 0;
  if (!strcmp(argv[2], "-")) stdin_cases();
  else {
    g_level = h_argi(argc, argv, 2, 1);
    int nrandom = h_argi(argc, argv, 3, 1000);
    uint64_t seed = (uint64_t)h_argi(argc, argv, 4, 1);
    g_shard = h_argi(argc, argv, 5, 0); g_nshards = h_argi(argc, argv, 6, 1);
    if (g_nshards < 1) g_nshards = 1;
    tok_cases(); utok_cases(); cdb_cases(); ctl_cases(); ip_cases(); hdr_cases(); gl_cases();
    enum_strings((const unsigned char *)"a\n\0", 3, 0, g_level >= 2 ? 10 : 8, gl_enum_cb);
    scan_cases();
    h_seed(seed * 1000003ull + g_shard);
    for (int r = 0; r < nrandom; r++) if (r % g_nshards == g_shard) { alarm(300); random_case(r); }
  }
  fflush(h_out);
  alarm(0);
  close(cdb_fd);
  cleanup();
  return 0;
}
