/* C17 correspondence harness H1: the real quote.c / token822.c / qmail-remote.c addrmangle() /
 * commands.c commands() / qmail-smtpd.c addrparse().
 *
 * usage: c17_quote <maxlenQ> <maxlenP> <nrandom> <seed> <shard> <nshards>   |   c17_quote -   (cases on stdin)
 * stdin cases:   "Q <local-hex> <domain-hex>"      "P <linelen> <string-hex> [<E>]"
 *
 * output, Q case (address a = local "@" domain):
 *   Q <local> <domain> <quote_need> <quote(local)> <quote2(a)> <parse rc> <tokens> <unquote> <addrmangle(a)> <verb> <addrparse rc> <addr>
 *     <addrlist rc> <callback addresses>  <rcpt verb> <rcpt addrparse rc> <rcpt addr>
 *     addrlist = token822_addrlist on the field "T" ":" <tokens> (the header round trip carried through the address-list parser)
 *     rcpt …   = the same for the line "RCPT TO:<mangled>\r\n" (verb = 1 if dispatched to the rcpt handler)
 *     tokens = '/'-separated, each a type letter (a q l c < > @ , ; : .) followed by the hex content for a q l c; "-" if none
 *     verb   = 1 if commands() dispatched "MAIL FROM:<mangled>\r\n" to the mail handler, else 0
 * output, P case (string s, unparse line length n):
 *   P <n> <s> <E> <parse rc> <tokens> <unquote> <unparse> <re-parse rc> <tokens of the re-parse of unparse's output>
 *     <addrlist rc> <taout tokens> <callback addresses: '|'-separated token lists, reversed as the callback sees them, e = empty>
 *     <addrlist rc and callback addresses of the same token list WITHOUT its comment tokens (first two tokens kept)>
 *     E = X, or the mailboxes a generated RFC 822 list contains (<local hex>/<host hex|~>, comma-separated; - = none)
 * output, R case (another legal rendering of the tokens the real parser returned for a P case, chosen at random:
 * white space / folds between tokens, quoted-pairs, nested parentheses in comments), parsed by the real token822_parse:
 *   R <desc> <text> <parse rc> <tokens>
 *     desc = '/'-separated items "<ws hex|->~<enc>", the last one "<ws>~$" (trailing white space);
 *     enc  = s<hh> special | a<hex> atom | q… quoted string | l… literal | c… comment, the body a sequence of
 *            p<hh> (plain byte) e<hh> (quoted-pair) and, in comments, o = inner "(" and x = inner ")"
 * stdin case: "R <desc> <text-hex>" (the driver checks that text = render(desc))
 */
#include "hcommon.h"
#include <time.h>
#define _exit(x) h_exit(x)
#define main remote_main
#define blast remote_blast
#define helohost remote_helohost
#define out remote_out
#define saferead remote_saferead
#define safewrite remote_safewrite
#define ssin remote_ssin
#define timeout remote_timeout
#include "qmail-remote.c"
#undef main
#undef blast
#undef helohost
#undef out
#undef saferead
#undef safewrite
#undef ssin
#undef timeout
#define main smtpd_main
#include "qmail-smtpd.c"
#undef main
#undef _exit
#include "token822.h"
#include "quote.h"
#include "commands.h"
#include "c17_gen.h"

/* replaces ipme.o: this host is 127.0.0.1 and 0.0.0.0 */
ipalloc ipme = {0};
int ipme_init() { return 1; }
int ipme_is(ip) struct ip_address *ip; {
  static const unsigned char a[4] = {127, 0, 0, 1}, b[4] = {0, 0, 0, 0};
  return !memcmp(ip->d, a, 4) || !memcmp(ip->d, b, 4);
}

static const unsigned char *mr_p; static size_t mr_n, mr_pos;
static ssize_t memread(int fd, char *buf, size_t len) {
  size_t k = mr_n - mr_pos; if (k > len) k = len;
  if (k) memcpy(buf, mr_p + mr_pos, k);
  mr_pos += k; return k;
}
static int cap_verb, cap_rc; static hbuf cap_addr;
static void cap_mail(char *arg) { cap_verb = 1; cap_rc = addrparse(arg); hbuf_reset(&cap_addr); if (addr.len) hbuf_add(&cap_addr, addr.s, addr.len - 1); }
static void cap_rcpt(char *arg) { cap_verb = 2; cap_rc = addrparse(arg); hbuf_reset(&cap_addr); if (addr.len) hbuf_add(&cap_addr, addr.s, addr.len - 1); }
static void cap_other(char *arg) { cap_verb = 0; }
static struct commands ct[] = { { "mail", cap_mail, 0 }, { "rcpt", cap_rcpt, 0 }, { 0, cap_other, 0 } };

static void print_toks(token822_alloc *ta) {
  static const char tl[] = "?aqlc<>@,;:.";
  if (!ta->len) { fputc('-', h_out); return; }
  for (int i = 0; i < ta->len; i++) {
    struct token822 *t = ta->t + i;
    if (i) fputc('/', h_out);
    fputc((t->type >= 1 && t->type <= 11) ? tl[t->type] : '?', h_out);
    if (t->type >= 1 && t->type <= 4 && t->slen) h_hex((unsigned char *)t->s, t->slen);
  }
}

static stralloc s_in = {0}, s_q = {0}, s_q2 = {0}, s_buf = {0}, s_uq = {0}, s_m = {0}, s_up = {0};
static token822_alloc t_a = {0}, t_out = {0}, t_addr = {0};

static void sa_set(stralloc *sa, const unsigned char *p, size_t n) {
  if (!stralloc_copyb(sa, (char *)p, n)) abort();
}

static hbuf gotbuf;
static int ncb;
static int cb_record(token822_alloc *ta);
/* one command line through the real commands() */
static void run_cmd(const char *verb, stralloc *m) {
  static hbuf line; hbuf_reset(&line);
  hbuf_add(&line, verb, strlen(verb)); hbuf_add(&line, m->s, m->len); hbuf_add(&line, ">\r\n", 3);
  static char ssb[512]; substdio ss;
  mr_p = line.p; mr_n = line.n; mr_pos = 0;
  substdio_fdbuf(&ss, memread, -1, ssb, sizeof ssb);
  cap_verb = 0; cap_rc = -1; hbuf_reset(&cap_addr);
  commands(&ss, ct);
}
static void caseQ(const unsigned char *l, size_t ln, const unsigned char *d, size_t dn) {
  static unsigned char a[4200];
  if (ln + dn + 2 > sizeof a) return;
  memcpy(a, l, ln); a[ln] = '@'; memcpy(a + ln + 1, d, dn); a[ln + 1 + dn] = 0;
  sa_set(&s_in, l, ln);
  if (!stralloc_readyplus(&s_in, 1)) abort();   /* quote_need reads s[0] only when n > 0 */
  int need = quote_need(s_in.s, s_in.len);
  if (!quote(&s_q, &s_in)) abort();
  if (!quote2(&s_q2, (char *)a)) abort();
  int prc = token822_parse(&t_a, &s_q2, &s_buf);
  if (prc == 1) { if (token822_unquote(&s_uq, &t_a) != 1) abort(); } else { t_a.len = 0; s_uq.len = 0; }
  addrmangle(&s_m, (char *)a);
  /* the header round trip carried through token822_addrlist: field "T" ":" <tokens>, recording callback */
  static token822_alloc t_q = {0};
  int arc = 0; hbuf_reset(&gotbuf); ncb = 0;
  if (prc == 1) {
    if (!token822_ready(&t_q, t_a.len + 3)) abort();
    t_q.len = 0;
    t_q.t[t_q.len].type = TOKEN822_ATOM; t_q.t[t_q.len].s = "T"; t_q.t[t_q.len].slen = 1; t_q.len++;
    t_q.t[t_q.len].type = TOKEN822_COLON; t_q.t[t_q.len].s = 0; t_q.t[t_q.len].slen = 0; t_q.len++;
    for (int i = 0; i < t_a.len; i++) t_q.t[t_q.len++] = t_a.t[i];
    arc = token822_addrlist(&t_out, &t_addr, &t_q, cb_record);
  }
  /* the line qmail-remote sends, through the real commands() and addrparse() */
  run_cmd("MAIL FROM:<", &s_m);
  fputs("Q ", h_out); h_hex(l, ln); fputc(' ', h_out); h_hex(d, dn);
  fprintf(h_out, " %d ", need); h_hex((unsigned char *)s_q.s, s_q.len); fputc(' ', h_out);
  h_hex((unsigned char *)s_q2.s, s_q2.len); fprintf(h_out, " %d ", prc); print_toks(&t_a); fputc(' ', h_out);
  h_hex((unsigned char *)s_uq.s, s_uq.len); fputc(' ', h_out); h_hex((unsigned char *)s_m.s, s_m.len);
  fprintf(h_out, " %d %d ", cap_verb == 1, cap_rc); h_hex(cap_addr.p, cap_addr.n);
  fprintf(h_out, " %d ", arc);
  if (gotbuf.n) fwrite(gotbuf.p, 1, gotbuf.n, h_out); else fputc('-', h_out);
  /* …and the RCPT TO line for the same address */
  run_cmd("RCPT TO:<", &s_m);
  fprintf(h_out, " %d %d ", cap_verb == 2, cap_rc); h_hex(cap_addr.p, cap_addr.n); fputc('\n', h_out);
}

static int cb_record(token822_alloc *ta) {
  /* identity callback: record the (reversed) address it is given */
  FILE *save = h_out;
  static char *mem; static size_t memn;
  FILE *f = open_memstream(&mem, &memn);
  h_out = f;
  if (ncb++) fputc('|', f);
  if (!ta->len) fputc('e', f); else print_toks(ta);
  fclose(f); h_out = save;
  hbuf_add(&gotbuf, mem, memn); free(mem); mem = 0;
  return 1;
}

/* ---- R: another legal rendering of a token list ---- */
static hbuf r_desc, r_text;
static void r_hexb(hbuf *b, const unsigned char *p, size_t n) {
  static const char d[] = "0123456789abcdef";
  for (size_t i = 0; i < n; i++) { g_c(b, d[p[i] >> 4]); g_c(b, d[p[i] & 15]); }
}
static void r_ws(int need) {
  static const char *w[] = { "", " ", "\t", "\n ", "\r\n\t", "  ", " \n " };
  uint32_t k = h_below(12);
  const char *x = k < 7 ? w[k] : "";
  if (need && !*x) x = " ";
  if (!*x) g_c(&r_desc, '-'); else r_hexb(&r_desc, (const unsigned char *)x, strlen(x));
  g_s(&r_text, x);
}
static void r_byte(unsigned char c, int must) {
  int esc = must || h_below(8) == 0;
  g_c(&r_desc, esc ? 'e' : 'p'); r_hexb(&r_desc, &c, 1);
  if (esc) g_c(&r_text, '\\');
  g_c(&r_text, c);
}
static void r_render(token822_alloc *ta) {
  hbuf_reset(&r_desc); hbuf_reset(&r_text);
  int prev_atom = 0;
  for (int i = 0; i < ta->len; i++) {
    struct token822 *t = ta->t + i;
    int is_atom = t->type == TOKEN822_ATOM;
    r_ws(prev_atom && is_atom); g_c(&r_desc, '~');
    prev_atom = is_atom;
    switch (t->type) {
      case TOKEN822_ATOM: g_c(&r_desc, 'a'); r_hexb(&r_desc, (unsigned char *)t->s, t->slen); hbuf_add(&r_text, t->s, t->slen); break;
      case TOKEN822_QUOTE:
        g_c(&r_desc, 'q'); g_c(&r_text, '"');
        for (int j = 0; j < t->slen; j++) r_byte(t->s[j], t->s[j] == '"' || t->s[j] == '\\');
        g_c(&r_text, '"'); break;
      case TOKEN822_LITERAL:
        g_c(&r_desc, 'l'); g_c(&r_text, '[');
        for (int j = 0; j < t->slen; j++) r_byte(t->s[j], t->s[j] == ']' || t->s[j] == '\\');
        g_c(&r_text, ']'); break;
      case TOKEN822_COMMENT: {
        int depth = 0;
        g_c(&r_desc, 'c'); g_c(&r_text, '(');
        for (int j = 0; j <= t->slen; j++) {
          if (depth < 3 && h_below(6) == 0) { g_c(&r_desc, 'o'); g_c(&r_text, '('); depth++; }
          if (depth && h_below(4) == 0) { g_c(&r_desc, 'x'); g_c(&r_text, ')'); depth--; }
          if (j < t->slen) r_byte(t->s[j], t->s[j] == '(' || t->s[j] == ')' || t->s[j] == '\\');
        }
        while (depth) { g_c(&r_desc, 'x'); g_c(&r_text, ')'); depth--; }
        g_c(&r_text, ')'); break; }
      default: {
        static const char sp[] = "?????<>@,;:.";
        unsigned char c = (t->type >= 5 && t->type <= 11) ? sp[t->type] : '?';
        g_c(&r_desc, 's'); r_hexb(&r_desc, &c, 1); g_c(&r_text, c); }
    }
    g_c(&r_desc, '/');
  }
  r_ws(0); g_s(&r_desc, "~$");
}
static void caseR(const unsigned char *desc, size_t dn, const unsigned char *text, size_t tn) {
  static stralloc s_r = {0}, s_rbuf = {0}; static token822_alloc t_r = {0};
  sa_set(&s_r, text, tn);
  int rc = token822_parse(&t_r, &s_r, &s_rbuf);
  fputs("R ", h_out); fwrite(desc, 1, dn, h_out); fputc(' ', h_out); h_hex(text, tn);
  fprintf(h_out, " %d ", rc);
  if (rc == 1) print_toks(&t_r); else fputc('-', h_out);
  fputc('\n', h_out);
}

static int want_r;   /* also emit an R case for the tokens of this P case */
static void caseP(int linelen, const unsigned char *s, size_t n, const char *E) {
  static stralloc s_buf2 = {0}; static token822_alloc t_b = {0};
  sa_set(&s_in, s, n);
  int prc = token822_parse(&t_a, &s_in, &s_buf);
  fprintf(h_out, "P %d ", linelen); h_hex(s, n); fprintf(h_out, " %s %d ", E, prc);
  if (prc != 1) { fputs("- - - 0 - 0 - - 0 -\n", h_out); return; }
  if (token822_unquote(&s_uq, &t_a) != 1) abort();
  if (token822_unparse(&s_up, &t_a, linelen) != 1) abort();
  print_toks(&t_a); fputc(' ', h_out); h_hex((unsigned char *)s_uq.s, s_uq.len); fputc(' ', h_out);
  h_hex((unsigned char *)s_up.s, s_up.len);
  int rc2 = token822_parse(&t_b, &s_up, &s_buf2);
  fprintf(h_out, " %d ", rc2);
  if (rc2 == 1) print_toks(&t_b); else fputc('-', h_out);
  hbuf_reset(&gotbuf); ncb = 0;
  int arc = token822_addrlist(&t_out, &t_addr, &t_a, cb_record);
  fprintf(h_out, " %d ", arc);
  if (arc == 1) print_toks(&t_out); else fputc('-', h_out);
  fputc(' ', h_out);
  if (gotbuf.n) fwrite(gotbuf.p, 1, gotbuf.n, h_out); else fputc('-', h_out);
  /* the same tokens without the comments (the first two tokens are the untouched prefix) */
  static token822_alloc t_nc = {0};
  if (!token822_ready(&t_nc, t_a.len + 1)) abort();
  t_nc.len = 0;
  for (int i = 0; i < t_a.len; i++) if (i < 2 || t_a.t[i].type != TOKEN822_COMMENT) t_nc.t[t_nc.len++] = t_a.t[i];
  hbuf_reset(&gotbuf); ncb = 0;
  int arc2 = token822_addrlist(&t_out, &t_addr, &t_nc, cb_record);
  fprintf(h_out, " %d ", arc2);
  if (gotbuf.n) fwrite(gotbuf.p, 1, gotbuf.n, h_out); else fputc('-', h_out);
  fputc('\n', h_out);
  if (want_r) { r_render(&t_a); caseR(r_desc.p, r_desc.n, r_text.p, r_text.n); }
}

static int unhex(const char *h, unsigned char *o) {
  int n = 0;
  if (h[0] == '-') return 0;
  for (; h[0] && h[1]; h += 2) { unsigned v; sscanf(h, "%2x", &v); o[n++] = v; }
  return n;
}

static const unsigned char qalpha[17] = { 'a', '.', '@', '"', '\\', ' ', '\r', '\t', '(', ')', '<', '>', '[', ']', ':', ';', 0x80 };
static const unsigned char palpha[15] = { 'a', ' ', ',', '<', '>', '(', ')', '"', '\\', ':', ';', '@', '.', '[', ']' };
static const char *doms[] = { "x", "h.example.org", "[1.2.3.4]", "[127.0.0.1]", "[383.0.0.1]", "[127.0.0.1", "a-b.c", "[0.0.0.0]" };
#define NDOMS (sizeof doms / sizeof doms[0])

int main(int argc, char **argv) {
  h_init_out();
  liphostok = 1; if (!stralloc_copys(&liphost, "lip.example")) abort();
  if (argc > 1 && !strcmp(argv[1], "-")) {
    static char line[300000], f1[300000], f2[300000]; static unsigned char b1[150000], b2[150000];
    while (fgets(line, sizeof line, stdin)) {
      if (line[0] == 'Q' && sscanf(line + 1, "%s %s", f1, f2) == 2) { int n1 = unhex(f1, b1), n2 = unhex(f2, b2); caseQ(b1, n1, b2, n2); }
      else if (line[0] == 'R' && sscanf(line + 1, "%s %s", f1, f2) == 2) { int n2 = unhex(f2, b2); caseR((unsigned char *)f1, strlen(f1), b2, n2); }
      else if (line[0] == 'P') { static char f3[300000]; int k = sscanf(line + 1, "%s %s %s", f1, f2, f3); if (k >= 2) { int n2 = unhex(f2, b2); caseP(atoi(f1), b2, n2, k == 3 ? f3 : "X"); } }
    }
    fflush(h_out);
    return 0;
  }
  int maxq = h_argi(argc, argv, 1, 4), maxp = h_argi(argc, argv, 2, 4), nrandom = h_argi(argc, argv, 3, 1000);
  uint64_t seed = (uint64_t)h_argi(argc, argv, 4, 1);
  int shard = h_argi(argc, argv, 5, 0), nshards = h_argi(argc, argv, 6, 1);
  unsigned char m[8192];
  uint64_t id = 0;
  h_seed(seed * 7919ull + 17 * shard + 5);   /* the R renderings of the exhaustive part */
  /* (Q1) every local part over the 17-byte alphabet: all 8 domains up to maxq-2, one of the 8 (rotating) at maxq-1, x.y at maxq */
  for (int len = 0; len <= maxq; len++) {
    uint64_t total = 1; for (int i = 0; i < len; i++) total *= 17;
    for (uint64_t k = 0; k < total; k++, id++) {
      if ((int)(id % nshards) != shard) continue;
      uint64_t v = k; for (int i = 0; i < len; i++) { m[i] = qalpha[v % 17]; v /= 17; }
      if (len + 1 < maxq) for (unsigned d = 0; d < NDOMS; d++) caseQ(m, len, (const unsigned char *)doms[d], strlen(doms[d]));
      else if (len < maxq) { const char *d = doms[k % NDOMS]; caseQ(m, len, (const unsigned char *)d, strlen(d)); }
      else caseQ(m, len, (const unsigned char *)"x.y", 3);
    }
  }
  /* (P1) every string over the 15-byte token alphabet as the body of a field "T:" */
  for (int len = 0; len <= maxp; len++) {
    uint64_t total = 1; for (int i = 0; i < len; i++) total *= 15;
    for (uint64_t k = 0; k < total; k++, id++) {
      if ((int)(id % nshards) != shard) continue;
      uint64_t v = k; int comma = 0;
      m[0] = 'T'; m[1] = ':';
      for (int i = 0; i < len; i++) { m[2 + i] = palpha[v % 15]; if (m[2 + i] == ',') comma = 1; v /= 15; }
      want_r = (k % 4 == 0);
      caseP(80, m, len + 2, "X");
      want_r = 0;
      if (comma) caseP(3 + (int)(k % 5), m, len + 2, "X");
      if (len + 1 <= maxp && len <= 3) caseP(80, m + 2, len, "X");   /* without the field name: the first two tokens are the prefix */
    }
  }
  /* (Q2/P2) seeded random */
  h_seed(seed * 1000003ull + shard);
  for (int r = 0; r < nrandom; r++) {
    if ((r % nshards) != shard) continue;
    int kind = r % 4;
    if (kind == 0) { /* long local parts, bytes 1..255 without LF */
      int n = (r % 28 == 0) ? 880 + h_below(40) : h_below(60);
      int mode = h_below(3);
      for (int i = 0; i < n; i++) {
        unsigned c = mode == 0 ? 1 + h_below(255) : mode == 1 ? qalpha[h_below(17)] : "abc.+-_"[h_below(7)];
        if (c == '\n') c = 'n';
        m[i] = c;
      }
      const char *d = doms[h_below(NDOMS)];
      caseQ(m, n, (const unsigned char *)d, strlen(d));
    } else if (kind == 1) { /* address lists from the grammar */
      static glist g; hbuf_reset(&g.text); g.nmb = 0;
      g_fold_ok = 1; g_route_ok = 0;   /* the identity callback does not strip routes; qmail-inject's does (H2) */
      hbuf_add(&g.text, "To:", 3); g_ws(&g.text, 0);
      gen_addrlist(&g, 6);
      char *mem; size_t mn; FILE *f = open_memstream(&mem, &mn);
      for (int i = 0; i < g.nmb; i++) { if (i) fputc(',', f); g_mbox_print(f, &g.mb[i]); }
      fclose(f);
      want_r = 1;
      caseP((int[]){80, 80, 0, 20, 40, 1}[h_below(6)], g.text.p, g.text.n, mn ? mem : "-");
      want_r = 0;
      free(mem);
    } else if (kind == 2) { /* token soup */
      int n = h_below(40);
      m[0] = 'C'; m[1] = 'c'; m[2] = ':';
      for (int i = 0; i < n; i++) m[3 + i] = h_below(5) ? palpha[h_below(15)] : "abc+\t\n\r\x80"[h_below(8)];
      want_r = 1;
      caseP((int[]){80, 10, 0}[h_below(3)], m, n + 3, "X");
      want_r = 0;
    } else { /* local parts that look like addresses / routes, various domains */
      static const char *pieces[] = { "a", "b.c", "@", "\"", "\\", " ", ".", "..", "<", ">", ":", "@x:", "+", "\r", "(", ")", ",", ";", "[", "]", "\x80", "\t" };
      int np = 1 + h_below(6), n = 0;
      for (int i = 0; i < np; i++) { const char *p = pieces[h_below(sizeof pieces / sizeof pieces[0])]; memcpy(m + n, p, strlen(p)); n += strlen(p); }
      const char *d = doms[h_below(NDOMS)];
      caseQ(m, n, (const unsigned char *)d, strlen(d));
    }
  }
  fflush(h_out);
  return 0;
}
