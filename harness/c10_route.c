/* C10 correspondence harness: the real control.c readers, constmap.c, qmail-send.c getcontrols()/rewrite()/
 * senderadd()/comm_write() in-process (H1), and the real qmail-send main() as a child process against a scratch
 * queue directory, with real SIGHUPs between messages (H3).
 *
 * usage: c10_route <explen> <nconfigs> <nscen> <seed> <shard> <nshards>   |   c10_route -   (cases on stdin)
 *
 * output lines (fields: lower-case hex, "-" = empty, "~" = file absent):
 *   G <me> <env> <locals> <ph> <vdoms> <ok> <envbuf> <phbuf> <localsbuf> <vdomsbuf>   getcontrols() on these files
 *   R <recip> <ret> <rwline>                 rewrite(recip) under the last G configuration
 *   V <sender> <recip> <delnum> <id> <buf>   comm_write() (senderadd) -> comm_buf
 *   K <buf> <flagcolon> <key> <found> <val>  constmap_init + constmap
 *   X <key> <hash>                           constmap.c hash()
 *   B <c> <s> <r> <cd>                       byte_rchr(s,len,c); cd = !case_diffb(s,len,s2) with s2 = s case-flipped
 *   S <me> <env> <locals> <ph> <vdoms> <started> <n> {M <todo> <info> <loc> <rem> | H|E <5 files>}   real main()
 *       M: one message injected and preprocessed; "! ! !" = the daemon went back to sleep without asking qmail-clean
 *          to remove todo/<id> (todo_do took its `goto fail` exit); "? ? ?" = timeout / daemon gone
 *       H: the five control files are rewritten, SIGHUP is delivered while the daemon is blocked in select(), and
 *          the daemon is seen blocked in select() again (it passed the loop top)     E: files rewritten, no signal
 *       I <k> <5 files f1> <5 files f2> <mask> <call>: SIGHUP during the re-read.  f1 is written, SIGHUP (A) is delivered while
 *          the daemon is blocked in select(); the daemon is held right BEFORE its k-th call (k = 0,1,..; chdir, open_read,
 *          read, close - the calls reread()/regetcontrols()/control_readfile() make) after that signal; while it is held
 *          f2 is written (each file replaced atomically by rename) and a second real SIGHUP (B) is sent; then the daemon
 *          is released.  When it is blocked in select() again the trigger is pulled once with nothing queued (the stock
 *          loop looks at the HUP flag only at its top, select() does not return for a signal that arrived before it)
 *          and the step ends when the daemon is idle again.  <mask>: bit 0 / bit 1 = control/locals / control/
 *          virtualdomains had already been opened by re-read (A) when the daemon was held (that re-read sees f1 for
 *          these and f2 for the others); <call> = the call it was held at, "none" = it made fewer than k+1 calls: then
 *          f2 and SIGHUP (B) came while it was blocked in select() again (mask 3).
 *       J <k> <5 files f1> <call> <file> <idx>: FAILING re-read.  f1 is written, SIGHUP is delivered while the daemon is blocked
 *          in select(), and the k-th gated call after the signal (k = 0: reread()'s chdir(auto_qmail); then open_read / read /
 *          close of control_readfile(); last: chdir("queue")) FAILS: chdir and open_read with EACCES, read with EIO, close
 *          closes and reports EIO; a sleep(10) before a retry (chdir("queue")) is not slept.  <call> = chdir | open_read |
 *          read | close | chdir_queue | none (reread() made fewer calls), <file> = the control file it belongs to, <idx> =
 *          how many reads of that file had succeeded before.  The step ends when the daemon is idle in select() again.
 *   Z <k> <me> <env> <locals> <ph> <vdoms> <started> <call> <file> <idx>   real main() started with the k-th gated call of
 *          start-up (main()'s chdir(auto_qmail) ... getcontrols() ... chdir("queue")) failing in the same way
 *   D <me> <env> <locals> <ph> <vdoms> <started> <todo> <id> { C <chan> ok|badslot <fn> <sender> <recip> }   real main() with
 *          both spawners announcing concurrency 10: the delivery commands qmail-send wrote to the spawner pipes for this
 *          one message (del_start -> comm_write -> comm_do; VERP), channel 0 = local first, then channel 1 = remote
 * stdin cases: the same lines without the result fields. */
#include "hcommon.h"
#include <fcntl.h>
#include <signal.h>
#include <errno.h>
#include <poll.h>
#include <time.h>
#include <sys/stat.h>
#include <sys/wait.h>
#include <sys/mman.h>

/* ------------------------------------------------------------------ call gate (I steps)
 * chdir / open_read / read / close as called by the #included control.c and qmail-send.c go through these pass-through
 * wrappers.  They change no argument and no result; when the parent has armed the gate, the forked daemon stops right
 * before its k-th such call, tells the parent and waits to be released (the parent edits the control files and sends
 * a real SIGHUP meanwhile: the daemon's own handler sighup() runs while it waits). */
typedef struct { volatile int armed, k, count, mask, mask_at, reached, which; volatile pid_t pid;
                 /* fault mode (J steps, Z lines): the k-th call FAILS instead of being held */
                 volatile int mode, fired, curfile, rdidx, ffile, fidx, nosleep, slept; } gate_t;
static gate_t *GT;
static int gate_cr = -1, gate_cw = -1;   /* the child's ends: read "go", write "reached" */
static const char *gate_names[] = { "none", "chdir", "open_read", "read", "close", "chdir_queue" };
static const char *ctl_names[] = { "-", "me", "envnoathost", "locals", "percenthack", "virtualdomains", "other" };
static int ctl_id(const char *fn) {
  if (!strcmp(fn, "control/me")) return 1;
  if (!strcmp(fn, "control/envnoathost")) return 2;
  if (!strcmp(fn, "control/locals")) return 3;
  if (!strcmp(fn, "control/percenthack")) return 4;
  if (!strcmp(fn, "control/virtualdomains")) return 5;
  return 6;
}
/* returns 1 when this call must fail (fault mode) */
static int gate(int which) {
  if (!GT || !GT->armed || getpid() != GT->pid) return 0;
  if (GT->count++ != GT->k) return 0;
  GT->armed = 0; GT->mask_at = GT->mask; GT->which = which; GT->reached = 1;
  if (GT->mode == 1) { GT->fired = 1; GT->ffile = (which == 1 || which == 5) ? 0 : GT->curfile; GT->fidx = GT->rdidx; GT->nosleep = 1; return 1; }
  char c = 'r';
  if (write(gate_cw, &c, 1) != 1) return 0;
  while (read(gate_cr, &c, 1) == -1 && errno == EINTR) ;
  return 0;
}
extern int open_read();
static int c10_open_read(char *fn) {
  if (GT && GT->pid == getpid()) { GT->curfile = ctl_id(fn); GT->rdidx = 0; }
  if (gate(2)) { errno = EACCES; return -1; }              /* an error other than ENOENT */
  int r = open_read(fn);
  if (GT && GT->pid == getpid()) { int e = errno;
    if (!strcmp(fn, "control/locals")) GT->mask |= 1;
    if (!strcmp(fn, "control/virtualdomains")) GT->mask |= 2;
    errno = e; }
  return r;
}
static ssize_t c10_read(int fd, void *b, size_t n) {
  if (gate(3)) { errno = EIO; return -1; }
  ssize_t r = read(fd, b, n);
  if (GT && GT->pid == getpid()) { int e = errno; GT->rdidx++; errno = e; }
  return r;
}
static int c10_close(int fd) { if (gate(4)) { close(fd); errno = EIO; return -1; } return close(fd); }
static int c10_chdir(const char *d) {
  int q = !strcmp(d, "queue");
  if (gate(q ? 5 : 1)) { errno = EACCES; return -1; }
  int r = chdir(d);
  /* fault mode: the window ends once start-up / reread() is back in the queue directory */
  if (q && GT && GT->pid == getpid() && GT->mode == 1) { int e = errno; GT->armed = 0; errno = e; }
  return r;
}
/* `sleep(10)` after a failing call that is retried (chdir("queue") in reread(), nomem()): not slept in fault mode */
static unsigned c10_sleep(unsigned n) {
  if (GT && GT->pid == getpid() && GT->nosleep) { GT->nosleep = 0; GT->slept++; return 0; }
  return sleep(n);
}

#define _exit(x) h_exit(x)
#define main qmail_send_main
#define open_read c10_open_read
#define read c10_read
#define close c10_close
#define chdir c10_chdir
#define sleep c10_sleep
#include "control.c"
#include "constmap.c"
#include "qmail-send.c"
#undef sleep
#undef chdir
#undef close
#undef read
#undef open_read
#undef main
#undef _exit

char auto_qmail[4096];           /* replaces auto_qmail.o: the scratch qmail home */
extern int auto_split;
void __sanitizer_set_report_path(const char *) __attribute__((weak));
static void badd(hbuf *b, const void *s, size_t n) { if (n) hbuf_add(b, s, n); }

/* ------------------------------------------------------------------ control files */
#define NF 5
static const char *fnames[NF] = { "control/me", "control/envnoathost", "control/locals", "control/percenthack",
                                  "control/virtualdomains" };
typedef struct { int present[NF]; hbuf b[NF]; } files;

static void put_file(const char *path, const unsigned char *p, size_t n) {
  int fd = open(path, O_WRONLY | O_CREAT | O_TRUNC, 0644);
  if (fd < 0) { perror(path); exit(2); }
  if (n && write(fd, p, n) != (ssize_t)n) { perror("write"); exit(2); }
  close(fd);
}
static void write_files(const files *F) {
  char path[4400];
  for (int i = 0; i < NF; i++) {
    snprintf(path, sizeof path, "%s/%s", auto_qmail, fnames[i]);
    if (F->present[i]) put_file(path, F->b[i].p, F->b[i].n); else unlink(path);
  }
}
/* every file replaced by rename (or removed): a reader that has the old file open keeps reading the old contents */
static void write_files_atomic(const files *F) {
  char path[4400], tmp[4500];
  for (int i = 0; i < NF; i++) {
    snprintf(path, sizeof path, "%s/%s", auto_qmail, fnames[i]);
    if (!F->present[i]) { unlink(path); continue; }
    snprintf(tmp, sizeof tmp, "%s.new", path);
    put_file(tmp, F->b[i].p, F->b[i].n);
    if (rename(tmp, path)) { perror("rename"); exit(2); }
  }
}
static void out_filefield(const files *F, int i) {
  fputc(' ', h_out);
  if (!F->present[i]) fputc('~', h_out); else h_hex(F->b[i].p, F->b[i].n);
}
static void out_files(const files *F) { for (int i = 0; i < NF; i++) out_filefield(F, i); }

static int unhex(const char *h, unsigned char *o) {
  int n = 0;
  if (h[0] == '-' || h[0] == '~') return 0;
  for (; h[0] && h[1]; h += 2) { unsigned v; sscanf(h, "%2x", &v); o[n++] = v; }
  return n;
}
static void set_file(files *F, int i, const char *hx) {
  static unsigned char tmp[1 << 20];
  hbuf_reset(&F->b[i]);
  F->present[i] = hx[0] != '~';
  if (F->present[i]) { int n = unhex(hx, tmp); badd(&F->b[i], tmp, n); }
}

/* ------------------------------------------------------------------ H1: in-process */
static int maps_live;
static int cfg_ok;

static void do_G(const files *F) {
  write_files(F);
  if (maps_live) { constmap_free(&maplocals); constmap_free(&mappercenthack); constmap_free(&mapvdoms); maps_live = 0; }
  meok = 0; me.len = 0;                                   /* control.c statics: as in a fresh process */
  envnoathost.len = percenthack.len = locals.len = vdoms.len = 0;
  cfg_ok = getcontrols();
  if (cfg_ok) maps_live = 1;
  fputs("G", h_out); out_files(F);
  fprintf(h_out, " %d ", cfg_ok);
  if (cfg_ok) {
    h_hex((unsigned char *)envnoathost.s, envnoathost.len); fputc(' ', h_out);
    h_hex((unsigned char *)percenthack.s, percenthack.len); fputc(' ', h_out);
    h_hex((unsigned char *)locals.s, locals.len); fputc(' ', h_out);
    h_hex((unsigned char *)vdoms.s, vdoms.len);
  } else fputs("- - - -", h_out);
  fputc('\n', h_out);
}

static void do_R(const unsigned char *r, size_t n) {
  static char buf[70000];
  if (!cfg_ok || n >= sizeof buf - 1 || memchr(r, 0, n)) return;
  if (n) memcpy(buf, r, n); buf[n] = 0;
  int ret = rewrite(buf);
  fputs("R ", h_out); h_hex(r, n); fprintf(h_out, " %d ", ret);
  h_hex((unsigned char *)rwline.s, rwline.len); fputc('\n', h_out);
}

static void do_V(const unsigned char *s, size_t sn, const unsigned char *r, size_t rn, int delnum, unsigned long id) {
  static char sb[70000], rb[70000];
  static int inited;
  if (sn >= sizeof sb - 1 || rn >= sizeof rb - 1 || memchr(s, 0, sn) || memchr(r, 0, rn)) return;
  if (!inited) { fnmake_init(); inited = 1; }
  if (sn) memcpy(sb, s, sn); sb[sn] = 0; if (rn) memcpy(rb, r, rn); rb[rn] = 0;
  comm_buf[0].len = 0;
  comm_write(0, delnum, id, sb, rb);
  fputs("V ", h_out); h_hex(s, sn); fputc(' ', h_out); h_hex(r, rn);
  fprintf(h_out, " %d %lu ", delnum & 255, id);
  h_hex((unsigned char *)comm_buf[0].s, comm_buf[0].len); fputc('\n', h_out);
  comm_buf[0].len = 0;
}

static void do_K(const unsigned char *b, size_t bn, int fc, const unsigned char *k, size_t kn) {
  struct constmap cm;
  char *copy = malloc(bn + 1); if (bn) memcpy(copy, b, bn); copy[bn] = 0;
  char *kc = malloc(kn + 1); if (kn) memcpy(kc, k, kn);
  if (!constmap_init(&cm, copy, bn, fc)) { free(copy); free(kc); return; }
  char *x = constmap(&cm, kc, kn);
  fputs("K ", h_out); h_hex(b, bn); fprintf(h_out, " %d ", fc); h_hex(k, kn);
  fprintf(h_out, " %d ", x ? 1 : 0);
  if (x && fc) h_hex((unsigned char *)x, strlen(x)); else fputc('-', h_out);
  fputc('\n', h_out);
  constmap_free(&cm); free(copy); free(kc);
}

static void do_X(const unsigned char *k, size_t kn) {
  char *kc = malloc(kn + 1); if (kn) memcpy(kc, k, kn);
  fputs("X ", h_out); h_hex(k, kn); fprintf(h_out, " %lu\n", (unsigned long)hash(kc, kn));
  free(kc);
}

static void do_B(int c, const unsigned char *s, size_t n) {
  char *a = malloc(n + 1), *b2 = malloc(n + 1);
  if (n) memcpy(a, s, n);
  for (size_t i = 0; i < n; i++) { unsigned char ch = s[i];
    b2[i] = (ch >= 'a' && ch <= 'z') ? ch - 32 : (ch >= 'A' && ch <= 'Z') ? ch + 32 : ch; }
  fprintf(h_out, "B %d ", c); h_hex(s, n);
  fprintf(h_out, " %u %d\n", byte_rchr(a, n, c), !case_diffb(a, n, b2));
  free(a); free(b2);
}

/* ------------------------------------------------------------------ H3: the real main() in a child */
typedef struct { char kind; hbuf todo; files F; files F2; int k; int grp; } step;   /* F2, k: I steps; grp: sweep group */
static char qdir[4400];

static void mkdirs(void) {
  char p[4600];
  static const char *top[] = { "control", "queue", "queue/todo", "queue/intd", "queue/bounce", "queue/lock", "queue/pid",
                               "queue/mess", "queue/info", "queue/local", "queue/remote" };
  for (unsigned i = 0; i < sizeof top / sizeof top[0]; i++) { snprintf(p, sizeof p, "%s/%s", auto_qmail, top[i]); mkdir(p, 0755); }
  static const char *sp[] = { "mess", "info", "local", "remote" };
  for (int s = 0; s < 4; s++) for (int i = 0; i < auto_split; i++) {
    snprintf(p, sizeof p, "%s/queue/%s/%d", auto_qmail, sp[s], i); mkdir(p, 0755); }
  snprintf(p, sizeof p, "%s/queue/lock/sendmutex", auto_qmail); put_file(p, 0, 0);
  snprintf(p, sizeof p, "%s/queue/lock/trigger", auto_qmail); mkfifo(p, 0622);
}

static double nowf(void) { struct timespec t; clock_gettime(CLOCK_MONOTONIC, &t); return t.tv_sec + t.tv_nsec * 1e-9; }

static int child_idle(pid_t pid) {      /* blocked in select() with nothing to do */
  char p[64], b[512]; int fd, n;
  snprintf(p, sizeof p, "/proc/%d/stat", (int)pid);
  fd = open(p, O_RDONLY); if (fd < 0) return -1;
  n = read(fd, b, sizeof b - 1); close(fd); if (n <= 0) return -1; b[n] = 0;
  char *q = strrchr(b, ')'); if (!q || !q[1] || !q[2]) return -1;
  if (q[2] == 'Z' || q[2] == 'X') return -1;
  if (q[2] != 'S') return 0;
  snprintf(p, sizeof p, "/proc/%d/syscall", (int)pid);
  fd = open(p, O_RDONLY); if (fd < 0) return 1;
  n = read(fd, b, sizeof b - 1); close(fd); if (n <= 0) return 1; b[n] = 0;
  long nr = atol(b);
  return nr == 23 || nr == 270 || nr == 7 || nr == 271 || nr == 72 /* aarch64 pselect6 */;
}

static int rd_clean, wr_clean;           /* our ends of qmail-send's fd 5 / fd 6 */
static hbuf reqbuf;

/* act as qmail-clean until (want_id: "todo/<id>" was requested and *not yet answered*) or (want_id == 0: child idle).
 * returns 1 on success, 2 when want_id was never requested and the child is blocked in select() again (the write to the
 * trigger fifo made it runnable before write() returned, so this is after its todo run), 0 on timeout / child death */
static int service(pid_t pid, unsigned long want_id, double timeout) {
  double t0 = nowf();
  int idle_seen = 0;
  for (;;) {
    struct pollfd pf = { rd_clean, POLLIN, 0 };
    int r = poll(&pf, 1, 1);
    if (r > 0 && (pf.revents & POLLIN)) {
      char ch; idle_seen = 0;
      if (read(rd_clean, &ch, 1) != 1) return 0;
      if (ch) { badd(&reqbuf, &ch, 1); continue; }
      badd(&reqbuf, "", 1);
      char *rq = (char *)reqbuf.p; reqbuf.n = 0;
      char path[4600];
      if (!strncmp(rq, "todo/", 5)) {
        unsigned long id = strtoul(rq + 5, 0, 10);
        if (want_id && id == want_id) return 1;          /* caller inspects the queue, then answers */
        snprintf(path, sizeof path, "%s/todo/%lu", qdir, id); unlink(path);
      } else if (!strncmp(rq, "foop/", 5)) {
        unsigned long id = strtoul(rq + 5, 0, 10);
        snprintf(path, sizeof path, "%s/mess/%lu/%lu", qdir, id % auto_split, id); unlink(path);
      }
      if (write(wr_clean, "+", 1) != 1) return 0;
      continue;
    }
    if (r > 0) return 0;                                  /* hangup: child gone */
    int st = child_idle(pid);
    if (st < 0) return 0;
    if (st == 1) {
      ++idle_seen;
      if (!want_id && idle_seen >= 2) return 1;
      if (want_id && idle_seen >= 4) return 2;            /* asleep again, todo/<id> was never handed to qmail-clean */
    } else idle_seen = 0;
    if (nowf() - t0 > timeout) return 0;
  }
}

static void out_qfile(const char *sub, unsigned long id) {
  char path[4600]; static unsigned char buf[1 << 20];
  snprintf(path, sizeof path, "%s/%s/%lu/%lu", qdir, sub, id % auto_split, id);
  int fd = open(path, O_RDONLY);
  fputc(' ', h_out);
  if (fd < 0) { fputc('~', h_out); return; }
  ssize_t n = read(fd, buf, sizeof buf); close(fd);
  h_hex(buf, n < 0 ? 0 : n);
  unlink(path);
}

static int gate_pw = -1, gate_pr = -1;   /* our ends of the gate pipes: write "go", read "reached" */
static int daemon_crashes;              /* scenarios in which the daemon died of a signal / sanitizer report */
static int p2w, p4w;                     /* our write ends of the spawner report pipes (qmail-send's fd 2 / fd 4) */
static int lrd[2] = { -1, -1 };          /* our read ends of the delivery command pipes (fd 1 / fd 3), conc > 0 only */

/* fork the real main(); conc = what both spawners announce as their concurrency (0: nothing is ever delivered and
 * fd 1 / fd 3 are /dev/null).  returns the pid, *started = the daemon reached its idle select() */
static int start_fault_k = -1;           /* Z lines: the k-th gated call of start-up fails */
static pid_t launch(const files *F0, int conc, int *started) {
  int p1[2] = { -1, -1 }, p3[2] = { -1, -1 }, p2[2], p4[2], p5[2], p6[2], gp[2], gq[2];
  char path[4600];
  write_files(F0);
  if (pipe(p2) || pipe(p4) || pipe(p5) || pipe(p6) || pipe(gp) || pipe(gq)) { perror("pipe"); exit(2); }
  if (GT) { GT->armed = 0; GT->pid = 0; }
  if (conc && (pipe(p1) || pipe(p3))) { perror("pipe"); exit(2); }
  fflush(h_out);
  pid_t pid = fork();
  if (pid < 0) { perror("fork"); exit(2); }
  if (pid == 0) {
    snprintf(path, sizeof path, "%s/log", auto_qmail);
    int lg = open(path, O_WRONLY | O_CREAT | O_TRUNC, 0644), dn = open("/dev/null", O_RDWR);
    int src[9] = { lg, conc ? p1[1] : dn, p2[0], conc ? p3[1] : dn, p4[0], p5[1], p6[0], gp[0], gq[1] }, hi[9];
    for (int i = 0; i < 9; i++) hi[i] = fcntl(src[i], F_DUPFD, 40);
    if (__sanitizer_set_report_path) { snprintf(path, sizeof path, "%s/asan", auto_qmail); __sanitizer_set_report_path(path); }
    for (int i = 0; i < 9; i++) dup2(hi[i], i);
    for (int i = 9; i < 256; i++) close(i);
    gate_cr = 7; gate_cw = 8;           /* the gate's pipe ends (I steps); qmail-send itself uses fds 0-6 */
    h_exit_armed = 0;
    meok = 0; me.len = 0;               /* control.c statics dirtied by the in-process cases: as in a fresh process */
    envnoathost.len = percenthack.len = locals.len = vdoms.len = newlocals.len = newvdoms.len = 0;   /* likewise */
    if (start_fault_k >= 0 && GT) {
      GT->k = start_fault_k; GT->count = 0; GT->mask = 0; GT->fired = 0; GT->which = 0; GT->curfile = 0; GT->rdidx = 0;
      GT->ffile = 0; GT->fidx = 0; GT->nosleep = 0; GT->slept = 0; GT->mode = 1; GT->pid = getpid(); GT->armed = 1;
    }
    qmail_send_main();
    _exit(99);
  }
  close(p2[0]); close(p4[0]); close(p5[1]); close(p6[0]); close(gp[0]); close(gq[1]);
  gate_pw = gp[1]; gate_pr = gq[0];
  if (conc) { close(p1[1]); close(p3[1]); lrd[0] = p1[0]; lrd[1] = p3[0]; }
  rd_clean = p5[0]; wr_clean = p6[1]; p2w = p2[1]; p4w = p4[1];
  signal(SIGPIPE, SIG_IGN);
  char cb = (char)conc;
  *started = 1;
  if (write(p2w, &cb, 1) != 1 || write(p4w, &cb, 1) != 1) *started = 0;   /* spawners: concurrency */
  reqbuf.n = 0;
  if (*started && !service(pid, 0, 20.0)) *started = 0;
  return pid;
}

static void finish(pid_t pid) {
  kill(pid, SIGTERM);
  int status = 0; double t0 = nowf();
  for (;;) {
    pid_t w = waitpid(pid, &status, WNOHANG);
    if (w == pid) break;
    if (nowf() - t0 > 10.0) { kill(pid, SIGKILL); waitpid(pid, &status, 0); break; }
    struct pollfd pf = { rd_clean, POLLIN, 0 };
    if (poll(&pf, 1, 1) > 0 && (pf.revents & POLLIN)) { char ch; if (read(rd_clean, &ch, 1) == 1 && !ch) { if (write(wr_clean, "+", 1) != 1) {} } }
  }
  close(p2w); close(p4w); close(rd_clean); close(wr_clean);
  if (gate_pw >= 0) { close(gate_pw); close(gate_pr); gate_pw = gate_pr = -1; }
  if (GT) { GT->armed = 0; GT->pid = 0; }
  for (int c = 0; c < 2; c++) if (lrd[c] >= 0) { close(lrd[c]); lrd[c] = -1; }
  if (!(WIFEXITED(status) && (WEXITSTATUS(status) == 0 || WEXITSTATUS(status) == 111))) {
    /* the daemon crashed (sanitizer report or signal): show it, the check treats stderr + exit code as an error */
    fprintf(stderr, "c10_route: qmail-send child ended abnormally (status 0x%x)\n", status);
    char cmd[9400];
    if (!daemon_crashes++) {                               /* the first report in full */
      snprintf(cmd, sizeof cmd, "cat %s/asan.* %s/log 1>&2 2>/dev/null", auto_qmail, auto_qmail);
      if (system(cmd)) {}
    }
    /* the run goes on with a fresh queue (the other scenarios are still judged); the harness exits with 3 at the end */
    snprintf(cmd, sizeof cmd, "rm -rf '%s/queue' '%s'/asan.*", auto_qmail, auto_qmail);
    if (system(cmd)) {}
    mkdirs();
  }
}

static unsigned long next_id = 1000;

static void inject(unsigned long id, const hbuf *todo) {
  char path[4600];
  snprintf(path, sizeof path, "%s/mess/%lu/%lu", qdir, id % auto_split, id); put_file(path, (unsigned char *)"x", 1);
  snprintf(path, sizeof path, "%s/todo/%lu", qdir, id); put_file(path, todo->p, todo->n);
  snprintf(path, sizeof path, "%s/lock/trigger", qdir);
  int tf = open(path, O_WRONLY | O_NONBLOCK);
  if (tf >= 0) { if (write(tf, "", 1) != 1) {} close(tf); }
}

static void pull_trigger(void) {
  char path[4600];
  snprintf(path, sizeof path, "%s/lock/trigger", qdir);
  int tf = open(path, O_WRONLY | O_NONBLOCK);
  if (tf >= 0) { if (write(tf, "", 1) != 1) {} close(tf); }
}

/* after SIGHUP (A) was sent with the gate armed: 1 = the daemon is held at its k-th call, 0 = it is blocked in select()
 * again without having made that many calls, -1 = timeout / daemon gone */
static int wait_gate(pid_t pid, double timeout) {
  double t0 = nowf(); int idle_seen = 0;
  for (;;) {
    struct pollfd pf = { gate_pr, POLLIN, 0 };
    int r = poll(&pf, 1, 1);
    if (r > 0 && (pf.revents & POLLIN)) { char c; return read(gate_pr, &c, 1) == 1 ? 1 : -1; }
    if (r > 0) return -1;
    int st = child_idle(pid);
    if (st < 0) return -1;
    if (st == 1) { if (++idle_seen >= 2) return 0; } else idle_seen = 0;
    if (nowf() - t0 > timeout) return -1;
  }
}

static void do_S(const files *F0, step *st, int nst) {
  char path[4600];
  int started;
  pid_t pid = launch(F0, 0, &started);
  int endgrp = 0, skipping = 0;
  fputs("S", h_out); out_files(F0); fprintf(h_out, " %d %d", started, started ? nst : 0);
  for (int k = 0; started && k < nst; k++) {
    step *s = &st[k];
    /* a sweep group (I k=0; M; I k=1; M; ...) ends with the first I step whose k is past the daemon's last call */
    if (s->grp && s->grp == endgrp && (skipping || s->kind == 'I' || s->kind == 'J')) { skipping = 1; continue; }
    if (s->kind == 'J') {
      /* failing re-read: f1 written, SIGHUP in select(), the k-th call of reread() fails (open_read: EACCES, read: EIO,
       * chdir: EACCES, close: closed but EIO), daemon idle again */
      write_files(&s->F);
      fprintf(h_out, " J %d", s->k); out_files(&s->F);
      GT->k = s->k; GT->count = 0; GT->mask = 0; GT->mask_at = 0; GT->reached = 0; GT->which = 0; GT->fired = 0;
      GT->curfile = 0; GT->rdidx = 0; GT->ffile = 0; GT->fidx = 0; GT->nosleep = 0; GT->slept = 0; GT->mode = 1; GT->pid = pid;
      GT->armed = 1;
      kill(pid, SIGHUP);
      int ok = service(pid, 0, 20.0);
      GT->armed = 0; GT->mode = 0;
      if (!ok) { started = 0; break; }
      fprintf(h_out, " %s %s %d", gate_names[GT->fired ? GT->which : 0], ctl_names[GT->fired ? GT->ffile : 0], GT->fired ? GT->fidx : 0);
      if (!GT->fired && s->grp) endgrp = s->grp;
      continue;
    }
    if (s->kind == 'I') {
      write_files(&s->F);
      fprintf(h_out, " I %d", s->k); out_files(&s->F); out_files(&s->F2);
      GT->k = s->k; GT->count = 0; GT->mask = 0; GT->mask_at = 0; GT->reached = 0; GT->which = 0; GT->pid = pid;
      GT->armed = 1;
      kill(pid, SIGHUP);                                   /* (A): select() returns EINTR, the loop top calls reread() */
      int held = wait_gate(pid, 20.0);
      GT->armed = 0;
      if (held < 0) { started = 0; break; }
      write_files_atomic(&s->F2);
      kill(pid, SIGHUP);                                   /* (B) */
      if (held) { if (write(gate_pw, "g", 1) != 1) { started = 0; break; } }
      if (!service(pid, 0, 20.0)) { started = 0; break; }
      pull_trigger();                                      /* select() returns, empty todo run, the loop passes its top */
      if (!service(pid, 0, 20.0)) { started = 0; break; }
      fprintf(h_out, " %d %s", held ? GT->mask_at : 3, gate_names[held ? GT->which : 0]);
      if (!held && s->grp) endgrp = s->grp;
      continue;
    }
    if (s->kind == 'M') {
      unsigned long id = next_id++;
      inject(id, &s->todo);
      fputs(" M ", h_out); h_hex(s->todo.p, s->todo.n);
      int sv = service(pid, id, 20.0);
      if (!sv) { fputs(" ? ? ?", h_out); started = 0; break; }
      if (sv == 2) {                                       /* goto fail: the message stays in todo/; take it away */
        static const char *sub[] = { "info", "local", "remote" };
        fputs(" ! ! !", h_out);
        for (int q = 0; q < 3; q++) { snprintf(path, sizeof path, "%s/%s/%lu/%lu", qdir, sub[q], id % auto_split, id); unlink(path); }
        snprintf(path, sizeof path, "%s/todo/%lu", qdir, id); unlink(path);
        snprintf(path, sizeof path, "%s/mess/%lu/%lu", qdir, id % auto_split, id); unlink(path);
        continue;
      }
      out_qfile("info", id); out_qfile("local", id); out_qfile("remote", id);
      snprintf(path, sizeof path, "%s/todo/%lu", qdir, id); unlink(path);
      snprintf(path, sizeof path, "%s/mess/%lu/%lu", qdir, id % auto_split, id); unlink(path);
      if (write(wr_clean, "+", 1) != 1) { started = 0; break; }
      if (!service(pid, 0, 20.0)) { started = 0; break; }
    } else {
      write_files(&s->F);
      fprintf(h_out, " %c", s->kind); out_files(&s->F);
      if (s->kind == 'H') {
        kill(pid, SIGHUP);
        if (!service(pid, 0, 20.0)) { started = 0; break; }
      }
    }
  }
  fputc('\n', h_out);
  finish(pid);
}

/* Z: start-up with the k-th gated call (chdir / open_read / read / close, from main()'s chdir(auto_qmail) to its
 * chdir("queue")) failing */
static void do_Z(const files *F0, int k) {
  int started;
  start_fault_k = k;
  pid_t pid = launch(F0, 0, &started);
  start_fault_k = -1;
  int fired = GT->fired, which = GT->which, ffile = GT->ffile, fidx = GT->fidx;
  GT->armed = 0; GT->mode = 0;
  fprintf(h_out, "Z %d", k); out_files(F0);
  fprintf(h_out, " %d %s %s %d\n", started, gate_names[fired ? which : 0], ctl_names[fired ? ffile : 0], fired ? fidx : 0);
  finish(pid);
}
static int last_Z_fired(void) { return GT->fired; }

static void rec_hex(hbuf *b, const unsigned char *p, size_t n) {
  badd(b, " ", 1);
  if (!n) { badd(b, "-", 1); return; }
  for (size_t i = 0; i < n; i++) { char x[3]; snprintf(x, sizeof x, "%02x", p[i]); badd(b, x, 2); }
}

/* one message through the real daemon with delivery enabled (both spawners announce concurrency 10): we are qmail-clean
 * and both spawners; every delivery command qmail-send writes (del_start -> comm_write -> comm_do) is printed and answered
 * with a success report.   D <5 files> <started> <todo> <id> { C <chan> ok|badslot <fn> <sender> <recip> } (local first) */
static void do_D(const files *F0, const hbuf *todo) {
  int started;
  pid_t pid = launch(F0, 10, &started);
  unsigned long id = next_id++;
  fputs("D", h_out); out_files(F0); fprintf(h_out, " %d ", started); h_hex(todo->p, todo->n); fprintf(h_out, " %lu", id);
  if (started) {
    static hbuf db[2], rec[2];                             /* rec: the report text per channel (printed local first, so
                                                              that the line does not depend on how the two pipes interleave) */
    int want = 0, got = 0, cleaned = 0;
    hbuf_reset(&rec[0]); hbuf_reset(&rec[1]);
    { size_t b = 0; for (size_t i = 0; i < todo->n; i++) if (!todo->p[i]) { if (todo->p[b] == 'T') want++; b = i + 1; } }
    hbuf_reset(&db[0]); hbuf_reset(&db[1]); reqbuf.n = 0;
    inject(id, todo);
    double t0 = nowf();
    while ((got < want || !cleaned) && nowf() - t0 < 20.0) {
      struct pollfd pf[3] = { { rd_clean, POLLIN, 0 }, { lrd[0], POLLIN, 0 }, { lrd[1], POLLIN, 0 } };
      if (poll(pf, 3, 5) <= 0) continue;
      if (pf[0].revents & POLLIN) {
        char ch; if (read(rd_clean, &ch, 1) != 1) break;
        badd(&reqbuf, &ch, 1);
        if (!ch) {
          char *rq = (char *)reqbuf.p, path[4600]; reqbuf.n = 0;
          if (!strncmp(rq, "todo/", 5)) { snprintf(path, sizeof path, "%s/todo/%lu", qdir, strtoul(rq + 5, 0, 10)); unlink(path); cleaned = 1; }
          else if (!strncmp(rq, "foop/", 5)) { unsigned long x = strtoul(rq + 5, 0, 10);
            snprintf(path, sizeof path, "%s/mess/%lu/%lu", qdir, x % auto_split, x); unlink(path); }
          if (write(wr_clean, "+", 1) != 1) break;
        }
      } else if (pf[0].revents) break;
      for (int c = 0; c < 2; c++) if (pf[1 + c].revents & POLLIN) {
        unsigned char buf[4096]; ssize_t r = read(lrd[c], buf, sizeof buf);
        if (r <= 0) continue;
        badd(&db[c], buf, r);
        for (;;) {                                         /* complete commands: delnum fn NUL sender NUL recip NUL */
          size_t e[3]; int k = 0;
          for (size_t i = 1; i < db[c].n && k < 3; i++) if (!db[c].p[i]) e[k++] = i;
          if (k < 3) break;
          /* the delivery slot number depends on how fast we answer: only "is a valid slot" is reported */
          char hd[32]; int hn = snprintf(hd, sizeof hd, " C %d %s", c, db[c].p[0] < 10 ? "ok" : "badslot");
          badd(&rec[c], hd, hn);
          rec_hex(&rec[c], db[c].p + 1, e[0] - 1);
          rec_hex(&rec[c], db[c].p + e[0] + 1, e[1] - e[0] - 1);
          rec_hex(&rec[c], db[c].p + e[1] + 1, e[2] - e[1] - 1);
          char rep[5] = { (char)db[c].p[0], 'K', 'o', 'k', 0 };
          if (write(c ? p4w : p2w, rep, 5) != 5) {}
          got++;
          memmove(db[c].p, db[c].p + e[2] + 1, db[c].n - e[2] - 1); db[c].n -= e[2] + 1;
        }
      }
    }
    service(pid, 0, 20.0);                                 /* job closed, message removed (foop/ request), asleep again */
    for (int c = 0; c < 2; c++) if (rec[c].n) fwrite(rec[c].p, 1, rec[c].n, h_out);
  }
  fputc('\n', h_out);
  finish(pid);
}

/* ------------------------------------------------------------------ generators */
static const char *labels[] = { "a", "b", "c", "d" };
static const char *users[] = { "u", "v", "joe", "u", "", "u.v", "j-o" };
static const char *tags[] = { "t", "al-x", "w", "joe-foo" };
#define NPOOL 6
static char pool[NPOOL][40];

/* Alphabet mode (amode = 1, legs 9-11): labels, users and tags are drawn from the whole alphabet instead of the fixed
 * name lists, every occurrence of a name is re-cased independently, and recipients get near-miss edits.  Every extra
 * random draw is guarded by amode, so the classic legs (4)-(6) consume exactly the stream they always did. */
static int amode;
static char ausers[7][20], atags[4][20];
static int is_letter(int c) { return (c >= 'a' && c <= 'z') || (c >= 'A' && c <= 'Z'); }
static int flipc(int c) { return is_letter(c) ? c ^ 32 : c; }
static int gen_alabel(char *o) {          /* 1..4 bytes: letters of either case, the ends of the alphabet favoured */
  int n = 1 + h_below(4);
  for (int i = 0; i < n; i++) {
    unsigned k = h_below(24);
    int ch = k < 4 ? "azyb"[k] : k == 4 ? "0123456789-"[h_below(11)] : k == 5 ? "[`{"[h_below(3)] : 'a' + (int)h_below(26);
    if (h_below(2)) ch = flipc(ch);
    o[i] = ch;
  }
  o[n] = 0; return n;
}
static void pick_label(char *o) { if (amode) gen_alabel(o); else strcpy(o, labels[h_below(4)]); }
static const char *pick_user(void) { return amode ? ausers[h_below(7)] : users[h_below(7)]; }
static const char *pick_tag(void) { return amode ? atags[h_below(4)] : tags[h_below(4)]; }

static void gen_domain(char *o) {
  int parts = 1 + h_below(3); o[0] = 0;
  for (int i = 0; i < parts; i++) { char l[8]; if (i) strcat(o, "."); pick_label(l); strcat(o, l); }
}
static void randcase(char *s, int prob) {
  if (amode) prob = 50;
  for (; *s; s++) if (h_below(100) < (unsigned)prob) {
    if (*s >= 'a' && *s <= 'z') *s -= 32; else if (*s >= 'A' && *s <= 'Z') *s += 32; }
}
static void gen_anames(void) {            /* alphabet mode: users and tags of this configuration */
  for (int i = 0; i < 7; i++) {
    gen_alabel(ausers[i]);
    if (i == 4 && h_below(2)) ausers[i][0] = 0;
    if (i == 5) { char l[8]; gen_alabel(l); strcat(ausers[i], "."); strcat(ausers[i], l); }
    if (i == 6) { char l[8]; gen_alabel(l); strcat(ausers[i], "-"); strcat(ausers[i], l); }
  }
  for (int i = 0; i < 4; i++) { gen_alabel(atags[i]); if (i & 1) { char l[8]; gen_alabel(l); strcat(atags[i], "-"); strcat(atags[i], l); } }
}
static const char *pick_dom(void) { return pool[h_below(NPOOL)]; }

static char used[64][100]; static int nused;
static int lc_eq(const char *a, const char *b) { for (; *a && *b; a++, b++) if ((*a | 32) != (*b | 32) && *a != *b) return 0; return *a == *b; }
static int fresh_key(const char *k, int allowdup) {
  for (int i = 0; i < nused; i++) if (lc_eq(used[i], k)) return allowdup;
  if (nused < 64) strcpy(used[nused++], k);
  return 1;
}
static void add_line(hbuf *b, const char *l, int noise) {
  if (noise && h_below(8) == 0) badd(b, "# comment a\n", 12);
  if (noise && h_below(10) == 0) badd(b, "\n", 1);
  badd(b, l, strlen(l));
  if (noise && h_below(6) == 0) badd(b, " \t ", 1 + h_below(3));
  badd(b, "\n", 1);
}
static void copy_files(files *d, const files *s) {
  for (int i = 0; i < NF; i++) { hbuf_reset(&d->b[i]); d->present[i] = s->present[i]; badd(&d->b[i], s->b[i].p, s->b[i].n); }
}
static void chop_final_newline(hbuf *b) { if (b->n && h_below(5) == 0) b->n--; }

static void gen_files(files *F, int newpool) {
  char k[120];
  int noise = h_below(3) != 0, allowdup = h_below(25) == 0;
  if (newpool) { for (int i = 0; i < NPOOL; i++) gen_domain(pool[i]); if (amode) gen_anames(); }
  for (int i = 0; i < NF; i++) { hbuf_reset(&F->b[i]); F->present[i] = 0; }
  /* me */
  if (h_below(5)) { F->present[0] = 1; strcpy(k, pick_dom()); randcase(k, 10); add_line(&F->b[0], k, 0); if (h_below(6) == 0) add_line(&F->b[0], "second.line", 0); }
  /* envnoathost */
  if (h_below(3)) { F->present[1] = 1; strcpy(k, pick_dom()); randcase(k, 10);
    if (h_below(40) == 0) strcpy(k, "a@b"); if (h_below(40) == 0) strcpy(k, "a%b");
    add_line(&F->b[1], k, noise); chop_final_newline(&F->b[1]); }
  /* locals */
  if (h_below(8) || !F->present[0]) { F->present[2] = 1; nused = 0;
    int n = h_below(4);
    for (int i = 0; i < n; i++) { strcpy(k, pick_dom()); randcase(k, 15); if (fresh_key(k, allowdup)) add_line(&F->b[2], k, noise); }
    chop_final_newline(&F->b[2]); }
  /* percenthack */
  if (h_below(3)) { F->present[3] = 1; nused = 0;
    int n = h_below(4);
    for (int i = 0; i < n; i++) { strcpy(k, pick_dom()); randcase(k, 15); if (h_below(30) == 0) strcpy(k, "b@c");
      if (fresh_key(k, allowdup)) add_line(&F->b[3], k, noise); }
    chop_final_newline(&F->b[3]); }
  /* virtualdomains */
  if (h_below(6)) { F->present[4] = 1; nused = 0;
    int n = h_below(7);
    for (int i = 0; i < n; i++) {
      char key[100]; const char *d = pick_dom();
      switch (h_below(9)) {
        case 0: case 1: snprintf(key, sizeof key, "%s@%s", pick_user(), d); break;             /* virtual user */
        case 2: case 3: snprintf(key, sizeof key, "%s", d); break;                              /* domain */
        case 4: case 5: { const char *dot = strchr(d, '.'); snprintf(key, sizeof key, "%s", dot ? dot : ".a"); break; } /* wildcard */
        case 6: snprintf(key, sizeof key, ".%s", d); break;                                     /* wildcard one level up */
        case 7: if (h_below(4) == 0) snprintf(key, sizeof key, ".%s@%s", pick_user(), d); else key[0] = 0; break;   /* catch-all / dot-user */
        default: { char l[8]; pick_label(l); snprintf(key, sizeof key, ".%s", l); break; }
      }
      randcase(key, 15);
      if (!fresh_key(key, allowdup)) continue;
      const char *tag = h_below(4) == 0 ? "" : pick_tag();
      if (h_below(15) == 0) snprintf(k, sizeof k, "%s", key[0] ? key : "nocolon");               /* not an entry */
      else if (h_below(20) == 0) snprintf(k, sizeof k, "%s:%s:x", key, tag);
      else snprintf(k, sizeof k, "%s:%s", key, tag);
      add_line(&F->b[4], k, noise);
    }
    chop_final_newline(&F->b[4]); }
}

static size_t gen_recip(unsigned char *o) {
  char d1[60], d2[60], d3[60], u[20], r[400];
  strcpy(d1, pick_dom()); strcpy(d2, pick_dom()); strcpy(d3, pick_dom());
  strcpy(u, pick_user());
  if (amode) { randcase(d1, 50); randcase(d2, 50); randcase(d3, 50); randcase(u, 50); }   /* every occurrence re-cased */
  if (h_below(4) == 0) randcase(d1, 40);
  if (h_below(8) == 0) randcase(u, 50);
  if (h_below(6) == 0) { char t[60], l[8]; pick_label(l); snprintf(t, sizeof t, "%s.%s", l, d1); strcpy(d1, t); }   /* extra label */
  if (amode && h_below(8) == 0) { char *dot = strchr(d1, '.'); if (dot) memmove(d1, dot + 1, strlen(dot + 1) + 1); }   /* one label less */
  if (h_below(25) == 0) { char t[60]; snprintf(t, sizeof t, ".%s", d1); strcpy(d1, t); }
  if (h_below(25) == 0) strcat(d1, ".");
  if (h_below(30) == 0 && d1[0]) d1[strlen(d1) - 1] = 0;
  switch (h_below(14)) {
    case 0: case 1: case 2: case 3: snprintf(r, sizeof r, "%s@%s", u, d1); break;
    case 4: snprintf(r, sizeof r, "%s", u); break;
    case 5: snprintf(r, sizeof r, "%s@", u); break;
    case 6: snprintf(r, sizeof r, "%s@%s@%s", u, d2, d1); break;
    case 7: snprintf(r, sizeof r, "%s%%%s@%s", u, d2, d1); break;
    case 8: snprintf(r, sizeof r, "%s%%%s%%%s@%s", u, d3, d2, d1); break;
    case 9: snprintf(r, sizeof r, "%s%%%s@%s@%s", u, d3, d2, d1); break;
    case 10: snprintf(r, sizeof r, "@%s", d1); break;
    case 11: snprintf(r, sizeof r, "%s%%%s", u, d1); break;
    case 12: snprintf(r, sizeof r, "%s@%s%%%s@%s", u, d3, d2, d1); break;
    default: { int n = h_below(9); for (int i = 0; i < n; i++) r[i] = "u@%.aBb:"[h_below(8)]; r[n] = 0; break; }
  }
  size_t n = strlen(r); memcpy(o, r, n);
  if (amode && n && h_below(3) == 0) {      /* near miss: one letter becomes its neighbour byte / an adjacent non-letter */
    for (int tries = 0; tries < 8; tries++) {
      size_t j = h_below(n); int ch = o[j];
      if (!is_letter(ch)) continue;
      switch (h_below(3)) { case 0: o[j] = ch + 1; break; case 1: o[j] = ch - 1; break; default: o[j] = "@[`{"[h_below(4)]; break; }
      break;
    }
  }
  if (h_below(60) == 0 && n) o[h_below(n)] = 1 + h_below(255);
  return n;
}

static void gen_todo(hbuf *t) {
  unsigned char r[400]; char hd[64];
  hbuf_reset(t);
  int n = snprintf(hd, sizeof hd, "u%u", h_below(70000)); badd(t, hd, n + 1);
  n = snprintf(hd, sizeof hd, "p%u", h_below(70000)); badd(t, hd, n + 1);
  n = snprintf(hd, sizeof hd, "Fsender@%s", pick_dom()); badd(t, hd, n + 1);
  int nr = h_below(7);
  for (int i = 0; i < nr; i++) {
    size_t l = gen_recip(r);
    for (size_t j = 0; j < l; j++) if (!r[j]) r[j] = 'z';
    badd(t, "T", 1); badd(t, r, l); badd(t, "", 1);
  }
  if (h_below(6) == 0) badd(t, "Tpartial@a", 10);      /* unterminated tail: ignored */
}

/* a todo file that todo_do must refuse: gen_todo plus one empty record or one record of an unknown type, inserted at
 * the start or right after one of the NULs (so every other record stays what it was) */
static void gen_todo_bad(hbuf *t) {
  static hbuf g; static const char *bad[] = { "", "Zjunk", "tu@a", "\377x", "fsender@a", " Tu@a" };
  hbuf_reset(&g); gen_todo(&g);
  size_t nn = 0; for (size_t i = 0; i < g.n; i++) if (!g.p[i]) nn++;
  size_t k = h_below(nn + 1), pos = 0;
  for (size_t i = 0; i < g.n && k; i++) if (!g.p[i]) { k--; pos = i + 1; }
  const char *b = bad[h_below(6)];
  hbuf_reset(t); badd(t, g.p, pos); badd(t, b, strlen(b) + 1); badd(t, g.p + pos, g.n - pos);
}


/* ------------------------------------------------------------------ legs (14), (15): helpers */
static void ensure_nl(hbuf *b) { if (b->n && b->p[b->n - 1] != '\n') badd(b, "\n", 1); }

/* three domains whose class is fixed whatever else the generated files say: bigdom[0] is listed in locals, bigdom[1]
 * has a virtualdomains entry with the prepend bigtag, bigdom[2] has an exception entry (empty prepend: remote even
 * under a catch-all).  The names start with a digit label, so they are no key of the generated part of the files. */
static char bigdom[3][64], bigtag[24];
static void gen_bigdoms(void) {
  static const char *pre[3] = { "0l", "0v", "0r" };
  for (int i = 0; i < 3; i++) {
    if (h_below(3)) snprintf(bigdom[i], sizeof bigdom[i], "%s.%s", pre[i], pool[h_below(NPOOL)]);
    else snprintf(bigdom[i], sizeof bigdom[i], "%s%u.example", pre[i], h_below(10));
  }
  snprintf(bigtag, sizeof bigtag, "%s", h_below(2) ? "vt" : "alias-big");
}
static void add_classes(files *F) {
  char l[200];
  F->present[2] = 1; ensure_nl(&F->b[2]); snprintf(l, sizeof l, "%s\n", bigdom[0]); badd(&F->b[2], l, strlen(l));
  F->present[4] = 1; ensure_nl(&F->b[4]);
  snprintf(l, sizeof l, "%s:%s\n%s:\n", bigdom[1], bigtag, bigdom[2]); badd(&F->b[4], l, strlen(l));
}

/* one recipient record "T<serial><user>@<domain>\0" of class cls (0 local, 1 virtual, 2 remote; 3: gen_recip, whatever
 * it routes to); ulen = length of the generated part of the user.  Returns the length of the record the documented
 * rules put into the channel file (cls 0-2; 0 for cls 3) */
static size_t big_record(hbuf *t, int cls, int serial, size_t ulen) {
  static const char ua[] = "abcdefghijklmnopqrstuvwxyzABCDEFGHIJKLMNOPQRSTUVWXYZ0123456789-._=+";
  unsigned char r[400]; char d[64], sn[16];
  size_t before = t->n;
  badd(t, "T", 1);
  if (cls == 3) {
    size_t l = gen_recip(r);
    for (size_t j = 0; j < l; j++) if (!r[j]) r[j] = 'z';
    badd(t, r, l); badd(t, "", 1);
    return 0;
  }
  int n = snprintf(sn, sizeof sn, "%03d", serial); badd(t, sn, n);
  for (size_t i = 0; i < ulen; i++) { char c = ua[h_below(sizeof ua - 1)]; badd(t, &c, 1); }
  strcpy(d, bigdom[cls]); if (h_below(3) == 0) { int sv = amode; amode = 1; randcase(d, 50); amode = sv; }
  badd(t, "@", 1); badd(t, d, strlen(d)); badd(t, "", 1);
  return t->n - before + (cls == 1 ? strlen(bigtag) + 1 : 0);
}

#define CHANBUF 1024          /* todo_do's per-channel output buffer (char todobufchan[CHANNELS][1024]) */
/* user length for the next record of a channel that has received `have` bytes: now and then chosen so that the record
 * ends exactly at, one short of, or one past a multiple of the channel buffer size */
static size_t big_ulen(int lenmode, size_t have, size_t fixed) {
  size_t ul;
  int m = lenmode == 3 ? (int)h_below(3) : lenmode;
  ul = m == 0 ? h_below(12) : m == 1 ? 16 + h_below(40) : 70 + h_below(200);
  if (m == 2 && h_below(30) == 0) ul = 900 + h_below(1300);             /* one record longer than a whole channel buffer */
  if (h_below(4) == 0) {
    size_t next = (have / CHANBUF + 1) * CHANBUF + h_below(3) - 1;      /* boundary - 1, boundary, boundary + 1 */
    if (next >= have + fixed && next - have - fixed <= 290) ul = next - have - fixed;
  }
  return ul;
}

/* a message with many recipients: the bytes per channel file are swept over 0.5x .. 3x of the channel buffer size, in
 * every mix: alternating, blocks, one remote among many local and vice versa, random mixes; short, medium, long and
 * mixed address lengths.  Every generated recipient carries a serial number, so a dropped, duplicated, merged or
 * misplaced record cannot be mistaken for another one. */
static void gen_todo_big(hbuf *t) {
  char hd[128];
  hbuf_reset(t);
  int n = snprintf(hd, sizeof hd, "u%u", h_below(70000)); badd(t, hd, n + 1);
  n = snprintf(hd, sizeof hd, "p%u", h_below(70000)); badd(t, hd, n + 1);
  badd(t, "Fsender", 7);
  if (h_below(8) == 0) { int l = 300 + h_below(500); for (int i = 0; i < l; i++) badd(t, "s", 1); }   /* info/<id> has a 512-byte buffer */
  n = snprintf(hd, sizeof hd, "@%s", pick_dom()); badd(t, hd, n + 1);
  int pattern = h_below(6), lenmode = h_below(4);
  size_t want[2], have[2] = { 0, 0 };                      /* bytes per channel: 0 local (local + virtual), 1 remote */
  for (int c = 0; c < 2; c++) want[c] = CHANBUF / 2 + h_below(CHANBUF * 5 / 2 + 1);
  if (h_below(6) == 0) want[h_below(2)] = CHANBUF * 3 + h_below(CHANBUF * 3);   /* now and then more than todo_do's 8 KB input buffer in all */
  int lone = -1;                                           /* patterns 2/3: the channel that gets a single record */
  if (pattern == 2) lone = 1; else if (pattern == 3) lone = 0;
  if (lone >= 0) want[lone] = 1;
  int lonepos = h_below(4);                                /* first, last, middle, random */
  size_t lonetrig = lonepos == 0 ? 0 : lonepos == 1 ? (size_t)-1 : lonepos == 2 ? want[!lone] / 2 : h_below(want[!lone] + 1);
  int ch = h_below(2), serial = 0, pmix = 5 + h_below(90);
  size_t blockleft = 0;
  for (int guard = 0; guard < 900; guard++) {
    int open0 = have[0] < want[0], open1 = have[1] < want[1];
    if (lone >= 0) {                                       /* the lone record goes in when the other channel reached lonetrig */
      int other = !lone, loneopen = have[lone] == 0;
      if (loneopen && (have[other] >= lonetrig || have[other] >= want[other])) ch = lone;
      else if (have[other] < want[other]) ch = other;
      else break;
    } else {
      if (!open0 && !open1) break;
      switch (pattern) {
        case 0: ch = !ch; break;                                                   /* alternating */
        case 1: if (!blockleft) { ch = !ch; blockleft = 1 + h_below(40); } blockleft--; break;   /* blocks of records */
        case 4: ch = h_below(100) < (unsigned)pmix; break;                         /* random mix, any proportion */
        default: if (!blockleft) { ch = !ch; blockleft = 100 + h_below(1400); }    /* blocks of bytes */
                 break;
      }
      if (ch == 0 && !open0) ch = 1; else if (ch == 1 && !open1) ch = 0;
    }
    int cls = ch == 1 ? 2 : (int)h_below(2);
    if (lone < 0 && h_below(40) == 0) { big_record(t, 3, 0, 0); continue; }       /* a recipient of the usual kind in between */
    size_t fixed = 1 + 3 + 1 + strlen(bigdom[cls]) + 1 + (cls == 1 ? strlen(bigtag) + 1 : 0);
    size_t got = big_record(t, cls, serial++ % 1000, big_ulen(lenmode, have[ch], fixed));
    have[ch] += got;
    if (pattern == 5) { if (blockleft > got) blockleft -= got; else blockleft = 0; }
  }
  if (h_below(8) == 0) badd(t, "Tpartial@a", 10);
}

static const char *fixed_cfg[3][NF] = {
  /* me, envnoathost, locals, percenthack, virtualdomains */
  { "a\n", "u.a\n", "a\nA.u\n", "a\nu.a\nu\n", "u@u:t\nu:v\n.u:w\n.a.u:\nu@u.u:\n" },
  { 0, "a\n", "u\n", "a\n", "a:x\n:c\n.a:\nu@a.a:y\n" },
  { "u\n", 0, 0, "u\na.a\n", "u@a:p\n.a:q\nu.a:\n.u@a:z\n" },
};

static void load_fixed(files *F, int c) {
  for (int i = 0; i < NF; i++) { hbuf_reset(&F->b[i]); F->present[i] = fixed_cfg[c][i] != 0;
    if (F->present[i]) badd(&F->b[i], fixed_cfg[c][i], strlen(fixed_cfg[c][i])); }
}

/* ------------------------------------------------------------------ letter legs (seed-independent) */
/* the 56 bytes '@'..'[' and '`'..'{': every letter in both cases and the four non-letters adjacent to the two ranges */
static int letter_byte(int i) { return i < 28 ? '@' + i : '`' + (i - 28); }

/* expand a template: P -> p, Q -> p with the case flipped, everything else literal */
static size_t expand(unsigned char *o, const char *t, int p) {
  size_t n = 0;
  for (; *t; t++) o[n++] = *t == 'P' ? p : *t == 'Q' ? flipc(p) : (unsigned char)*t;
  return n;
}
static void fadd(files *F, int i, const char *t, int p) {
  unsigned char b[64]; size_t n = expand(b, t, p);
  F->present[i] = 1; badd(&F->b[i], b, n);
}
/* one control directory in which the byte k is a one-letter label of an entry of every kind; the other labels are
 * digits, so that no key is repeated whatever k is.  e = the spelling used in envnoathost */
static void letter_cfg(files *F, int k, int e, int catchall) {
  for (int i = 0; i < NF; i++) { hbuf_reset(&F->b[i]); F->present[i] = 0; }
  fadd(F, 0, "9\n", 0);
  fadd(F, 1, "P.2\n", e);
  fadd(F, 2, "P\nP.1\n1.P\nP.2\n", k);
  fadd(F, 3, "P.3\nP\n", k);
  fadd(F, 4, "u@P.4:t1\nP.5:t2\n.P.6:t3\nP@P.7:t4\n.P:t5\nP.8:\nuPv@0:t6\n", k);
  if (catchall) fadd(F, 4, ":t9\n", 0);
}
static const char *letter_probes[] = {
  "u@P", "u@P.1", "u@1.P", "u@P.2", "P", "u@P.4", "v@P.4", "u@P.5", "u@0.P.5", "u@0.P.6", "u@P.6", "u@0.0.P.6", "u@0.Q.6",
  "P@P.7", "Q@P.7", "P@Q.7", "u@0.P", "u@P.8", "u@0.P.8", "uPv@0", "upv@0", "u%P.1@P.3", "u%P.1@Q.3", "u%Q.1@P.3",
  "u%P.1%P.3@P", "u%P.5@Q", "u%P.5%Q@P.3" };
static const char *letter_kbufs[] = { "P\0", "xPy\0", "PP\0", "P:v\0", "xPy:w\0", "0\0P\0" "1\0", "0:a\0P:b\0Q.:c\0" };
static const int letter_kbuflen[] = { 2, 4, 3, 4, 6, 6, 13 };
static const int letter_kfc[] = { 0, 0, 0, 1, 1, 0, 1 };
static const char *letter_kkeys[] = { "P", "xPy", "XPY", "PP", "PQ", "P." };

/* ------------------------------------------------------------------ stdin mode */
#define NSTEPS 64
static files SF; static step steps[NSTEPS];

static void stdin_mode(void) {
  static char line[1 << 21];
  static unsigned char a[1 << 20], b[1 << 20];
  while (fgets(line, sizeof line, stdin)) {
    char *tok[1200]; int nt = 0;
    for (char *p = strtok(line, " \n"); p && nt < 1200; p = strtok(0, " \n")) tok[nt++] = p;
    if (!nt) continue;
    if (!strcmp(tok[0], "G") && nt >= 6) { for (int i = 0; i < NF; i++) set_file(&SF, i, tok[1 + i]); do_G(&SF); }
    else if (!strcmp(tok[0], "R") && nt >= 2) { int n = unhex(tok[1], a); do_R(a, n); }
    else if (!strcmp(tok[0], "V") && nt >= 5) { int n = unhex(tok[1], a), m = unhex(tok[2], b); do_V(a, n, b, m, atoi(tok[3]), strtoul(tok[4], 0, 10)); }
    else if (!strcmp(tok[0], "K") && nt >= 4) { int n = unhex(tok[1], a), m = unhex(tok[3], b); do_K(a, n, atoi(tok[2]), b, m); }
    else if (!strcmp(tok[0], "X") && nt >= 2) { int n = unhex(tok[1], a); do_X(a, n); }
    else if (!strcmp(tok[0], "B") && nt >= 3) { int n = unhex(tok[2], a); do_B(atoi(tok[1]), a, n); }
    else if (!strcmp(tok[0], "D") && nt >= 8) {
      static hbuf dt;
      for (int i = 0; i < NF; i++) set_file(&SF, i, tok[1 + i]);
      hbuf_reset(&dt); int n = unhex(tok[7], a); badd(&dt, a, n);
      do_D(&SF, &dt);
    }
    else if (!strcmp(tok[0], "Z") && nt >= 7) { for (int i = 0; i < NF; i++) set_file(&SF, i, tok[2 + i]); do_Z(&SF, atoi(tok[1])); }
    else if (!strcmp(tok[0], "S") && nt >= 6) {
      for (int i = 0; i < NF; i++) set_file(&SF, i, tok[1 + i]);
      int ns = 0, i = 6;
      /* optional "<started> <n>" copied from an output line */
#define ISSTEP(t) (!strcmp(t, "M") || !strcmp(t, "H") || !strcmp(t, "E") || !strcmp(t, "I") || !strcmp(t, "J"))
      while (i < nt && !ISSTEP(tok[i])) i++;
      while (i < nt && ns < NSTEPS) {
        step *s = &steps[ns];
        s->grp = 0;
        if (!strcmp(tok[i], "M") && i + 1 < nt) {
          s->kind = 'M'; hbuf_reset(&s->todo); int n = unhex(tok[i + 1], a); badd(&s->todo, a, n); ns++;
          i += 2; while (i < nt && !ISSTEP(tok[i])) i++;
        } else if (!strcmp(tok[i], "I") && i + 1 + 2 * NF < nt + 0) {
          s->kind = 'I'; s->k = atoi(tok[i + 1]);
          for (int j = 0; j < NF; j++) { set_file(&s->F, j, tok[i + 2 + j]); set_file(&s->F2, j, tok[i + 2 + NF + j]); }
          ns++; i += 2 + 2 * NF; while (i < nt && !ISSTEP(tok[i])) i++;
        } else if (!strcmp(tok[i], "J") && i + 1 + NF < nt + 0) {
          s->kind = 'J'; s->k = atoi(tok[i + 1]);
          for (int j = 0; j < NF; j++) set_file(&s->F, j, tok[i + 2 + j]);
          ns++; i += 2 + NF; while (i < nt && !ISSTEP(tok[i])) i++;
        } else if ((!strcmp(tok[i], "H") || !strcmp(tok[i], "E")) && i + NF < nt + 0) {
          s->kind = tok[i][0]; for (int j = 0; j < NF; j++) set_file(&s->F, j, tok[i + 1 + j]); ns++; i += 1 + NF;
        } else break;
      }
      do_S(&SF, steps, ns);
    }
  }
}

static void cleanup_tmp(void) {
  if (auto_qmail[0]) { char cmd[4400]; snprintf(cmd, sizeof cmd, "rm -rf '%s'", auto_qmail); if (system(cmd)) {} }
}

int main(int argc, char **argv) {
  h_init_out();
  /* scratch qmail home: next to the harness binary (inside the check's scratch build, removed with it), else /tmp */
  char based[4000]; const char *base = getenv("C10_TMP");
  if (!base || !*base) {
    base = "/tmp";
    const char *sl = argv[0][0] == '/' ? strrchr(argv[0], '/') : 0;
    if (sl && (size_t)(sl - argv[0]) < sizeof based - 1 && sl > argv[0]) {
      memcpy(based, argv[0], sl - argv[0]); based[sl - argv[0]] = 0;
      if (access(based, W_OK) == 0) base = based;
    }
  }
  snprintf(auto_qmail, sizeof auto_qmail, "%s/c10h-XXXXXX", base);
  if (!mkdtemp(auto_qmail)) { perror("mkdtemp"); return 2; }
  atexit(cleanup_tmp);
  snprintf(qdir, sizeof qdir, "%s/queue", auto_qmail);
  mkdirs();
  if (chdir(auto_qmail)) { perror("chdir"); return 2; }
  GT = mmap(0, sizeof *GT, PROT_READ | PROT_WRITE, MAP_SHARED | MAP_ANONYMOUS, -1, 0);
  if (GT == MAP_FAILED) { perror("mmap"); return 2; }
  memset((void *)GT, 0, sizeof *GT);

  if (argc > 1 && !strcmp(argv[1], "-")) { stdin_mode(); fflush(h_out); return daemon_crashes ? 3 : 0; }

  int explen = h_argi(argc, argv, 1, 5), nconfigs = h_argi(argc, argv, 2, 200), nscen = h_argi(argc, argv, 3, 32);
  uint64_t seed = (uint64_t)h_argi(argc, argv, 4, 1);
  int shard = h_argi(argc, argv, 5, 0), nshards = h_argi(argc, argv, 6, 1);
  static files F; static unsigned char r[70000];
  uint64_t id = 0;

  /* (1) exhaustive, seed-independent: every address over {u,a,A,@,%,.} up to explen under three fixed configurations */
  static const unsigned char alpha[6] = { 'u', 'a', 'A', '@', '%', '.' };
  for (int c = 0; c < 3; c++) {
    load_fixed(&F, c); do_G(&F);
    int maxl = c == 0 ? explen : explen - 1;
    for (int len = 0; len <= maxl; len++) {
      uint64_t total = 1; for (int i = 0; i < len; i++) total *= 6;
      for (uint64_t k = 0; k < total; k++, id++) {
        if ((int)(id % nshards) != shard) continue;
        uint64_t v = k; for (int i = 0; i < len; i++) { r[i] = alpha[v % 6]; v /= 6; }
        do_R(r, len);
      }
    }
  }
  /* (2) exhaustive VERP senders over {a,@,-,[,]} up to length 5, bare and with "-@[]" appended, x 7 recipients */
  {
    static const unsigned char va[5] = { 'a', '@', '-', '[', ']' };
    static const char *vr[] = { "r@d", "r", "", "r@", "@d", "a@b@c", "r=x@d.e" };
    for (int len = 0; len <= 5; len++) {
      uint64_t total = 1; for (int i = 0; i < len; i++) total *= 5;
      for (uint64_t k = 0; k < total; k++, id++) {
        if ((int)(id % nshards) != shard) continue;
        uint64_t v = k; for (int i = 0; i < len; i++) { r[i] = va[v % 5]; v /= 5; }
        const char *rc = vr[k % 7];
        do_V(r, len, (const unsigned char *)rc, strlen(rc), (int)(k % 120), 1000 + k * 7);
        memcpy(r + len, "-@[]", 4);
        do_V(r, len + 4, (const unsigned char *)rc, strlen(rc), (int)(k % 120), 77 + k);
        if (len <= 3) for (int j = 0; j < 7; j++) do_V(r, len + 4, (const unsigned char *)vr[j], strlen(vr[j]), 1, k);
      }
    }
  }
  /* (3) hash() and byte_rchr/case_diffb on every single byte and on short strings */
  for (int c = 0; c < 256; c++, id++) {
    if ((int)(id % nshards) != shard) continue;
    r[0] = c; do_X(r, 1); r[1] = 'Q'; r[2] = c; do_X(r, 3); do_B('@', r, 3); do_B(c, r, 3);
  }
  for (int len = 0; len <= 6; len++) {
    uint64_t total = 1; for (int i = 0; i < len; i++) total *= 3;
    for (uint64_t k = 0; k < total; k++, id++) {
      if ((int)(id % nshards) != shard) continue;
      uint64_t v = k; for (int i = 0; i < len; i++) { r[i] = "@a%"[v % 3]; v /= 3; }
      do_B('@', r, len); do_B('%', r, len);
    }
  }

  /* (4) seeded: generated configurations x generated recipients */
  h_seed(seed * 1000003ull + 17 * shard + 1);
  for (int c = 0; c < nconfigs; c++) {
    if ((c % nshards) != shard) continue;
    gen_files(&F, 1); do_G(&F);
    int nr = 24 + h_below(16);
    for (int i = 0; i < nr; i++) { size_t n = gen_recip(r); do_R(r, n); }
    /* VERP with generated recipients */
    for (int i = 0; i < 3; i++) {
      size_t n = gen_recip(r); unsigned char s[200]; size_t sn;
      for (size_t j = 0; j < n; j++) if (!r[j]) r[j] = 'z';
      sn = snprintf((char *)s, sizeof s, "%s%s%s%s", "list-", h_below(5) ? "@" : "", pick_dom(), h_below(6) ? "-@[]" : "-@[");
      do_V(s, sn, r, n, h_below(120), h_below(100000));
    }
  }
  /* (5) seeded: constmap directly — small and large tables, colliding keys, case variants */
  for (int c = 0; c < nconfigs; c++) {
    if ((c % nshards) != shard) continue;
    static hbuf b; hbuf_reset(&b);
    int fc = h_below(2), big = h_below(6) == 0;
    int n = big ? 60 + h_below(260) : h_below(7);
    int klen = big ? 3 : 2;
    static char keys[400][8]; int nk = 0;
    for (int i = 0; i < n; i++) {
      char k[8]; int l = h_below(klen + 1);
      for (int j = 0; j < l; j++) k[j] = "abAB.@cd"[h_below(big ? 8 : 5)];
      k[l] = 0;
      if (!big || h_below(4)) { int dup = 0; for (int j = 0; j < nk; j++) if (lc_eq(keys[j], k)) dup = 1; if (dup) continue; }
      strcpy(keys[nk++], k);
      badd(&b, k, l);
      if (fc && h_below(12)) { char v[8]; int vl = h_below(3); v[0] = ':'; for (int j = 0; j < vl; j++) v[1 + j] = "xy:"[h_below(3)]; badd(&b, v, 1 + vl); }
      badd(&b, "", 1);
    }
    if (h_below(5) == 0) badd(&b, "tail", 4);
    for (int q = 0; q < (big ? 24 : 8); q++) {
      char k[8]; int l;
      if (nk && h_below(3)) { strcpy(k, keys[h_below(nk)]); randcase(k, 40); l = strlen(k); if (h_below(8) == 0 && l < 6) { k[l++] = 'a'; k[l] = 0; } }
      else { l = h_below(4); for (int j = 0; j < l; j++) k[j] = "abAB.@cd"[h_below(8)]; k[l] = 0; }
      do_K(b.p, b.n, fc, (unsigned char *)k, l);
    }
    for (int q = 0; q < 4; q++) { size_t l = h_below(12); for (size_t j = 0; j < l; j++) r[j] = h_below(256); do_X(r, l); }
  }
  /* (6) seeded: the real main() with SIGHUP between messages */
  for (int c = 0; c < nscen; c++) {
    if ((c % nshards) != shard) continue;
    gen_files(&F, 1);
    if (!F.present[0] && !F.present[2] && h_below(3)) { F.present[2] = 1; }
    int ns = 0;
    int m1 = 1 + h_below(2);
    for (int i = 0; i < m1; i++) { steps[ns].kind = 'M'; gen_todo(&steps[ns].todo); ns++; }
    { /* rewrite the control files (same domain pool), HUP */
      gen_files(&steps[ns].F, 0);
      steps[ns].kind = h_below(6) ? 'H' : 'E'; ns++; }
    int m2 = 1 + h_below(2);
    for (int i = 0; i < m2; i++) { steps[ns].kind = 'M'; gen_todo(&steps[ns].todo); ns++; }
    if (h_below(2)) {
      gen_files(&steps[ns].F, 0);
      steps[ns].kind = h_below(2) ? 'H' : 'E'; ns++;
      steps[ns].kind = 'M'; gen_todo(&steps[ns].todo); ns++;
    }
    do_S(&F, steps, ns);
  }

  /* (7) exhaustive, seed-independent letter leg: every letter A..Z a..z and the four adjacent non-letters @ [ ` { as a
   * one-letter label in envnoathost, locals, percenthack and every kind of virtualdomains entry (user@domain, domain,
   * .suffix wildcard, with and without catch-all, exception), the key written in either case, envnoathost in either case,
   * probed with the same byte, the other case, both neighbour bytes and the byte that differs in bit 5 only */
  for (int li = 0; li < 56; li++) {
    int c = letter_byte(li);
    for (int v = 0; v < 8; v++) {
      if (!is_letter(c) && (v & 3)) continue;
      int k = (v & 1) ? flipc(c) : c, e = (v & 2) ? flipc(k) : k;
      int doit = (int)(id++ % nshards) == shard;
      if (!doit) continue;
      letter_cfg(&F, k, e, v >> 2); do_G(&F);
      int ps[5] = { c, flipc(c), c + 1, c - 1, c ^ 32 };
      for (int pi = 0; pi < 5; pi++) {
        int dup = 0; for (int pj = 0; pj < pi; pj++) if (ps[pj] == ps[pi]) dup = 1;
        if (dup) continue;
        for (unsigned t = 0; t < sizeof letter_probes / sizeof letter_probes[0]; t++) { size_t n = expand(r, letter_probes[t], ps[pi]); do_R(r, n); }
      }
      do_R((const unsigned char *)"u", 1); do_R((const unsigned char *)"u@", 2); do_R(r, 0);
    }
  }
  /* (8) the same bytes through constmap_init/constmap directly: single entries, the byte inside a longer key, and tables
   * listing the whole alphabet in one case probed with every byte in both cases */
  for (int li = 0; li < 56; li++, id++) {
    if ((int)(id % nshards) != shard) continue;
    int c = letter_byte(li);
    int ps[5] = { c, flipc(c), c + 1, c - 1, c ^ 32 };
    for (unsigned b = 0; b < sizeof letter_kbufs / sizeof letter_kbufs[0]; b++) {
      unsigned char buf[32]; size_t bn = 0;
      for (int j = 0; j < letter_kbuflen[b]; j++) { int ch = (unsigned char)letter_kbufs[b][j]; buf[bn++] = ch == 'P' ? c : ch == 'Q' ? flipc(c) : ch; }
      for (int pi = 0; pi < 5; pi++) for (unsigned t = 0; t < sizeof letter_kkeys / sizeof letter_kkeys[0]; t++) {
        size_t n = expand(r, letter_kkeys[t], ps[pi]); do_K(buf, bn, letter_kfc[b], r, n); }
    }
    for (int up = 0; up < 2; up++) for (int fc = 0; fc < 2; fc++) {
      static hbuf tb; hbuf_reset(&tb);
      for (int j = 0; j < 26; j++) { char e[4] = { (char)((up ? 'A' : 'a') + j), ':', (char)('a' + (j * 7) % 26), 0 }; badd(&tb, e, fc ? 3 : 1); badd(&tb, "", 1); }
      for (int pi = 0; pi < 5; pi++) { r[0] = ps[pi]; do_K(tb.p, tb.n, fc, r, 1); }
    }
    for (int pi = 0; pi < 5; pi++) { r[0] = 'k'; r[1] = ps[pi]; r[2] = '.'; r[3] = ps[pi]; do_X(r, 4); do_B(ps[pi], r, 4); }
  }

  /* (9)-(11) seeded alphabet legs (their own stream, so legs (4)-(6) above are unchanged): labels, users and tags are random
   * strings over the whole alphabet (ends of the alphabet favoured, occasional digits - and [ ` {), every occurrence in a
   * control file and in a recipient is re-cased independently, recipients get near misses (a letter replaced by the next /
   * previous byte or by one of @ [ ` {, one label more, one label less) */
  h_seed(seed * 1000003ull + 17 * shard + 500009);
  amode = 1;
  int naconf = nconfigs / 3 + 1, nascen = nscen / 8 + 1;
  for (int c = 0; c < naconf; c++) {
    if ((c % nshards) != shard) continue;
    gen_files(&F, 1); do_G(&F);
    int nr = 32 + h_below(16);
    for (int i = 0; i < nr; i++) { size_t n = gen_recip(r); do_R(r, n); }
    /* every configured name probed as it stands and with the case of every letter flipped */
    for (int d = 0; d < NPOOL; d++) for (int fl = 0; fl < 2; fl++) {
      char t[120]; snprintf(t, sizeof t, "%s@%s", pick_user(), pool[d]);
      if (fl) for (char *q = t; *q; q++) *q = flipc((unsigned char)*q);
      do_R((unsigned char *)t, strlen(t));
    }
    for (int i = 0; i < 2; i++) {
      size_t n = gen_recip(r); unsigned char s[200]; size_t sn;
      for (size_t j = 0; j < n; j++) if (!r[j]) r[j] = 'z';
      sn = snprintf((char *)s, sizeof s, "%s%s%s%s", "list-", h_below(5) ? "@" : "", pick_dom(), h_below(6) ? "-@[]" : "-@[");
      do_V(s, sn, r, n, h_below(120), h_below(100000));
    }
  }
  /* (10) constmap directly with keys over the whole alphabet */
  for (int c = 0; c < naconf; c++) {
    if ((c % nshards) != shard) continue;
    static hbuf b; hbuf_reset(&b);
    int fc = h_below(2), big = h_below(6) == 0;
    int n = big ? 60 + h_below(260) : h_below(9);
    static char keys[400][12]; int nk = 0;
    for (int i = 0; i < n; i++) {
      char k[12]; int l = gen_alabel(k);
      if (h_below(4) == 0) { k[l++] = h_below(2) ? '.' : '@'; l += gen_alabel(k + l); }
      int dup = 0; for (int j = 0; j < nk; j++) if (lc_eq(keys[j], k)) dup = 1;
      if (dup && (!big || h_below(4))) continue;
      strcpy(keys[nk++], k);
      badd(&b, k, l);
      if (fc && h_below(12)) { char v[8]; int vl = h_below(3); v[0] = ':'; for (int j = 0; j < vl; j++) v[1 + j] = "xZ:"[h_below(3)]; badd(&b, v, 1 + vl); }
      badd(&b, "", 1);
    }
    for (int q = 0; q < (big ? 32 : 12); q++) {
      char k[14]; int l;
      if (nk && h_below(4)) {
        strcpy(k, keys[h_below(nk)]); randcase(k, 50); l = strlen(k);
        if (h_below(4) == 0) { int j = h_below(l); int ch = (unsigned char)k[j];
          if (is_letter(ch)) k[j] = h_below(3) == 0 ? "@[`{"[h_below(4)] : h_below(2) ? ch + 1 : ch - 1; }
        else if (h_below(10) == 0) { k[l++] = 'z'; k[l] = 0; }
        else if (h_below(10) == 0 && l > 1) k[--l] = 0;
      } else l = gen_alabel(k);
      do_K(b.p, b.n, fc, (unsigned char *)k, l);
    }
  }
  /* (11) the real main() on alphabet configurations, SIGHUP between messages */
  for (int c = 0; c < nascen; c++) {
    if ((c % nshards) != shard) continue;
    gen_files(&F, 1);
    if (!F.present[0] && !F.present[2]) F.present[2] = 1;
    int ns = 0;
    steps[ns].kind = 'M'; gen_todo(&steps[ns].todo); ns++;
    gen_files(&steps[ns].F, 0); steps[ns].kind = h_below(6) ? 'H' : 'E'; ns++;
    int m2 = 1 + h_below(2);
    for (int i = 0; i < m2; i++) { steps[ns].kind = 'M'; gen_todo(&steps[ns].todo); ns++; }
    do_S(&F, steps, ns);
  }
  amode = 0;

  /* (12) seeded, own stream: the real main() with the control files edited AFTER a HUP was served and before the next
   * message (H f1; E f2; M - the daemon must use f1), edits before any HUP, a second HUP picking up the pending edit,
   * and messages todo_do must refuse (empty record / unknown record type: left in todo/, nothing handed on) */
  h_seed(seed * 1000003ull + 17 * shard + 700001);
  int nhscen = nscen / 4 + 2;
  for (int c = 0; c < nhscen; c++) {
    if ((c % nshards) != shard) continue;
    amode = (c / nshards) & 1;
    gen_files(&F, 1);
    if (!F.present[0] && !F.present[2]) F.present[2] = 1;
    int ns = 0, badleft = h_below(3) == 0;
#define STEP_M() do { steps[ns].kind = 'M'; if (badleft && h_below(3) == 0) { gen_todo_bad(&steps[ns].todo); badleft = 0; } \
                      else gen_todo(&steps[ns].todo); ns++; } while (0)
#define STEP_F(k) do { gen_files(&steps[ns].F, 0); steps[ns].kind = (k); ns++; } while (0)
    if (h_below(2)) STEP_M();
    if (h_below(4) == 0) { STEP_F('E'); STEP_M(); }        /* edit before any HUP: ignored */
    STEP_F('H'); STEP_F('E'); STEP_M();                     /* HUP served, files edited afterwards: the HUP-time files count */
    if (h_below(2)) STEP_M();
    if (h_below(2)) {
      if (h_below(2)) { STEP_F('H'); } else {               /* HUP without touching the files: picks up the pending edit */
        int lf = ns - 1; while (steps[lf].kind == 'M') lf--;
        copy_files(&steps[ns].F, &steps[lf].F); steps[ns].kind = 'H'; ns++;
      }
      STEP_M();
      if (h_below(2)) { STEP_F('E'); STEP_M(); }
    }
    if (badleft) { steps[ns].kind = 'M'; gen_todo_bad(&steps[ns].todo); ns++; STEP_M(); }
#undef STEP_M
#undef STEP_F
    do_S(&F, steps, ns);
  }
  amode = 0;

  /* (13) seeded, own stream: one message each through the real daemon with deliveries enabled; the sender is a VERP
   * sender most of the time; every delivery command written to the spawner pipes is reported */
  h_seed(seed * 1000003ull + 17 * shard + 900007);
  int ndscen = nscen / 16 + 2;
  for (int c = 0; c < ndscen; c++) {
    if ((c % nshards) != shard) continue;
    amode = (c / nshards) & 1;
    gen_files(&F, 1);
    if (!F.present[0] && !F.present[2]) F.present[2] = 1;
    static hbuf t; unsigned char rr[400]; char hd[200];
    hbuf_reset(&t);
    int n = snprintf(hd, sizeof hd, "u%u", h_below(70000)); badd(&t, hd, n + 1);
    n = snprintf(hd, sizeof hd, "p%u", h_below(70000)); badd(&t, hd, n + 1);
    n = snprintf(hd, sizeof hd, "F%s%s%s%s", h_below(4) ? "list-" : "", h_below(6) ? "@" : "", pick_dom(), h_below(5) ? "-@[]" : h_below(2) ? "-@[" : "");
    badd(&t, hd, n + 1);
    int nr = 1 + h_below(6);
    for (int i = 0; i < nr; i++) {
      size_t l = gen_recip(rr);
      for (size_t j = 0; j < l; j++) if (!rr[j]) rr[j] = 'z';
      badd(&t, "T", 1); badd(&t, rr, l); badd(&t, "", 1);
    }
    do_D(&F, &t);
  }
  amode = 0;

  /* (14) seeded, own stream: SIGHUP DURING the re-read, at every call index.  One daemon per scenario; a sweep of pairs
   * (I k; M) for k = 0, 1, 2, ... until k is past the last call the daemon makes between SIGHUP (A) and its next select():
   * f1 is written and HUPed, the daemon is held before its k-th call inside reread()/regetcontrols()/control_readfile(),
   * f2 (a domain newly listed in locals or virtualdomains, a line removed, or freshly generated files) is written and HUPed
   * as well, then the message: every pool domain is probed, the files of the LAST HUP must be in force. */
  h_seed(seed * 1000003ull + 17 * shard + 1100003);
  int niscen = nscen / 16 + 2;
  for (int c = 0; c < niscen; c++) {
    if ((c % nshards) != shard) continue;
    amode = (c / nshards) & 1;
    gen_files(&F, 1);
    if (!F.present[0] && !F.present[2]) F.present[2] = 1;
    int ns = 0, single = h_below(4) == 0;                  /* single: one I step at a random k among other steps */
    if (h_below(2)) { steps[ns].kind = 'M'; steps[ns].grp = 0; gen_todo(&steps[ns].todo); ns++; }
    int npairs = single ? 1 + h_below(3) : 26;
    for (int q = 0; q < npairs && ns + 3 < NSTEPS; q++) {
      step *s = &steps[ns];
      s->kind = 'I'; s->grp = single ? 0 : 1; s->k = single ? (int)h_below(14) : q;
      gen_files(&s->F, 0);
      if (!s->F.present[0] && !s->F.present[2]) s->F.present[2] = 1;
      copy_files(&s->F2, &s->F);
      switch (h_below(6)) {
        case 0: case 1: {                                  /* a domain newly listed in locals */
          char l[100]; snprintf(l, sizeof l, "%s\n", pick_dom()); randcase(l, 15);
          s->F2.present[2] = 1; ensure_nl(&s->F2.b[2]); badd(&s->F2.b[2], l, strlen(l)); break; }
        case 2: case 3: {                                  /* a newly listed virtual domain / virtual user / wildcard */
          char l[160]; int kd = h_below(4); const char *d = pick_dom();
          if (kd == 0) snprintf(l, sizeof l, "%s@%s:%s\n", pick_user(), d, pick_tag());
          else if (kd == 1) snprintf(l, sizeof l, ".%s:%s\n", d, pick_tag());
          else snprintf(l, sizeof l, "%s:%s\n", d, h_below(5) ? pick_tag() : "");
          s->F2.present[4] = 1; ensure_nl(&s->F2.b[4]); badd(&s->F2.b[4], l, strlen(l)); break; }
        case 4: {                                          /* both */
          char l[100]; snprintf(l, sizeof l, "%s\n", pick_dom());
          s->F2.present[2] = 1; ensure_nl(&s->F2.b[2]); badd(&s->F2.b[2], l, strlen(l));
          snprintf(l, sizeof l, "%s:%s\n", pick_dom(), pick_tag());
          s->F2.present[4] = 1; ensure_nl(&s->F2.b[4]); badd(&s->F2.b[4], l, strlen(l)); break; }
        default: gen_files(&s->F2, 0); if (!s->F2.present[0] && !s->F2.present[2]) s->F2.present[2] = 1; break;
      }
      ns++;
      if (single && h_below(3) == 0) { gen_files(&steps[ns].F, 0); steps[ns].kind = 'E'; steps[ns].grp = 0; ns++; }
      s = &steps[ns]; s->kind = 'M'; s->grp = single ? 0 : 1; gen_todo(&s->todo);
      for (int d = 0; d < NPOOL; d++) {                    /* every pool domain probed */
        char tt[120]; snprintf(tt, sizeof tt, "T%s@%s", pick_user(), pool[d]);
        if (h_below(4) == 0) randcase(tt + 1, 30);
        badd(&s->todo, tt, strlen(tt) + 1);
      }
      ns++;
    }
    do_S(&F, steps, ns);
  }
  amode = 0;

  /* (15) seeded, own stream: messages with many recipients through the real daemon - the bytes per channel file swept
   * over 0.5x..3x of todo_do's channel buffers in every mix of local / virtual / remote order (gen_todo_big), before and
   * after a HUP */
  h_seed(seed * 1000003ull + 17 * shard + 1300021);
  int nbscen = nscen / 8 + 2;
  for (int c = 0; c < nbscen; c++) {
    if ((c % nshards) != shard) continue;
    amode = (c / nshards) & 1;
    gen_files(&F, 1); gen_bigdoms(); add_classes(&F);
    int ns = 0, nm = 2 + h_below(3);
    for (int i = 0; i < nm; i++) {
      if (i == 1 && h_below(2)) { gen_files(&steps[ns].F, 0); add_classes(&steps[ns].F); steps[ns].kind = 'H'; steps[ns].grp = 0; ns++; }
      steps[ns].kind = 'M'; steps[ns].grp = 0;
      if (h_below(8) == 0) gen_todo(&steps[ns].todo); else gen_todo_big(&steps[ns].todo);
      ns++;
    }
    do_S(&F, steps, ns);
  }
  amode = 0;

  /* (16) seeded, own stream: FAILING re-reads, at every call index.  One daemon per scenario; a sweep of pairs (J k; M)
   * for k = 0, 1, 2, ... until k is past the last call of reread(): fresh files f1 (a pool domain newly listed in locals,
   * a new virtualdomains entry; now and then padded with comment lines beyond one or two 64-byte reads) are written and
   * HUPed, the k-th call fails; the message probes every pool domain: when the error struck the re-read the OLD tables -
   * both of them - must still be in force, otherwise f1's.  Every third pair is followed by an undisturbed HUP (same files). */
  h_seed(seed * 1000003ull + 17 * shard + 1500007);
  int njscen = nscen / 16 + 2;
  for (int c = 0; c < njscen; c++) {
    if ((c % nshards) != shard) continue;
    amode = (c / nshards) & 1;
    gen_files(&F, 1);
    if (!F.present[0] && !F.present[2]) F.present[2] = 1;
    int ns = 0;
    if (h_below(2)) { steps[ns].kind = 'M'; steps[ns].grp = 0; gen_todo(&steps[ns].todo); ns++; }
    for (int q = 0; q < 22 && ns + 4 < NSTEPS; q++) {
      step *s = &steps[ns];
      s->kind = 'J'; s->grp = 1; s->k = q;
      gen_files(&s->F, 0);
      if (h_below(8)) s->F.present[2] = 1;                  /* mostly a locals file (absent + me: the default) */
      if (!s->F.present[0] && !s->F.present[2]) s->F.present[2] = 1;
      { char l[100]; snprintf(l, sizeof l, "%s\n", pick_dom()); randcase(l, 15);
        if (s->F.present[2]) { ensure_nl(&s->F.b[2]); badd(&s->F.b[2], l, strlen(l)); } }
      if (h_below(3)) { char l[160]; snprintf(l, sizeof l, "%s:%s\n", pick_dom(), h_below(5) ? pick_tag() : "");
        s->F.present[4] = 1; ensure_nl(&s->F.b[4]); badd(&s->F.b[4], l, strlen(l)); }
      for (int w = 2; w <= 4; w += 2) if (s->F.present[w] && h_below(3) == 0) {   /* longer than one / two reads */
        int nl = 1 + h_below(4);
        for (int j = 0; j < nl; j++) { char l[80]; int n = 20 + h_below(50); l[0] = '#'; for (int t = 1; t < n; t++) l[t] = 'x'; l[n] = '\n';
          ensure_nl(&s->F.b[w]); badd(&s->F.b[w], l, n + 1); }
        if (h_below(2)) { char l[100]; snprintf(l, sizeof l, w == 2 ? "%s\n" : "%s:late\n", pick_dom()); badd(&s->F.b[w], l, strlen(l)); }
      }
      ns++;
      s = &steps[ns]; s->kind = 'M'; s->grp = 1; gen_todo(&s->todo);
      for (int d = 0; d < NPOOL; d++) {
        char tt[120]; snprintf(tt, sizeof tt, "T%s@%s", pick_user(), pool[d]);
        if (h_below(4) == 0) randcase(tt + 1, 30);
        badd(&s->todo, tt, strlen(tt) + 1);
      }
      ns++;
      if (q % 3 == 2 && ns + 4 < NSTEPS) {
        copy_files(&steps[ns].F, &steps[ns - 2].F); steps[ns].kind = 'H'; steps[ns].grp = 1; ns++;
        s = &steps[ns]; s->kind = 'M'; s->grp = 1; gen_todo(&s->todo); ns++;
      }
    }
    do_S(&F, steps, ns);
  }
  amode = 0;

  /* (17) seeded, own stream: FAILING start-up, at every call index: for each configuration the daemon is started with
   * its k-th gated call failing, k = 0, 1, 2, ... until k is past main()'s chdir("queue") */
  h_seed(seed * 1000003ull + 17 * shard + 1700011);
  int nzscen = nscen / 32 + 2;
  for (int c = 0; c < nzscen; c++) {
    if ((c % nshards) != shard) continue;
    amode = (c / nshards) & 1;
    gen_files(&F, 1);
    if (h_below(6)) { if (!F.present[0] && !F.present[2]) F.present[2] = 1; }
    if (h_below(3) == 0 && F.present[2]) {
      int nl = 1 + h_below(4);
      for (int j = 0; j < nl; j++) { char l[80]; int n = 20 + h_below(50); l[0] = '#'; for (int t = 1; t < n; t++) l[t] = 'x'; l[n] = '\n';
        ensure_nl(&F.b[2]); badd(&F.b[2], l, n + 1); }
    }
    if (h_below(4) == 0 && F.present[0]) {                   /* control/me with a long first line / several lines */
      int n = 40 + h_below(120); char l[200]; for (int t = 0; t < n; t++) l[t] = 'm'; l[n] = '\n';
      hbuf_reset(&F.b[0]); badd(&F.b[0], l, n + 1); if (h_below(2)) badd(&F.b[0], "second line\n", 12);
    }
    for (int k = 0; k < 60; k++) { do_Z(&F, k); if (!last_Z_fired()) break; }
  }
  amode = 0;
  fflush(h_out);
  return daemon_crashes ? 3 : 0;
}
