/* C20 correspondence harness (a)+(b): the real gen_allocdefs.h / stralloc_*.c / quote.c doit() / substdo.c /
 * substdi.c, driven on generated states and operation sequences, ASan+UBSan build.
 *
 * usage: c20_lib <level> <nrandom> <seed> <shard> <nshards>     |   c20_lib -   (explicit cases on stdin: the part
 *        of an output line before " : ")
 *
 * The allocator the code under test sees is the harness's: malloc/realloc are redirected (macro) to h_malloc /
 * h_realloc, which record the requested size, fail above a per-case limit and otherwise hand out real blocks of
 * EXACTLY the requested size (so ASan sees every store one byte beyond what the arithmetic asked for).
 *
 * Output lines (model input before " : ", implementation result after):
 *   A <sz> <base> <limit> <nonnull> <len> <a> <op> <n> : <ret> <nonnull'> <len'> <a'> <req|->
 *       one gen_alloc operation from an arbitrary record state.  op 0 ready, 1 readyplus, 2 append, 3 catb, 4 copyb
 *       (3,4 only for sz=1).  For op 0/1 nothing is dereferenced, so len/a/n range over all of 0..2^32-1 with a
 *       dummy field pointer; for op 2..4 the record owns a real block of a*sz bytes (a <= 65536).
 *   S <limit> <op.op.…> : <ret,len,a,req;…> <content-ok>
 *       a sequence on one stralloc starting from {0}: r<n> ready, p<n> readyplus, a append, c<n> catb, y<n> copyb,
 *       l<n> sa->len = n (n <= a).  content-ok = 1 iff s[0..len) is what the appended bytes say it must be.
 *   Q <limit> <nonnull> <a> <inlen> <esc> : <ret> <len'> <a'> <req|->
 *       quote.c doit() on an input of inlen bytes with esc bytes needing a backslash (inlen > 600000: only the
 *       length is claimed, the checks must refuse before any byte is touched).
 *   O <n> <wscript> <ops> : <ret,p;…> <taken-hex> <buffered-hex>
 *       substdio output with a buffer of n bytes (malloc(n)); wscript = comma list answering successive op calls
 *       (0 = fail, k = take at most k bytes; exhausted = take all); ops: p<hex> put, b<hex> bput, f flush, P<hex> putflush.
 *   I <size> <rscript> <src-hex> <ops> : <res;…>
 *       substdio input, buffer malloc(size); ops g<len> get (caller buffer malloc(len)), f feed, s<len> PEEK+SEEK
 *       min(len,p); res: g -> r,<hex>  f -> r,p,n   s -> k,<hex>
 *   X <case> sanitizer        printed by the sanitizer death callback: the case that was running */
#include "c20_death.h"
#include <errno.h>
#define cur_case c20_cur

/* ---- the allocator seen by the code under test ---- */
static uint64_t al_limit; static long long al_req; static int al_fakeok;
static void *al_block; static size_t al_block_n;     /* the real block currently owned by the record under test */
static char al_dummy[16];
static void *h_malloc(size_t n) {
  al_req = (long long)n;
  if (n > al_limit) return 0;
  if (al_fakeok && n > (1u << 20)) return al_dummy;    /* arithmetic-only cases: nothing will be dereferenced */
  al_block = (malloc)(n ? n : 1); al_block_n = n;
  if (!n) __asan_poison_memory_region(al_block, 1);
  return al_block;
}
static void *h_realloc(void *p, size_t n) {
  al_req = (long long)n;
  if (n > al_limit) return 0;
  if (al_fakeok && (n > (1u << 20) || p != al_block)) return al_dummy;
  void *q = (malloc)(n ? n : 1);
  if (p == al_block && p) { __asan_unpoison_memory_region(p, al_block_n ? al_block_n : 1); memcpy(q, p, al_block_n < n ? al_block_n : n); (free)(p); }
  al_block = q; al_block_n = n;
  return q;
}
static void al_reset(void) { if (al_block) { __asan_unpoison_memory_region(al_block, al_block_n ? al_block_n : 1); (free)(al_block); } al_block = 0; al_block_n = 0; al_req = -1; }

#define malloc(n) h_malloc(n)
#define realloc(p, n) h_realloc(p, n)
#include "byte_copy.c"
#include "byte_cr.c"
#include "byte_chr.c"
#include "str_rchr.c"
#include "stralloc_eady.c"
#include "stralloc_pend.c"
#include "stralloc_catb.c"
#include "stralloc_opyb.c"
#include "stralloc_cat.c"
#include "stralloc_cats.c"
#include "stralloc_copy.c"
#include "stralloc_opys.c"
#include "quote.c"
typedef struct { char b[8]; } e8;
typedef struct { char b[16]; } e16;
typedef struct { char b[24]; } e24;
GEN_ALLOC_typedef(ga8, e8, p, len, a)
GEN_ALLOC_readyplus(ga8, e8, p, len, a, 10, ga8_readyplus)
GEN_ALLOC_ready(ga8, e8, p, len, a, 10, ga8_ready)
GEN_ALLOC_append(ga8, e8, p, len, a, 10, ga8_readyplus, ga8_append)
GEN_ALLOC_typedef(ga16, e16, p, len, a)
GEN_ALLOC_readyplus(ga16, e16, p, len, a, 100, ga16_readyplus)
GEN_ALLOC_ready(ga16, e16, p, len, a, 100, ga16_ready)
GEN_ALLOC_append(ga16, e16, p, len, a, 100, ga16_readyplus, ga16_append)
GEN_ALLOC_typedef(ga24, e24, p, len, a)
GEN_ALLOC_readyplus(ga24, e24, p, len, a, 30, ga24_readyplus)
GEN_ALLOC_ready(ga24, e24, p, len, a, 30, ga24_ready)
GEN_ALLOC_append(ga24, e24, p, len, a, 30, ga24_readyplus, ga24_append)
#undef malloc
#undef realloc
#include "substdio.c"
#include "substdo.c"
#include "substdi.c"

/* ---------------------------------------------------------------- A: one gen_alloc operation */
static unsigned char srcpat[70016];
static void do_A(unsigned sz, unsigned base, uint64_t limit, int nonnull, unsigned len, unsigned a, int op, unsigned n) {
  snprintf(cur_case, sizeof cur_case, "A %u %u %llu %d %u %u %d %u", sz, base, (unsigned long long)limit, nonnull, len, a, op, n);
  al_reset(); al_limit = limit; al_fakeok = (op <= 1);
  struct { void *f; unsigned len, a; } rec;          /* same layout as every GEN_ALLOC_typedef record */
  rec.f = 0; rec.len = len; rec.a = a;
  if (nonnull) {
    if (op <= 1) rec.f = al_dummy;
    else { al_block = (malloc)((size_t)a * sz ? (size_t)a * sz : 1); al_block_n = (size_t)a * sz; if (!al_block_n) __asan_poison_memory_region(al_block, 1); rec.f = al_block; }
  }
  al_req = -1;
  int ret = -9; e8 x8; e16 x16; e24 x24; char c = 'q';
  memset(&x8, 1, sizeof x8); memset(&x16, 2, sizeof x16); memset(&x24, 3, sizeof x24);
  if (sz == 1) {
    stralloc *sa = (stralloc *)&rec;
    switch (op) {
      case 0: ret = stralloc_ready(sa, n); break;
      case 1: ret = stralloc_readyplus(sa, n); break;
      case 2: ret = stralloc_append(sa, &c); break;
      case 3: ret = stralloc_catb(sa, (char *)srcpat, n); break;
      case 4: ret = stralloc_copyb(sa, (char *)srcpat, n); break;
    }
  } else if (sz == 8) {
    ga8 *g = (ga8 *)&rec;
    ret = op == 0 ? ga8_ready(g, n) : op == 1 ? ga8_readyplus(g, n) : ga8_append(g, &x8);
  } else if (sz == 16) {
    ga16 *g = (ga16 *)&rec;
    ret = op == 0 ? ga16_ready(g, n) : op == 1 ? ga16_readyplus(g, n) : ga16_append(g, &x16);
  } else {
    ga24 *g = (ga24 *)&rec;
    ret = op == 0 ? ga24_ready(g, n) : op == 1 ? ga24_readyplus(g, n) : ga24_append(g, &x24);
  }
  fprintf(h_out, "%s : %d %d %u %u ", cur_case, ret, rec.f != 0, rec.len, rec.a);
  if (al_req >= 0) fprintf(h_out, "%lld\n", al_req); else fprintf(h_out, "-\n");
  al_fakeok = 0;
}

/* ---------------------------------------------------------------- S: a sequence on one stralloc */
static void do_S(uint64_t limit, const char *ops) {
  snprintf(cur_case, sizeof cur_case, "S %llu %s", (unsigned long long)limit, ops);
  al_reset(); al_limit = limit; al_fakeok = 0;
  stralloc sa = { 0 }; hbuf shadow = { 0 }; int content_ok = 1; unsigned char pat = 1;
  fprintf(h_out, "%s : ", cur_case);
  const char *p = ops; int first = 1;
  while (*p) {
    char k = *p++; unsigned long n = 0;
    while (*p >= '0' && *p <= '9') n = n * 10 + (*p++ - '0');
    if (*p == '.') p++;
    al_req = -1; int ret = 1;
    unsigned cn = n > 70000 ? 70000 : (unsigned)n;
    for (unsigned i = 0; i < cn; i++) srcpat[i] = pat + i;
    switch (k) {
      case 'r': ret = stralloc_ready(&sa, n); if (ret && !shadow.n) ; break;
      case 'p': ret = stralloc_readyplus(&sa, n); break;
      case 'a': { char c = pat; ret = stralloc_append(&sa, &c); if (ret) hbuf_add(&shadow, &c, 1); break; }
      case 'c': ret = stralloc_catb(&sa, (char *)srcpat, n); if (ret) hbuf_add(&shadow, srcpat, n); break;
      case 'y': ret = stralloc_copyb(&sa, (char *)srcpat, n); if (ret) { hbuf_reset(&shadow); hbuf_add(&shadow, srcpat, n); } break;
      case 'l':
        if (n <= sa.a) { /* bytes between old and new len are whatever the block holds: read them (they are allocated) */
          if (n > shadow.n) { if (sa.s) hbuf_add(&shadow, sa.s + shadow.n, n - shadow.n); } else shadow.n = n;
          sa.len = n; }
        break;
    }
    if ((k == 'r' || k == 'p') && !ret && !sa.s) shadow.n = 0;     /* x->len = 0 on the null path */
    if ((k == 'r' || k == 'p') && ret && sa.len == 0 && shadow.n) shadow.n = 0;
    pat += 7;
    fprintf(h_out, "%s%d,%u,%u,", first ? "" : ";", ret, sa.len, sa.a);
    if (al_req >= 0) fprintf(h_out, "%lld", al_req); else fputc('-', h_out);
    first = 0;
  }
  if (sa.len != shadow.n || (sa.len && memcmp(sa.s, shadow.p, sa.len))) content_ok = 0;
  if (sa.s && sa.len < sa.a) { volatile char t = sa.s[sa.a - 1]; (void)t; }   /* the whole of a must be addressable */
  fprintf(h_out, " %d\n", content_ok);
  free(shadow.p);
}

/* ---------------------------------------------------------------- Q: quote.c doit() */
static void do_Q(uint64_t limit, int nonnull, unsigned a, unsigned inlen, unsigned esc) {
  snprintf(cur_case, sizeof cur_case, "Q %llu %d %u %u %u", (unsigned long long)limit, nonnull, a, inlen, esc);
  al_reset(); al_limit = limit; al_fakeok = 0;
  stralloc out = { 0 }, in = { 0 };
  if (nonnull) { al_block = (malloc)(a ? a : 1); al_block_n = a; if (!a) __asan_poison_memory_region(al_block, 1); out.s = al_block; out.a = a; out.len = 0; }
  unsigned char *src = 0;
  if (inlen <= 600000) {
    src = (malloc)(inlen ? inlen : 1);
    for (unsigned i = 0; i < inlen; i++) src[i] = i < esc ? "\r\n\"\\"[i & 3] : 'a' + (i % 26);
    in.s = (char *)src;
  } else in.s = al_dummy;                 /* never read: the size checks / the allocator refuse first */
  in.len = inlen; in.a = inlen;
  al_req = -1;
  int ret = doit(&out, &in);
  int ok = 1;
  if (ret && inlen <= 600000) {            /* content: "…" with a backslash before each special */
    if (out.len != inlen + esc + 2 || out.s[0] != '"' || out.s[out.len - 1] != '"') ok = 0;
  }
  fprintf(h_out, "%s : %d %u %u ", cur_case, ret, out.len, out.a);
  if (al_req >= 0) fprintf(h_out, "%lld", al_req); else fputc('-', h_out);
  fprintf(h_out, " %d\n", ok);
  (free)(src);
}

/* ---------------------------------------------------------------- O: substdio output */
static int wscript[4096], wn, wi; static hbuf taken;
static ssize_t op_write(int fd, const char *buf, size_t len) {
  size_t k = len;
  if (wi < wn) { int w = wscript[wi++]; if (w == 0) { errno = EIO; return -1; } if ((size_t)w < k) k = w; }
  volatile char t = buf[0]; t = buf[len - 1]; (void)t;
  hbuf_add(&taken, buf, k);
  return k;
}
static int parse_script(const char *s, int *out) {
  int n = 0;
  if (s[0] == '-') return 0;
  while (*s) { out[n++] = atoi(s); while (*s && *s != ',') s++; if (*s == ',') s++; }
  return n;
}
static int unhexs(const char *h, size_t hl, unsigned char *o) {
  int n = 0;
  if (hl == 1 && h[0] == '-') return 0;
  for (size_t i = 0; i + 1 < hl; i += 2) {
    int a = h[i], b = h[i + 1];
    a = a <= '9' ? a - '0' : (a | 32) - 'a' + 10; b = b <= '9' ? b - '0' : (b | 32) - 'a' + 10;
    o[n++] = (unsigned char)(a * 16 + b);
  }
  return n;
}
static void do_O(unsigned n, const char *ws, const char *ops) {
  snprintf(cur_case, sizeof cur_case, "O %u %s %s", n, ws, ops);
  wn = parse_script(ws, wscript); wi = 0; hbuf_reset(&taken);
  char *x = malloc(n); substdio ss; substdio_fdbuf(&ss, op_write, 1, x, n);
  fprintf(h_out, "%s : ", cur_case);
  const char *p = ops; int first = 1;
  while (*p) {
    char k = *p++; const char *h = p; while (*p && *p != '.') p++;
    size_t hl = p - h; if (*p == '.') p++;
    unsigned char *d = malloc(hl / 2 + 1); int dl = unhexs(h, hl, d);
    unsigned char *dx = malloc(dl ? dl : 1); memcpy(dx, d, dl); free(d);     /* exact-size source */
    int ret = 0;
    switch (k) {
      case 'p': ret = substdio_put(&ss, (char *)dx, dl); break;
      case 'b': ret = substdio_bput(&ss, (char *)dx, dl); break;
      case 'f': ret = substdio_flush(&ss); break;
      case 'P': ret = substdio_putflush(&ss, (char *)dx, dl); break;
    }
    free(dx);
    fprintf(h_out, "%s%d,%d", first ? "" : ";", ret, ss.p); first = 0;
  }
  fputc(' ', h_out); h_hex(taken.p, taken.n); fputc(' ', h_out);
  if (ss.p >= 0 && (unsigned)ss.p <= n) h_hex((unsigned char *)x, ss.p); else fputs("!", h_out);
  fputc('\n', h_out);
  free(x);
}

/* ---------------------------------------------------------------- I: substdio input */
static int rscript[4096], rn, ri; static const unsigned char *isrc; static size_t isrc_n, isrc_pos;
static ssize_t op_read(int fd, char *buf, size_t len) {
  size_t k = isrc_n - isrc_pos; if (k > len) k = len;
  if (ri < rn) { int r = rscript[ri++]; if (r == 0) { errno = EIO; return -1; } if ((size_t)r < k) k = r; }
  if (len) { buf[0] = 0; buf[len - 1] = 0; }      /* the whole of [buf,buf+len) must be writable */
  memcpy(buf, isrc + isrc_pos, k); isrc_pos += k;
  return k;
}
static void do_I(unsigned size, const char *rs, const char *srchex, const char *ops) {
  snprintf(cur_case, sizeof cur_case, "I %u %s %s %s", size, rs, srchex, ops);
  rn = parse_script(rs, rscript); ri = 0;
  size_t hl = strlen(srchex); unsigned char *src = malloc(hl / 2 + 1); isrc_n = unhexs(srchex, hl, src); isrc = src; isrc_pos = 0;
  char *x = malloc(size ? size : 1); substdio ss; substdio_fdbuf(&ss, op_read, 0, x, size);
  fprintf(h_out, "%s : ", cur_case);
  const char *p = ops; int first = 1;
  while (*p) {
    char k = *p++; unsigned long n = 0;
    while (*p >= '0' && *p <= '9') n = n * 10 + (*p++ - '0');
    if (*p == '.') p++;
    if (!first) fputc(';', h_out); first = 0;
    if (k == 'g') {
      char *b = malloc(n ? n : 1);
      if (!n) __asan_poison_memory_region(b, 1);
      long r = substdio_get(&ss, b, n);
      fprintf(h_out, "%ld,", r);
      if (r > 0 && (unsigned long)r <= n) h_hex((unsigned char *)b, r); else fputc('-', h_out);
      if (!n) __asan_unpoison_memory_region(b, 1);
      free(b);
    } else if (k == 'f') {
      long r = substdio_feed(&ss);
      fprintf(h_out, "%ld,%d,%d", r, ss.p, ss.n);
    } else if (k == 's') {
      unsigned long kk = n; if (ss.p < 0 || kk > (unsigned long)ss.p) kk = ss.p > 0 ? ss.p : 0;
      char *pk = substdio_PEEK(&ss);
      fprintf(h_out, "%lu,", kk); h_hex((unsigned char *)pk, kk);
      substdio_SEEK(&ss, (int)kk);
    }
  }
  fputc('\n', h_out);
  free(x); free(src);
}

/* ---------------------------------------------------------------- generators */
static const uint64_t EDGE32[] = { 0, 1, 2, 7, 8, 9, 29, 30, 31, 32, 255, 256, 1000, 65535, 65536, 1u << 20, (1u << 20) + 1,
  0x0fffffffu, 0x10000000u, 0x15555555u, 0x1c71c71cu, 0x1c71c71du, 0x38e38e38u, 0x38e38e39u, 0x71c71c71u, 0x71c71c72u,
  0x7ffffffeu, 0x7fffffffu, 0x80000000u, 0x80000001u, 0xaaaaaaaau, 0xe38e38e2u, 0xe38e38e3u, 0xe38e38e4u, 0xfffffff0u,
  0xffffffe0u, 0xffffffe1u, 0xfffffffdu, 0xfffffffeu, 0xffffffffu };
#define NEDGE (sizeof EDGE32 / sizeof EDGE32[0])
static unsigned edge_or_near(void) {
  uint64_t e = EDGE32[h_below(NEDGE)];
  switch (h_below(4)) { case 0: return (unsigned)e; case 1: return (unsigned)(e + h_below(40)); case 2: return (unsigned)(e - h_below(40)); default: return (unsigned)h_rand(); }
}
static const uint64_t LIMITS[] = { 0, 1, 64, 1u << 20, 0xffffffffull, 1ull << 40 };

static uint64_t gid; static int gshard, gnshards;
static int mine(void) { return (int)(gid++ % gnshards) == gshard; }

static void gen(int level, int nrandom, uint64_t seed) {
  static const unsigned SZ[4] = { 1, 8, 16, 24 }, BASE[4] = { 30, 10, 100, 30 };
  /* (1) ready/readyplus: every pair of edge values for (len|a, n), both null and non-null, all element sizes */
  for (int t = 0; t < 4; t++)
    for (unsigned i = 0; i < NEDGE; i++)
      for (unsigned j = 0; j < NEDGE; j++)
        for (int nn = 0; nn < 2; nn++)
          for (int op = 0; op < 2; op++) {
            if (!mine()) continue;
            unsigned len = (unsigned)EDGE32[i], n = (unsigned)EDGE32[j];
            unsigned a = (i + j) % 3 == 0 ? len : (i + j) % 3 == 1 ? (unsigned)EDGE32[(i * 7 + j) % NEDGE] : 0xffffffffu;
            if (a < len) a = len;
            do_A(SZ[t], BASE[t], (i ^ j) & 1 ? 1ull << 40 : 0xffffffffull, nn, len, a, op, n);
          }
  /* (2) append / catb / copyb from real blocks: a, len small; n small or huge */
  for (int t = 0; t < 4; t++)
    for (unsigned a = 0; a <= (level > 1 ? 70u : 40u); a++)
      for (unsigned len = 0; len <= a; len += (a > 12 ? 3 : 1))
        for (int nn = 0; nn < 2; nn++) {
          if (!mine()) continue;
          do_A(SZ[t], BASE[t], 1u << 20, nn, nn ? len : (unsigned)EDGE32[(a + len) % NEDGE], nn ? a : 0, 2, 0);
          if (t == 0)
            for (unsigned j = 0; j < NEDGE; j++) {
              unsigned n = (unsigned)EDGE32[j];
              if (n > 70000 && n <= (1u << 20) + 1) continue;            /* would really copy: srcpat is 70000 bytes */
              do_A(1, 30, 1u << 20, nn, nn ? len : 5, nn ? a : 0, 3, n);
              do_A(1, 30, 1u << 20, nn, nn ? len : 5, nn ? a : 0, 4, n);
              if (j % 5 == 0) { do_A(1, 30, 0, nn, nn ? len : 5, nn ? a : 0, 3, n); do_A(1, 30, 64, nn, nn ? len : 5, nn ? a : 0, 4, n); }
            }
        }
  /* (3) quote doit(): lengths around every threshold */
  { static const unsigned QL[] = { 0, 1, 2, 13, 14, 15, 16, 100, 1000, 65535, 70000, 70001, 524287, 524288, 0x3ffffffeu, 0x3fffffffu, 0x40000000u,
      0x7ffffffdu, 0x7ffffffeu, 0x7fffffffu, 0x80000000u, 0x80000001u, 0xfffffffeu, 0xffffffffu };
    for (unsigned i = 0; i < sizeof QL / sizeof QL[0]; i++)
      for (int nn = 0; nn < 2; nn++)
        for (unsigned a = 0; a < 40; a += 13)
          for (int e = 0; e < 3; e++) {
            if (!mine()) continue;
            unsigned il = QL[i], esc = e == 0 ? 0 : e == 1 ? il / 2 : il;
            do_Q(1u << 20, nn, a, il, esc);
          }
  }
  /* (4) substdio output: every op sequence of length <= 3 over small data sizes, buffer sizes 1..5, write scripts */
  { static const char *WS[] = { "-", "1", "1,1,1,1,1,1,1,1", "2,1,3", "0", "1,0", "3,0,1", "2,2,0" };
    static const int DL[] = { 0, 1, 2, 3, 4, 5, 6, 9 };
    char ops[512]; int maxops = level > 1 ? 4 : 3;
    for (unsigned n = 1; n <= 5; n++)
      for (unsigned w = 0; w < 8; w++)
        for (int no = 1; no <= maxops; no++) {
          long total = 1; for (int i = 0; i < no; i++) total *= 26;       /* 3 data ops x 8 sizes + flush + putflush(1) */
          for (long c = 0; c < total; c++) {
            if (!mine()) continue;
            long v = c; int o = 0; unsigned char b = 0x10;
            for (int i = 0; i < no; i++) {
              int sel = v % 26; v /= 26;
              if (i) ops[o++] = '.';
              if (sel == 24) { ops[o++] = 'f'; continue; }
              if (sel == 25) { ops[o++] = 'P'; o += sprintf(ops + o, "%02x%02x", b, b + 1); b += 2; continue; }
              ops[o++] = "pbP"[sel / 8]; int dl = DL[sel % 8];
              if (!dl) ops[o++] = '-';
              for (int k = 0; k < dl; k++) o += sprintf(ops + o, "%02x", b++);
            }
            ops[o] = 0;
            do_O(n, WS[w], ops);
          }
        }
  }
  /* (5) substdio input: sources of length <= 7, buffer sizes 1..4, every sequence of <= 4 ops from a small set */
  { static const char *RS[] = { "-", "1", "1,1,1,1,1,1,1,1,1", "2,1,3", "0", "1,0,1", "3,3" };
    static const char *IO[] = { "g0", "g1", "g2", "g3", "g5", "g9", "f", "s1", "s2" };
    char ops[128], srch[64]; int maxops = level > 1 ? 5 : 4;
    for (unsigned size = 1; size <= 4; size++)
      for (unsigned sl = 0; sl <= 7; sl += (sl < 3 ? 1 : 2))
        for (unsigned r = 0; r < 7; r++)
          for (int no = 1; no <= maxops; no++) {
            long total = 1; for (int i = 0; i < no; i++) total *= 9;
            for (long c = 0; c < total; c++) {
              if (!mine()) continue;
              long v = c; int o = 0;
              for (int i = 0; i < no; i++) { if (i) ops[o++] = '.'; o += sprintf(ops + o, "%s", IO[v % 9]); v /= 9; }
              if (sl) for (unsigned k = 0; k < sl; k++) sprintf(srch + 2 * k, "%02x", 0x41 + k); else strcpy(srch, "-");
              do_I(size, RS[r], srch, ops);
            }
          }
  }
  /* (6) seeded random */
  h_seed(seed * 1000003ull + gshard);
  for (int r = 0; r < nrandom; r++) {
    if ((r % gnshards) != gshard) continue;
    int kind = h_below(10);
    if (kind < 3) {                        /* arithmetic, anywhere in 32 bits */
      int t = h_below(4); unsigned len = edge_or_near(), a = edge_or_near(), n = edge_or_near();
      if (a < len && h_below(4)) a = len;
      do_A(SZ[t], BASE[t], LIMITS[3 + h_below(3)], h_below(5) != 0, len, a, h_below(2), n);
    } else if (kind < 5) {                 /* sequences on a real stralloc */
      char ops[2048]; int o = 0, no = 1 + h_below(24); unsigned a_guess = 0;
      for (int i = 0; i < no; i++) {
        if (i) ops[o++] = '.';
        int k = h_below(12); unsigned n;
        switch (h_below(6)) { case 0: n = h_below(4); break; case 1: n = h_below(40); break; case 2: n = h_below(300); break; case 3: n = 8180 + h_below(30); break;
          case 4: n = h_below(70000); break; default: n = edge_or_near(); if (n > 70000 && n <= (1u << 20) + 64) n = 70000; break; }
        if (k < 2) o += sprintf(ops + o, "r%u", n);
        else if (k < 4) o += sprintf(ops + o, "p%u", n);
        else if (k < 7) o += sprintf(ops + o, "a");
        else if (k < 10) o += sprintf(ops + o, "c%u", n);
        else if (k < 11) o += sprintf(ops + o, "y%u", n);
        else o += sprintf(ops + o, "l%u", h_below(a_guess + 2));
        a_guess += n < 70000 ? n : 0;
      }
      ops[o] = 0;
      do_S(h_below(4) ? 1u << 20 : h_below(5000), ops);
    } else if (kind < 6) {
      unsigned il = h_below(3) ? h_below(3000) : edge_or_near(); if (il > 70000 && il < 600000) il = 70000;
      do_Q(1u << 20, h_below(2), h_below(100), il, il <= 600000 ? h_below(il + 1) : il / 2);
    } else if (kind < 8) {                 /* output: realistic buffer sizes around SUBSTDIO_OUTSIZE */
      static const unsigned NS[] = { 1, 2, 7, 16, 100, 256, 1024, 8191, 8192, 8193, 20000 };
      unsigned n = NS[h_below(11)]; char ws[256]; int wo = 0, nw = h_below(8);
      if (!nw) strcpy(ws, "-");
      for (int i = 0; i < nw; i++) wo += sprintf(ws + wo, "%s%u", i ? "," : "", h_below(9) ? 1 + h_below(h_below(2) ? 10 : 9000) : 0);
      static char ops[400000]; int o = 0, no = 1 + h_below(7); unsigned char b = h_below(256);
      for (int i = 0; i < no; i++) {
        if (i) ops[o++] = '.';
        int k = h_below(8);
        if (k == 0) { ops[o++] = 'f'; continue; }
        ops[o++] = k < 4 ? 'p' : k < 7 ? 'b' : 'P';
        unsigned dl; switch (h_below(5)) { case 0: dl = h_below(4); break; case 1: dl = h_below(n + 3); break; case 2: dl = n - 1 + h_below(3); break; case 3: dl = n >= 100 ? 8190 + h_below(5) : h_below(40); break; default: dl = n >= 100 ? h_below(20000) : h_below(300); }
        if (!dl) ops[o++] = '-';
        for (unsigned q = 0; q < dl; q++) o += sprintf(ops + o, "%02x", b++);
      }
      ops[o] = 0;
      do_O(n, ws, ops);
    } else {                               /* input */
      static const unsigned NS[] = { 1, 2, 3, 16, 128, 512, 8192 };
      unsigned size = NS[h_below(7)]; char rs[256]; int ro = 0, nr = h_below(10);
      if (!nr) strcpy(rs, "-");
      for (int i = 0; i < nr; i++) ro += sprintf(rs + ro, "%s%u", i ? "," : "", h_below(12) ? 1 + h_below(h_below(2) ? 5 : 9000) : 0);
      unsigned sl = h_below(3) ? h_below(40) : size >= 16 ? h_below(20000) : h_below(600);
      static char srch[40100]; if (!sl) strcpy(srch, "-"); for (unsigned q = 0; q < sl; q++) sprintf(srch + 2 * q, "%02x", (unsigned)((q * 7 + r) & 255));
      char ops[1024]; int o = 0, no = 1 + h_below(30);
      for (int i = 0; i < no; i++) {
        if (i) ops[o++] = '.';
        int k = h_below(10);
        if (k < 7) o += sprintf(ops + o, "g%u", h_below(4) ? h_below(12) : h_below(3) ? size - 1 + h_below(3) : h_below(20000));
        else if (k < 8) o += sprintf(ops + o, "f");
        else o += sprintf(ops + o, "s%u", h_below(20));
      }
      ops[o] = 0;
      do_I(size, rs, srch, ops);
    }
  }
}

int main(int argc, char **argv) {
  h_init_out();
  c20_install_death();
  for (unsigned i = 0; i < sizeof srcpat; i++) srcpat[i] = i * 31 + 7;
  if (argc > 1 && !strcmp(argv[1], "-")) {
    static char line[1 << 20];
    while (fgets(line, sizeof line, stdin)) {
      char *colon = strstr(line, " : "); if (colon) *colon = 0;
      size_t l = strlen(line); while (l && (line[l - 1] == '\n' || line[l - 1] == ' ')) line[--l] = 0;
      static char f1[1 << 19], f2[1 << 19], f3[1 << 19];
      unsigned long long lim; unsigned u1, u2, u3, u4, u5; int i1, i2;
      if (line[0] == 'A' && sscanf(line, "A %u %u %llu %d %u %u %d %u", &u1, &u2, &lim, &i1, &u3, &u4, &i2, &u5) == 8) {
        if ((u1 == 1 || u1 == 8 || u1 == 16 || u1 == 24) && i2 >= 0 && i2 <= (u1 == 1 ? 4 : 2) && (i2 <= 1 || (u4 <= 65536 && lim <= (1u << 20))))
          do_A(u1, u2, lim, i1, u3, u4, i2, u5);
      } else if (line[0] == 'S' && sscanf(line, "S %llu %s", &lim, f1) == 2) { if (lim <= (1u << 20)) do_S(lim, f1); }
      else if (line[0] == 'Q' && sscanf(line, "Q %llu %d %u %u %u", &lim, &i1, &u1, &u2, &u3) == 5) { if (u1 <= 65536 && lim <= (1u << 20)) do_Q(lim, i1, u1, u2, u3); }
      else if (line[0] == 'O' && sscanf(line, "O %u %s %s", &u1, f1, f2) == 3) { if (u1 >= 1 && u1 <= (1u << 20)) do_O(u1, f1, f2); }
      else if (line[0] == 'I' && sscanf(line, "I %u %s %s %s", &u1, f1, f2, f3) == 4) { if (u1 <= (1u << 20)) do_I(u1, f1, f2, f3); }
    }
    fflush(h_out);
    return 0;
  }
  int level = h_argi(argc, argv, 1, 1), nrandom = h_argi(argc, argv, 2, 1000);
  uint64_t seed = (uint64_t)h_argi(argc, argv, 3, 1);
  gshard = h_argi(argc, argv, 4, 0); gnshards = h_argi(argc, argv, 5, 1);
  gen(level, nrandom, seed);
  fflush(h_out);
  return 0;
}
