/* Shared part of the three C07 whole-program harnesses (qmail-smtpd / qmail-qmtpd / qmail-qmqpd).
 *
 * The daemon's unmodified source is #included by the harness (main renamed, _exit -> longjmp) together with the
 * unmodified qmail.c, so the real qmail_open/put/from/to/fail/close run: real pipe(), fork(), execv() of the stand-in
 * queue program named by QMAILQUEUE (harness/c07_qq.c), real waitpid().  Interposed:
 *   read(0)/write(1) of the daemon   -> scripted client bytes (EOF at the end = client disconnect) / captured replies
 *   write() on the qmail.c pipes     -> real write, except that write call number >= wfault fails with EPIPE
 *   time()                           -> scripted clock (the Received date)
 *   auto_qmail                       -> a private temporary directory holding control/me and control/rcpthosts
 *
 * A case is one line of space separated fields (hex strings; "-" empty, "~" unset):
 *   <P> <databytes|-1> <time> <host> <ip> <info> <localhost> <localip> <relayclient> <qqscript> <wfault> <chunk> <payload...>
 * and the harness answers with the same fields followed by
 *   = <daemon exit status> <bytes written to fd 1> <pids of the queue runs> <nrec> (<fd0 bytes> <fd1 bytes>)*   (what each stand-in run received)
 */
#ifndef C07_COMMON_H
#define C07_COMMON_H
#include "hcommon.h"
#include <errno.h>
#include <fcntl.h>
#include <time.h>
#include <signal.h>
#include <sys/wait.h>
#include <sys/stat.h>

#define REC_FD 100
#define NENV 6
static const char *c07_envname[NENV] = { "TCPREMOTEHOST", "TCPREMOTEIP", "TCPREMOTEINFO", "TCPLOCALHOST", "TCPLOCALIP", "RELAYCLIENT" };

char auto_qmail[512];          /* replaces auto_qmail.o */
static char c07_home[400];

/* ---- scripted world */
static const unsigned char *c07_in; static size_t c07_in_n, c07_in_pos; static int c07_chunk;
static hbuf c07_outb;
static long c07_wcount, c07_wfault;   /* writes to the queue pipes so far; first failing write index (-1: none) */
static time_t c07_now;

time_t time(time_t *t) { if (t) *t = c07_now; return c07_now; }

static ssize_t c07_read(int fd, void *buf, size_t len) {
  if (fd != 0) return read(fd, buf, len);
  size_t k = c07_in_n - c07_in_pos;
  if (k > len) k = len;
  if (c07_chunk > 0 && k > (size_t)c07_chunk) k = c07_chunk;
  memcpy(buf, c07_in + c07_in_pos, k); c07_in_pos += k;
  return k;
}
static ssize_t c07_write(int fd, const void *buf, size_t len) {
  if (fd == 1) { hbuf_add(&c07_outb, buf, len); return len; }
  if (c07_wfault >= 0 && c07_wcount >= c07_wfault) { c07_wcount++; errno = EPIPE; return -1; }
  c07_wcount++;
  return write(fd, buf, len);
}

/* fork() of qmail_open: the real fork; the child's pid is noted because the daemons print it ("qp <pid>") */
static long c07_pids[64]; static int c07_npid;
static pid_t c07_fork(void) { pid_t p = fork(); if (p > 0 && c07_npid < 64) c07_pids[c07_npid++] = p; return p; }

/* ---- one case */
#define C07_MAXF 24
typedef struct {
  char proto;
  long databytes; long now;
  char *env[NENV];            /* hex / "-" / "~" */
  char *qq; long wfault; int chunk;
  int npay; char *pay[C07_MAXF];
} c07_case;

static size_t c07_unhex(const char *h, unsigned char *o) {
  size_t n = 0;
  if (h[0] == '-' || h[0] == '~') return 0;
  for (; h[0] && h[1]; h += 2) {
    unsigned a = h[0] <= '9' ? h[0] - '0' : (h[0] | 32) - 'a' + 10, b = h[1] <= '9' ? h[1] - '0' : (h[1] | 32) - 'a' + 10;
    o[n++] = (unsigned char)(a * 16 + b);
  }
  return n;
}
static char *c07_hexdup(const unsigned char *p, size_t n) {
  static const char d[] = "0123456789abcdef";
  if (n == 0) return strdup("-");
  char *s = malloc(2 * n + 1);
  for (size_t i = 0; i < n; i++) { s[2 * i] = d[p[i] >> 4]; s[2 * i + 1] = d[p[i] & 15]; }
  s[2 * n] = 0; return s;
}
static char *c07_hexs(const char *s) { return s ? c07_hexdup((const unsigned char *)s, strlen(s)) : strdup("~"); }

static void c07_init(void) {
  h_init_out();
  signal(SIGPIPE, SIG_IGN);
  const char *base = getenv("C07_TMP"); if (!base) base = "/tmp";
  snprintf(c07_home, sizeof c07_home, "%s/c07h-XXXXXX", base);
  if (!mkdtemp(c07_home)) { perror("mkdtemp"); exit(2); }
  strcpy(auto_qmail, c07_home);
  char p[600];
  snprintf(p, sizeof p, "%s/control", c07_home); mkdir(p, 0700);
  snprintf(p, sizeof p, "%s/control/me", c07_home); FILE *f = fopen(p, "w"); fputs("me.example\n", f); fclose(f);
  snprintf(p, sizeof p, "%s/control/rcpthosts", c07_home); f = fopen(p, "w"); fputs("ok.example\n.sub.example\nLocalHost\n", f); fclose(f);
  snprintf(p, sizeof p, "%s/rec", c07_home);
  int fd = open(p, O_RDWR | O_CREAT | O_TRUNC, 0600);
  if (fd < 0 || dup2(fd, REC_FD) < 0) { perror("rec"); exit(2); }
  if (fd != REC_FD) close(fd);
  const char *qqp = getenv("C07_QQBIN");
  if (!qqp) { fprintf(stderr, "C07_QQBIN not set\n"); exit(2); }
  setenv("QMAILQUEUE", qqp, 1);
}
static void c07_fini(void) {
  char cmd[700];
  fflush(h_out);
  snprintf(cmd, sizeof cmd, "rm -rf '%s'", c07_home);
  if (c07_home[0]) system(cmd);
}

static void c07_setup(const c07_case *c, const unsigned char *in, size_t n) {
  static unsigned char tmp[70000];
  for (int i = 0; i < NENV; i++) {
    if (c->env[i][0] == '~') unsetenv(c07_envname[i]);
    else { size_t l = c07_unhex(c->env[i], tmp); tmp[l] = 0; setenv(c07_envname[i], (char *)tmp, 1); }
  }
  if (c->databytes >= 0) { char b[32]; snprintf(b, sizeof b, "%ld", c->databytes); setenv("DATABYTES", b, 1); }
  else unsetenv("DATABYTES");
  setenv("C07_QQ", c->qq, 1);
  c07_now = c->now; c07_wfault = c->wfault; c07_wcount = 0; c07_chunk = c->chunk;
  c07_in = in; c07_in_n = n; c07_in_pos = 0; c07_npid = 0;
  hbuf_reset(&c07_outb);
  if (ftruncate(REC_FD, 0) < 0 || lseek(REC_FD, 0, SEEK_SET) < 0) { perror("rec reset"); exit(2); }
}

/* after the daemon "exited": the kernel would close its descriptors; reap the stand-ins; print the result */
static void c07_finish(const c07_case *c, int exitcode) {
  int ofd = fileno(h_out);
  for (int fd = 3; fd < 64; fd++) if (fd != ofd) close(fd);
  while (waitpid(-1, 0, 0) > 0) ;
  fprintf(h_out, "%c %ld %ld", c->proto, c->databytes, c->now);
  for (int i = 0; i < NENV; i++) fprintf(h_out, " %s", c->env[i]);
  fprintf(h_out, " %s %ld %d", c->qq, c->wfault, c->chunk);
  for (int i = 0; i < c->npay; i++) fprintf(h_out, " %s", c->pay[i]);
  fprintf(h_out, " = %d ", exitcode); h_hex(c07_outb.p, c07_outb.n);
  fputc(' ', h_out);
  if (!c07_npid) fputc('-', h_out);
  for (int i = 0; i < c07_npid; i++) fprintf(h_out, "%s%ld", i ? "," : "", c07_pids[i]);
  /* records */
  off_t sz = lseek(REC_FD, 0, SEEK_END);
  unsigned char *r = malloc(sz + 1);
  if (pread(REC_FD, r, sz, 0) != sz) { perror("rec read"); exit(2); }
  int nrec = 0; off_t pos = 0;
  while (pos + 9 <= sz && r[pos] == 'R') { uint32_t a, b; memcpy(&a, r + pos + 1, 4); memcpy(&b, r + pos + 5 + a, 4); pos += 9 + a + b; nrec++; }
  fprintf(h_out, " %d", nrec);
  pos = 0;
  for (int k = 0; k < nrec; k++) {
    uint32_t a, b; memcpy(&a, r + pos + 1, 4); memcpy(&b, r + pos + 5 + a, 4);
    fputc(' ', h_out); h_hex(r + pos + 5, a); fputc(' ', h_out); h_hex(r + pos + 9 + a, b);
    pos += 9 + a + b;
  }
  fputc('\n', h_out);
  free(r);
}

/* parse a case line (fields split in place); returns 0 on failure */
static int c07_parse(char *line, c07_case *c) {
  char *f[16 + C07_MAXF]; int nf = 0;
  if (!strncmp(line, "case=", 5)) line += 5;      /* the case= field of a DISAGREE/ORACLE line can be replayed as it is */
  for (char *t = strtok(line, " |\r\n"); t && nf < 16 + C07_MAXF; t = strtok(0, " |\r\n")) f[nf++] = t;
  if (nf < 13) return 0;
  c->proto = f[0][0]; c->databytes = atol(f[1]); c->now = atol(f[2]);
  for (int i = 0; i < NENV; i++) c->env[i] = f[3 + i];
  c->qq = f[9]; c->wfault = atol(f[10]); c->chunk = atoi(f[11]);
  c->npay = 0;
  for (int i = 12; i < nf; i++) { if (!strcmp(f[i], "=")) break; c->pay[c->npay++] = f[i]; }
  return 1;
}

/* ---- generator helpers */
static const char *c07_hosts[] = { "~", "client.example", "evil (host)\n name", "UPPER.Example", "a", "[10.1.2.3]", "x\ty<z>;\"q\"", "h\xc3\xa9t\xe9", "-" };
static const char *c07_ips[] = { "~", "10.0.0.1", "::1", "1.2.3.4\r\nX: y", "127.0.0.1" };
static const char *c07_infos[] = { "~", "~", "user", "ro ot@x", "-", "a)b(c" };
static const char *c07_lhosts[] = { "~", "mx.local.example", "my host" };
static const char *c07_lips[] = { "~", "192.0.2.9" };
static const long c07_times[] = { 0, 59, 86399, 86400, 951782399, 951782400, 951868800, 68169600, 68255999, 68256000, 94694400, 1078012800, 1078099200,
                                   1230768000, 1234567890, 1767225599, 1790294400, 2147483647, 2147483648, 4102444800, 4107542400, 32503680000, 253402300799 };
#define C07_N(a) ((int)(sizeof(a) / sizeof((a)[0])))

static char *c07_pick(const char **tab, int n, unsigned k) {
  const char *s = tab[k % n];
  if (s[0] == '~' && !s[1]) return strdup("~");
  if (s[0] == '-' && !s[1]) return strdup("-");
  return c07_hexs(s);
}
/* default environment; variant v chooses other peers/clock */
static void c07_defaults(c07_case *c, char proto, unsigned v) {
  c->proto = proto; c->databytes = -1;
  c->now = c07_times[v % C07_N(c07_times)];
  c->env[0] = c07_pick(c07_hosts, C07_N(c07_hosts), v);
  c->env[1] = c07_pick(c07_ips, C07_N(c07_ips), v / 2);
  c->env[2] = c07_pick(c07_infos, C07_N(c07_infos), v / 3);
  c->env[3] = c07_pick(c07_lhosts, C07_N(c07_lhosts), v / 5);
  c->env[4] = c07_pick(c07_lips, C07_N(c07_lips), v / 7);
  c->env[5] = strdup("~");
  c->qq = strdup("0,0,-"); c->wfault = -1; c->chunk = 0; c->npay = 0;
}
static void c07_free(c07_case *c) {
  for (int i = 0; i < NENV; i++) free(c->env[i]);
  free(c->qq);
  for (int i = 0; i < c->npay; i++) free(c->pay[i]);
  c->npay = 0;
}
static char *c07_qqscript(int code, int sig, const char *text) {
  char *h = text ? c07_hexs(text) : strdup("-");
  char *s = malloc(strlen(h) + 40);
  sprintf(s, "%d,%d,%s", code, sig, h); free(h); return s;
}
static const char *c07_texts[] = { "Dpolicy says no (#5.7.1)", "Ztry again later (#4.3.0)", "D", "Zx", "Dxy", "Xneither", "", "Zline1\nline2",
  "Dthis text is rather long: 0123456789012345678901234567890123456789012345678901234567890123456789012345678901234567890123456789012345678901234567890123456789012345678901234567890123456789012345678901234567890123456789012345678901234567890123456789012345678901234567890123456789END" };

/* append a netstring */
static void c07_ns(hbuf *b, const void *p, size_t n) {
  char l[32]; int k = snprintf(l, sizeof l, "%zu:", n);
  hbuf_add(b, l, k); if (n) hbuf_add(b, p, n); hbuf_add(b, ",", 1);
}

static uint64_t c07_id; static int c07_shard, c07_nshards;
static int c07_mine(void) { return (int)(c07_id++ % (uint64_t)c07_nshards) == c07_shard; }
#endif
