/* Shared part of the three C07 whole-program harnesses (qmail-smtpd / qmail-qmtpd / qmail-qmqpd).
 *
 * The daemon's unmodified source is #included by the harness (main renamed, _exit -> longjmp) together with the
 * unmodified qmail.c, so the real qmail_open/put/from/to/fail/close run: real pipe(), fork(), execv() of the stand-in
 * queue program named by QMAILQUEUE (harness/c07_qq.c), real waitpid().  Interposed:
 *   read(0)/write(1) of the daemon   -> scripted client bytes (EOF at the end = client disconnect) / captured replies
 *   write() on the qmail.c pipes     -> real write, except that write call number >= wfault fails with EPIPE
 *   time()                           -> scripted clock (the Received date)
 *   auto_qmail                       -> a private temporary directory holding control/me and control/rcpthosts
 *
 * A case is one line of space separated fields (hex strings; "-" empty, "~" unset):
 *   <P> <databytes|-1> <time> <host> <ip> <info> <localhost> <localip> <relayclient> <qqscript> <wfault> <chunk> <payload...>
 * and the harness answers with the same fields followed by
 *   = <daemon exit status> <bytes written to fd 1> <pids of the queue runs> <nrec> (<fd0 bytes> <fd1 bytes>)*   (what each stand-in run received)
 *
 * Real-queue leg: a case whose protocol letter is in lower case (m / q / s) runs the same daemon code with QMAILQUEUE =
 * harness/c07_rqq.c, i.e. the UNMODIFIED qmail-queue.c main() working on a private queue directory (pid mess/0..N-1 intd
 * todo lock under the temporary home).  The <qqscript> field is ignored on input; on output it holds what the queue
 * program did ("<exit>,0,-" per run) and the line continues after the records with
 *   + <nruns> (<exit|-1> <committed 0|1> <mess file bytes> <todo file bytes>)* <stray todo entries>
 * where "committed" means todo/<inode> exists after the daemon and all its children are gone.
 *
 * Before a case runs, its input fields are written to the file named by C07_CUR (if set) and the file is removed at a clean
 * end: a harness killed by ASan/UBSan inside the daemon's code leaves the killing case there for checks/c07.py.
 */
#ifndef C07_COMMON_H
#define C07_COMMON_H
#include "hcommon.h"
#include <errno.h>
#include <fcntl.h>
#include <time.h>
#include <signal.h>
#include <sys/wait.h>
#include <sys/stat.h>
#include <dirent.h>
#include <ctype.h>

#define REC_FD 100
#define NENV 6
static const char *c07_envname[NENV] = { "TCPREMOTEHOST", "TCPREMOTEIP", "TCPREMOTEINFO", "TCPLOCALHOST", "TCPLOCALIP", "RELAYCLIENT" };

char auto_qmail[512];          /* replaces auto_qmail.o */
static char c07_home[400];
static char *c07_qqbin, *c07_rqqbin, *c07_curfile; static int c07_split;

/* ---- scripted world */
static const unsigned char *c07_in; static size_t c07_in_n, c07_in_pos; static int c07_chunk;
static hbuf c07_outb;
static long c07_wcount, c07_wfault;   /* writes to the queue pipes so far; first failing write index (-1: none) */
static time_t c07_now;

time_t time(time_t *t) { if (t) *t = c07_now; return c07_now; }

static ssize_t c07_read(int fd, void *buf, size_t len) {
  if (fd != 0) return read(fd, buf, len);
  size_t k = c07_in_n - c07_in_pos;
  if (k > len) k = len;
  if (c07_chunk > 0 && k > (size_t)c07_chunk) k = c07_chunk;
  memcpy(buf, c07_in + c07_in_pos, k); c07_in_pos += k;
  return k;
}
static ssize_t c07_write(int fd, const void *buf, size_t len) {
  if (fd == 1) { hbuf_add(&c07_outb, buf, len); return len; }
  if (c07_wfault >= 0 && c07_wcount >= c07_wfault) { c07_wcount++; errno = EPIPE; return -1; }
  c07_wcount++;
  return write(fd, buf, len);
}

/* fork() of qmail_open: the real fork; the child's pid is noted because the daemons print it ("qp <pid>") */
static long c07_pids[64]; static int c07_npid;
static pid_t c07_fork(void) { pid_t p = fork(); if (p > 0 && c07_npid < 64) c07_pids[c07_npid++] = p; return p; }

/* ---- one case */
#define C07_MAXF 24
typedef struct {
  char proto;
  long databytes; long now;
  char *env[NENV];            /* hex / "-" / "~" */
  char *qq; long wfault; int chunk;
  int npay; char *pay[C07_MAXF];
} c07_case;

static size_t c07_unhex(const char *h, unsigned char *o) {
  size_t n = 0;
  if (h[0] == '-' || h[0] == '~') return 0;
  for (; h[0] && h[1]; h += 2) {
    unsigned a = h[0] <= '9' ? h[0] - '0' : (h[0] | 32) - 'a' + 10, b = h[1] <= '9' ? h[1] - '0' : (h[1] | 32) - 'a' + 10;
    o[n++] = (unsigned char)(a * 16 + b);
  }
  return n;
}
static char *c07_hexdup(const unsigned char *p, size_t n) {
  static const char d[] = "0123456789abcdef";
  if (n == 0) return strdup("-");
  char *s = malloc(2 * n + 1);
  for (size_t i = 0; i < n; i++) { s[2 * i] = d[p[i] >> 4]; s[2 * i + 1] = d[p[i] & 15]; }
  s[2 * n] = 0; return s;
}
static char *c07_hexs(const char *s) { return s ? c07_hexdup((const unsigned char *)s, strlen(s)) : strdup("~"); }

static void c07_init(void) {
  h_init_out();
  signal(SIGPIPE, SIG_IGN);
  const char *base = getenv("C07_TMP"); if (!base) base = "/tmp";
  snprintf(c07_home, sizeof c07_home, "%s/c07h-XXXXXX", base);
  if (!mkdtemp(c07_home)) { perror("mkdtemp"); exit(2); }
  strcpy(auto_qmail, c07_home);
  char p[600];
  snprintf(p, sizeof p, "%s/control", c07_home); mkdir(p, 0700);
  snprintf(p, sizeof p, "%s/control/me", c07_home); FILE *f = fopen(p, "w"); fputs("me.example\n", f); fclose(f);
  snprintf(p, sizeof p, "%s/control/rcpthosts", c07_home); f = fopen(p, "w"); fputs("ok.example\n.sub.example\nLocalHost\n", f); fclose(f);
  snprintf(p, sizeof p, "%s/rec", c07_home);
  int fd = open(p, O_RDWR | O_CREAT | O_TRUNC, 0600);
  if (fd < 0 || dup2(fd, REC_FD) < 0) { perror("rec"); exit(2); }
  if (fd != REC_FD) close(fd);
  const char *qqp = getenv("C07_QQBIN");
  if (!qqp) { fprintf(stderr, "C07_QQBIN not set\n"); exit(2); }
  c07_qqbin = strdup(qqp);
  setenv("QMAILQUEUE", qqp, 1);
  /* the queue directory of the real-queue leg */
  c07_rqqbin = getenv("C07_RQQBIN") ? strdup(getenv("C07_RQQBIN")) : 0;
  c07_split = getenv("C07_SPLIT") ? atoi(getenv("C07_SPLIT")) : 23;
  static const char *qd[] = { "queue", "queue/pid", "queue/intd", "queue/todo", "queue/lock", "queue/mess" };
  for (int i = 0; i < 6; i++) { snprintf(p, sizeof p, "%s/%s", c07_home, qd[i]); mkdir(p, 0700); }
  for (int i = 0; i < c07_split; i++) { snprintf(p, sizeof p, "%s/queue/mess/%d", c07_home, i); mkdir(p, 0700); }
  setenv("C07_HOME", c07_home, 1);
  c07_curfile = getenv("C07_CUR");
}
static void c07_fini(void) {
  char cmd[700];
  fflush(h_out);
  if (c07_curfile) unlink(c07_curfile);
  snprintf(cmd, sizeof cmd, "rm -rf '%s'", c07_home);
  if (c07_home[0]) system(cmd);
}

static int c07_real(const c07_case *c) { return islower((unsigned char)c->proto); }
static void c07_print_case(FILE *f, const c07_case *c) {
  fprintf(f, "%c %ld %ld", c->proto, c->databytes, c->now);
  for (int i = 0; i < NENV; i++) fprintf(f, " %s", c->env[i]);
  fprintf(f, " %s %ld %d", c07_real(c) ? "0,0,-" : c->qq, c->wfault, c->chunk);
  for (int i = 0; i < c->npay; i++) fprintf(f, " %s", c->pay[i]);
}
/* empty the queue directory of the real-queue leg */
static void c07_qclean_dir(const char *sub) {
  char p[700]; snprintf(p, sizeof p, "%s/queue/%s", c07_home, sub);
  DIR *d = opendir(p); if (!d) return;
  for (struct dirent *e; (e = readdir(d)); ) {
    if (e->d_name[0] == '.') continue;
    char f[1000]; snprintf(f, sizeof f, "%s/%s", p, e->d_name); unlink(f);
  }
  closedir(d);
}
static void c07_qclean(void) {
  c07_qclean_dir("pid"); c07_qclean_dir("intd"); c07_qclean_dir("todo");
  for (int i = 0; i < c07_split; i++) { char s[32]; snprintf(s, sizeof s, "mess/%d", i); c07_qclean_dir(s); }
}
static unsigned char *c07_slurp(const char *path, size_t *n) {
  *n = 0; int fd = open(path, O_RDONLY); if (fd < 0) return 0;
  off_t sz = lseek(fd, 0, SEEK_END); unsigned char *b = malloc(sz + 1);
  if (pread(fd, b, sz, 0) != sz) { perror("slurp"); exit(2); }
  close(fd); *n = sz; return b;
}

static void c07_setup(const c07_case *c, const unsigned char *in, size_t n) {
  static unsigned char tmp[70000];
  if (c07_curfile) { FILE *f = fopen(c07_curfile, "w"); if (f) { c07_print_case(f, c); fputc('\n', f); fclose(f); } }
  if (c07_real(c)) {
    if (!c07_rqqbin) { fprintf(stderr, "C07_RQQBIN not set\n"); exit(2); }
    setenv("QMAILQUEUE", c07_rqqbin, 1); c07_qclean();
  } else setenv("QMAILQUEUE", c07_qqbin, 1);
  for (int i = 0; i < NENV; i++) {
    if (c->env[i][0] == '~') unsetenv(c07_envname[i]);
    else { size_t l = c07_unhex(c->env[i], tmp); tmp[l] = 0; setenv(c07_envname[i], (char *)tmp, 1); }
  }
  if (c->databytes >= 0) { char b[32]; snprintf(b, sizeof b, "%ld", c->databytes); setenv("DATABYTES", b, 1); }
  else unsetenv("DATABYTES");
  setenv("C07_QQ", c->qq, 1);
  c07_now = c->now; c07_wfault = c->wfault; c07_wcount = 0; c07_chunk = c->chunk;
  c07_in = in; c07_in_n = n; c07_in_pos = 0; c07_npid = 0;
  hbuf_reset(&c07_outb);
  if (ftruncate(REC_FD, 0) < 0 || lseek(REC_FD, 0, SEEK_SET) < 0) { perror("rec reset"); exit(2); }
}

/* after the daemon "exited": the kernel would close its descriptors; reap the stand-ins; print the result */
static void c07_finish(const c07_case *c, int exitcode) {
  int ofd = fileno(h_out);
  for (int fd = 3; fd < 64; fd++) if (fd != ofd) close(fd);
  while (waitpid(-1, 0, 0) > 0) ;
  /* records */
  off_t sz = lseek(REC_FD, 0, SEEK_END);
  unsigned char *r = malloc(sz + 1);
  if (pread(REC_FD, r, sz, 0) != sz) { perror("rec read"); exit(2); }
  if (!c07_real(c)) {
    fprintf(h_out, "%c %ld %ld", c->proto, c->databytes, c->now);
    for (int i = 0; i < NENV; i++) fprintf(h_out, " %s", c->env[i]);
    fprintf(h_out, " %s %ld %d", c->qq, c->wfault, c->chunk);
    for (int i = 0; i < c->npay; i++) fprintf(h_out, " %s", c->pay[i]);
    fprintf(h_out, " = %d ", exitcode); h_hex(c07_outb.p, c07_outb.n);
    fputc(' ', h_out);
    if (!c07_npid) fputc('-', h_out);
    for (int i = 0; i < c07_npid; i++) fprintf(h_out, "%s%ld", i ? "," : "", c07_pids[i]);
    int nrec = 0; off_t pos = 0;
    while (pos + 9 <= sz && r[pos] == 'R') { uint32_t a, b; memcpy(&a, r + pos + 1, 4); memcpy(&b, r + pos + 5 + a, 4); pos += 9 + a + b; nrec++; }
    fprintf(h_out, " %d", nrec);
    pos = 0;
    for (int k = 0; k < nrec; k++) {
      uint32_t a, b; memcpy(&a, r + pos + 1, 4); memcpy(&b, r + pos + 5 + a, 4);
      fputc(' ', h_out); h_hex(r + pos + 5, a); fputc(' ', h_out); h_hex(r + pos + 9 + a, b);
      pos += 9 + a + b;
    }
    fputc('\n', h_out);
    free(r);
    return;
  }
  /* real-queue leg: one record per run of harness/c07_rqq.c:  'R' u32 n0 <fd0> u32 n1 <fd1> 'X' u32 exit u32 pid u64 inode */
  struct { int have; uint32_t code; unsigned long long ino; const unsigned char *f0, *f1; uint32_t n0, n1; } run[64];
  memset(run, 0, sizeof run);
  for (off_t pos = 0; pos + 9 <= sz && r[pos] == 'R'; ) {
    uint32_t a, b, code, pid; unsigned long long ino;
    memcpy(&a, r + pos + 1, 4); memcpy(&b, r + pos + 5 + a, 4);
    const unsigned char *x = r + pos + 9 + a + b;
    if (x + 17 > r + sz || x[0] != 'X') break;
    memcpy(&code, x + 1, 4); memcpy(&pid, x + 5, 4); memcpy(&ino, x + 9, 8);
    for (int i = 0; i < c07_npid; i++) if ((long)pid == c07_pids[i] && !run[i].have) {
      run[i].have = 1; run[i].code = code; run[i].ino = ino; run[i].f0 = r + pos + 5; run[i].n0 = a; run[i].f1 = r + pos + 9 + a; run[i].n1 = b; break;
    }
    pos += 9 + a + b + 17;
  }
  fprintf(h_out, "%c %ld %ld", c->proto, c->databytes, c->now);
  for (int i = 0; i < NENV; i++) fprintf(h_out, " %s", c->env[i]);
  fputc(' ', h_out);
  if (!c07_npid) fputs("0,0,-", h_out);
  for (int i = 0; i < c07_npid; i++) fprintf(h_out, "%s%d,0,-", i ? ";" : "", run[i].have ? (int)run[i].code : 111);
  fprintf(h_out, " %ld %d", c->wfault, c->chunk);
  for (int i = 0; i < c->npay; i++) fprintf(h_out, " %s", c->pay[i]);
  fprintf(h_out, " = %d ", exitcode); h_hex(c07_outb.p, c07_outb.n);
  fputc(' ', h_out);
  if (!c07_npid) fputc('-', h_out);
  for (int i = 0; i < c07_npid; i++) fprintf(h_out, "%s%ld", i ? "," : "", c07_pids[i]);
  fprintf(h_out, " %d", c07_npid);
  for (int i = 0; i < c07_npid; i++) { fputc(' ', h_out); h_hex(run[i].f0, run[i].n0); fputc(' ', h_out); h_hex(run[i].f1, run[i].n1); }
  /* what is in the queue directory now */
  fprintf(h_out, " + %d", c07_npid);
  int ncommitted = 0;
  for (int i = 0; i < c07_npid; i++) {
    char p[700]; size_t mn = 0, tn = 0; unsigned char *mb = 0, *tb = 0; int committed = 0;
    if (run[i].have && run[i].ino) {
      snprintf(p, sizeof p, "%s/queue/todo/%llu", c07_home, run[i].ino);
      /* inode numbers are reused within a session (a run that cleaned up frees its number for the next one): the entry belongs
         to this run only if it carries this run's pid ("u<uid>\0p<pid>\0...") */
      tb = c07_slurp(p, &tn);
      if (tb) { char want[40]; int wl = snprintf(want, sizeof want, "p%ld", c07_pids[i]);
        size_t z = 0; while (z < tn && tb[z]) z++;
        committed = z + 1 + wl + 1 <= tn && !memcmp(tb + z + 1, want, wl) && tb[z + 1 + wl] == 0;
        if (!committed) { free(tb); tb = 0; tn = 0; } }
      if (committed) {
        ncommitted++;
        snprintf(p, sizeof p, "%s/queue/mess/%llu/%llu", c07_home, run[i].ino % (unsigned long long)c07_split, run[i].ino); mb = c07_slurp(p, &mn);
      }
    }
    fprintf(h_out, " %d %d ", run[i].have ? (int)run[i].code : -1, committed);
    h_hex(mb, mn); fputc(' ', h_out); h_hex(tb, tn);
    free(mb); free(tb);
  }
  { char p[700]; int ntodo = 0; snprintf(p, sizeof p, "%s/queue/todo", c07_home);
    DIR *d = opendir(p);
    if (d) { for (struct dirent *e; (e = readdir(d)); ) if (e->d_name[0] != '.') ntodo++; closedir(d); }
    fprintf(h_out, " %d\n", ntodo - ncommitted); }
  free(r);
  c07_qclean();
}

/* parse a case line (fields split in place); returns 0 on failure */
static int c07_parse(char *line, c07_case *c) {
  char *f[16 + C07_MAXF]; int nf = 0;
  if (!strncmp(line, "case=", 5)) line += 5;      /* the case= field of a DISAGREE/ORACLE line can be replayed as it is */
  for (char *t = strtok(line, " |\r\n"); t && nf < 16 + C07_MAXF; t = strtok(0, " |\r\n")) f[nf++] = t;
  if (nf < 13) return 0;
  c->proto = f[0][0]; c->databytes = atol(f[1]); c->now = atol(f[2]);
  for (int i = 0; i < NENV; i++) c->env[i] = f[3 + i];
  c->qq = f[9]; c->wfault = atol(f[10]); c->chunk = atoi(f[11]);
  c->npay = 0;
  for (int i = 12; i < nf; i++) { if (!strcmp(f[i], "=")) break; c->pay[c->npay++] = f[i]; }
  return 1;
}

/* ---- generator helpers */
static const char *c07_hosts[] = { "~", "client.example", "evil (host)\n name", "UPPER.Example", "a", "[10.1.2.3]", "x\ty<z>;\"q\"", "h\xc3\xa9t\xe9", "-" };
static const char *c07_ips[] = { "~", "10.0.0.1", "::1", "1.2.3.4\r\nX: y", "127.0.0.1" };
static const char *c07_infos[] = { "~", "~", "user", "ro ot@x", "-", "a)b(c" };
static const char *c07_lhosts[] = { "~", "mx.local.example", "my host" };
static const char *c07_lips[] = { "~", "192.0.2.9" };
static const long c07_times[] = { 0, 59, 86399, 86400, 951782399, 951782400, 951868800, 68169600, 68255999, 68256000, 94694400, 1078012800, 1078099200,
                                   1230768000, 1234567890, 1767225599, 1790294400, 2147483647, 2147483648, 4102444800, 4107542400, 32503680000, 253402300799 };
#define C07_N(a) ((int)(sizeof(a) / sizeof((a)[0])))

static char *c07_pick(const char **tab, int n, unsigned k) {
  const char *s = tab[k % n];
  if (s[0] == '~' && !s[1]) return strdup("~");
  if (s[0] == '-' && !s[1]) return strdup("-");
  return c07_hexs(s);
}
/* default environment; variant v chooses other peers/clock */
static void c07_defaults(c07_case *c, char proto, unsigned v) {
  c->proto = proto; c->databytes = -1;
  c->now = c07_times[v % C07_N(c07_times)];
  c->env[0] = c07_pick(c07_hosts, C07_N(c07_hosts), v);
  c->env[1] = c07_pick(c07_ips, C07_N(c07_ips), v / 2);
  c->env[2] = c07_pick(c07_infos, C07_N(c07_infos), v / 3);
  c->env[3] = c07_pick(c07_lhosts, C07_N(c07_lhosts), v / 5);
  c->env[4] = c07_pick(c07_lips, C07_N(c07_lips), v / 7);
  c->env[5] = strdup("~");
  c->qq = strdup("0,0,-"); c->wfault = -1; c->chunk = 0; c->npay = 0;
}
static void c07_free(c07_case *c) {
  for (int i = 0; i < NENV; i++) free(c->env[i]);
  free(c->qq);
  for (int i = 0; i < c->npay; i++) free(c->pay[i]);
  c->npay = 0;
}
static char *c07_qqscript(int code, int sig, const char *text) {
  char *h = text ? c07_hexs(text) : strdup("-");
  char *s = malloc(strlen(h) + 40);
  sprintf(s, "%d,%d,%s", code, sig, h); free(h); return s;
}
static const char *c07_texts[] = { "Dpolicy says no (#5.7.1)", "Ztry again later (#4.3.0)", "D", "Zx", "Dxy", "Xneither", "", "Zline1\nline2",
  "Dthis text is rather long: 0123456789012345678901234567890123456789012345678901234567890123456789012345678901234567890123456789012345678901234567890123456789012345678901234567890123456789012345678901234567890123456789012345678901234567890123456789012345678901234567890123456789END" };

/* append a netstring */
static void c07_ns(hbuf *b, const void *p, size_t n) {
  char l[32]; int k = snprintf(l, sizeof l, "%zu:", n);
  hbuf_add(b, l, k); if (n) hbuf_add(b, p, n); hbuf_add(b, ",", 1);
}

/* ---- every byte value in every peer-supplied string: TCPREMOTEHOST, TCPREMOTEIP, TCPREMOTEINFO, TCPLOCALHOST, TCPLOCALIP (with
 * TCPLOCALHOST unset) and - SMTP - the HELO / EHLO argument.  Variant k of C07_NPEERV:
 *   k < 256            every string is the single byte k (HELO: the byte twice, so that it differs from TCPREMOTEHOST and is shown)
 *   then 6 x 64        string number f is  'p' j j+64 j+128 j+192 'q'  (four byte values inside a longer string), the others ordinary
 *   then 6             string number f holds all of 1..255
 * A NUL ends a C string (the environment cannot hold one; the driver applies the same cut), an LF would end the SMTP command: in the
 * HELO argument 10 is replaced by 11.  *helo: NULL or a malloc'ed hex string ("!" in front = EHLO). */
#define C07_NPEERV (256 + 6 * 64 + 6)
#define C07_PEER_HELO_ONLY(k) (((k) >= 256 + 5 * 64 && (k) < 256 + 6 * 64) || (k) == 256 + 6 * 64 + 5)
static void c07_peer_variant(c07_case *c, char proto, unsigned k, char **helo) {
  unsigned char v[6][260]; size_t n[6]; int set[6] = { 0, 0, 0, 0, 0, 0 };
  c07_defaults(c, proto, k);
  if (k < 256) { for (int f = 0; f < 6; f++) { v[f][0] = v[f][1] = (unsigned char)k; n[f] = f == 5 ? 2 : 1; set[f] = 1; } }
  else if (k < 256 + 6 * 64) { unsigned f = (k - 256) / 64, j = (k - 256) % 64;
    v[f][0] = 'p'; for (int i = 0; i < 4; i++) v[f][1 + i] = (unsigned char)(j + 64 * i); v[f][5] = 'q'; n[f] = 6; set[f] = 1; }
  else { unsigned f = k - 256 - 6 * 64; for (int i = 0; i < 255; i++) v[f][i] = (unsigned char)(i + 1); n[f] = 255; set[f] = 1; }
  for (int f = 0; f < 5; f++) if (set[f]) { free(c->env[f]); c->env[f] = c07_hexdup(v[f], n[f]); }
  if (set[4] && !set[3]) { free(c->env[3]); c->env[3] = strdup("~"); }      /* TCPLOCALIP is used only when TCPLOCALHOST is unset */
  if (k < 256 && (k & 1)) { free(c->env[3]); c->env[3] = strdup("~"); }
  *helo = 0;
  if (set[5]) {
    for (size_t i = 0; i < n[5]; i++) if (v[5][i] == '\n') v[5][i] = 11;
    char *h = c07_hexdup(v[5], n[5]);
    if (k & 2) { *helo = malloc(strlen(h) + 2); sprintf(*helo, "!%s", h); free(h); } else *helo = h;
  }
}

/* ---- address lengths: 0..1005 coarsely, every length around the limits and buffer sizes (ssout 256, 900, 1000, 1003, qmail.c's 1024) */
static int c07_addrlen(int i) {      /* i-th length of the sweep, -1 at the end */
  static int tab[200], n = 0;
  if (!n) {
    for (int l = 0; l <= 2; l++) tab[n++] = l;
    for (int l = 50; l <= 850; l += 50) tab[n++] = l;
    for (int l = 250; l <= 260; l++) tab[n++] = l;
    for (int l = 890; l <= 910; l++) tab[n++] = l;
    for (int l = 990; l <= 1010; l++) tab[n++] = l;
    for (int l = 1018; l <= 1030; l++) tab[n++] = l;
  }
  return i < n ? tab[i] : -1;
}

static uint64_t c07_id; static int c07_shard, c07_nshards, c07_thorough;
static int c07_mine(void) { return (int)(c07_id++ % (uint64_t)c07_nshards) == c07_shard; }
#endif
