/* C17: generator of RFC 822 address lists with the listed mailboxes known by construction.
 * Every random choice comes from hcommon.h's splitmix64 stream. */
#ifndef C17_GEN_H
#define C17_GEN_H
#include "hcommon.h"

typedef struct { unsigned char l[96]; int ln; unsigned char h[96]; int hn; /* hn < 0: no host */ } gmbox;
typedef struct { hbuf text; gmbox mb[64]; int nmb; } glist;

static void g_c(hbuf *b, int c) { unsigned char ch = c; hbuf_add(b, &ch, 1); }
static void g_s(hbuf *b, const char *s) { hbuf_add(b, s, strlen(s)); }

static const char g_atomch[] = "abcxyzABC0189_-!#$%&'*/=?^`{|}~";
static const char g_qch[] = "ab c.,;:<>@()[]\"\\\t\r\x80\xff+-";

/* optional white space / folding / comment between two tokens; `need` = at least one blank */
static int g_fold_ok = 1;
static int g_route_ok = 1;   /* generate <@route:addr-spec> */
static void g_comment(hbuf *b, int depth) {
  g_c(b, '(');
  int n = h_below(5);
  for (int i = 0; i < n; i++) {
    uint32_t x = h_below(12);
    if (x == 0 && depth < 2) g_comment(b, depth + 1);
    else if (x == 1) { g_c(b, '\\'); g_c(b, "()\\\"a"[h_below(5)]); }
    else if (x == 2) g_c(b, ' ');
    else if (x == 3) g_c(b, "<>@,;:.[]\""[h_below(10)]);
    else g_c(b, g_atomch[h_below(sizeof g_atomch - 1)]);
  }
  g_c(b, ')');
}
static void g_ws(hbuf *b, int need) {
  uint32_t x = h_below(16);
  if (x < 9) { if (need) g_c(b, ' '); return; }
  if (x < 11) { g_c(b, ' '); return; }
  if (x == 11) { g_c(b, '\t'); return; }
  if (x == 12) { g_s(b, "  "); return; }
  if (x == 13 && g_fold_ok) { g_s(b, h_below(2) ? "\n " : "\n\t"); return; }
  if (x == 14) { if (need) g_c(b, ' '); g_comment(b, 0); if (h_below(2)) g_c(b, ' '); return; }
  if (need) g_c(b, ' ');
}

/* a word of a local part: appends its text to b and its value to v */
static void g_atom(hbuf *b, unsigned char *v, int *vn, int maxlen) {
  int n = 1 + h_below(maxlen);
  for (int i = 0; i < n; i++) { int c = g_atomch[h_below(sizeof g_atomch - 1)]; g_c(b, c); v[(*vn)++] = c; }
}
static void g_qstring(hbuf *b, unsigned char *v, int *vn) {
  int n = h_below(6);
  g_c(b, '"');
  for (int i = 0; i < n; i++) {
    int c = (unsigned char)g_qch[h_below(sizeof g_qch - 1)];
    if (c == '"' || c == '\\' || h_below(10) == 0) g_c(b, '\\');
    g_c(b, c); v[(*vn)++] = c;
  }
  g_c(b, '"');
}
static void g_local(hbuf *b, gmbox *m) {
  int words = 1 + (h_below(4) == 0) + (h_below(8) == 0);
  m->ln = 0;
  for (int i = 0; i < words; i++) {
    if (i) { g_ws(b, 0); g_c(b, '.'); m->l[m->ln++] = '.'; g_ws(b, 0); }
    if (h_below(4) == 0) g_qstring(b, m->l, &m->ln); else g_atom(b, m->l, &m->ln, 5);
  }
}
static void g_host(hbuf *b, gmbox *m) {
  uint32_t k = h_below(10);
  m->hn = 0;
  if (h_below(40) == 0) { g_c(b, '+'); m->h[m->hn++] = '+'; return; }   /* the bare host "+" (audit: rwplus leaves an EMPTY atom) */
  if (k == 0) { /* domain literal */
    static const char *lits[] = { "[1.2.3.4]", "[127.0.0.1]", "[10.0.0.255]", "[x]" };
    const char *s = lits[h_below(4)];
    g_s(b, s); memcpy(m->h, s, strlen(s)); m->hn = strlen(s);
    return;
  }
  int labels = (k <= 3) ? 1 : 2 + h_below(2);
  for (int i = 0; i < labels; i++) {
    if (i) { g_ws(b, 0); g_c(b, '.'); m->h[m->hn++] = '.'; g_ws(b, 0); }
    int n = 1 + h_below(4);
    for (int j = 0; j < n; j++) { int c = "abchost019-"[h_below(11)]; g_c(b, c); m->h[m->hn++] = c; }
  }
  if (h_below(7) == 0) { g_c(b, '+'); m->h[m->hn++] = '+'; }
}
static void g_addrspec(hbuf *b, gmbox *m, int allow_nohost) {
  g_local(b, m);
  if (allow_nohost && h_below(6) == 0) { m->hn = -1; return; }
  g_ws(b, 0); g_c(b, '@'); g_ws(b, 0);
  g_host(b, m);
}
static void g_phrase(hbuf *b) {
  int words = 1 + h_below(3);
  unsigned char dummy[64]; int dn;
  for (int i = 0; i < words; i++) {
    if (i) g_ws(b, 1);
    dn = 0;
    if (h_below(3) == 0) g_qstring(b, dummy, &dn); else g_atom(b, dummy, &dn, 6);
    if (h_below(8) == 0) g_c(b, '.');   /* "John Q. Public" */
  }
}
/* one mailbox; bare_only: a bare addr-spec (the only form that may follow its predecessor without a comma:
 * `a@b Joe <c@d>` and `a@b <c@d>` read a@b as part of the display name) */
static int g_mailbox(glist *g, int bare_only) {
  hbuf *b = &g->text;
  gmbox *m = &g->mb[g->nmb++];
  uint32_t k = bare_only ? 0 : h_below(8);
  if (k <= 3) { g_addrspec(b, m, 1); return 1; }
  if (k == 4) { g_c(b, '<'); g_ws(b, 0); g_addrspec(b, m, 1); g_ws(b, 0); g_c(b, '>'); return 1; }
  g_phrase(b); g_ws(b, 0); g_c(b, '<'); g_ws(b, 0);
  if (k == 7 && g_route_ok) { /* route */
    int hops = 1 + h_below(2);
    gmbox dummy;
    for (int i = 0; i < hops; i++) { if (i) g_c(b, ','); g_c(b, '@'); g_host(b, &dummy); }
    g_c(b, ':'); g_ws(b, 0);
    g_addrspec(b, m, 0);
  } else g_addrspec(b, m, 1);
  g_ws(b, 0); g_c(b, '>');
  return 0;
}
/* an address list with up to maxitems items (mailboxes and groups) */
static void gen_addrlist(glist *g, int maxitems) {
  hbuf *b = &g->text;
  int items = h_below(maxitems + 1);
  int prev_open = 0;   /* previous item present */
  for (int i = 0; i < items && g->nmb < 56; i++) {
    int nocomma = prev_open && h_below(6) == 0;
    if (prev_open) { if (nocomma) { g_c(b, ' '); g_ws(b, 0); } else { g_ws(b, 0); g_c(b, ','); g_ws(b, 0); } }
    if (!nocomma && h_below(7) == 0) { /* group */
      g_phrase(b); g_ws(b, 0); g_c(b, ':'); g_ws(b, 0);
      int n = h_below(4);
      for (int j = 0; j < n; j++) { if (j) { g_ws(b, 0); g_c(b, ','); g_ws(b, 0); } g_mailbox(g, 0); }
      g_ws(b, 0); g_c(b, ';');
    } else g_mailbox(g, nocomma);
    prev_open = 1;
  }
}
static void g_mbox_print(FILE *f, const gmbox *m) {
  static const char d[] = "0123456789abcdef";
  if (m->ln == 0) fputc('-', f);
  for (int i = 0; i < m->ln; i++) { fputc(d[m->l[i] >> 4], f); fputc(d[m->l[i] & 15], f); }
  fputc('/', f);
  if (m->hn < 0) { fputc('~', f); return; }
  if (m->hn == 0) fputc('-', f);
  for (int i = 0; i < m->hn; i++) { fputc(d[m->h[i] >> 4], f); fputc(d[m->h[i] & 15], f); }
}
#endif
