/* qsim — see sim.h.  Compiled into every H3 harness. */
#define _GNU_SOURCE
#include "sim.h"
#include <stdarg.h>
#include <dlfcn.h>
#include <pwd.h>
#include <grp.h>
#include <signal.h>
#include <sys/file.h>
#include <sys/syscall.h>
#include <utime.h>

simworld W;
simproc P[SIM_MAXPROC];
__thread simproc *sim_cur;
__thread int sim_on;
hbuf sim_trace;
int sim_trace_on = 1;
simfault sim_faults[8]; int sim_nfaults; int sim_fault_fired;
unsigned long sim_crash_before;
int sim_threads;
int sim_gate_close;
const char *sim_pending_call[SIM_MAXPROC];
const char *sim_pending_arg[SIM_MAXPROC];     /* path argument of the pending call (open, link target, unlink, stat, rename target), else 0 */
static int world_crashed;
static void (*sig_handler_tab[SIM_MAXPROC][65])(int);
#define sig_handler sig_handler_tab

/* ------------------------------------------------------------------ helpers */

void sim_tr(const char *fmt, ...) {
  if (!sim_trace_on) return;
  char b[1200]; va_list ap; va_start(ap, fmt); int n = vsnprintf(b, sizeof b, fmt, ap); va_end(ap);
  if (n > (int)sizeof b - 1) n = sizeof b - 1;
  hbuf_add(&sim_trace, b, n);
}
#define PI (sim_cur ? sim_cur->idx : -1)
static void sim_tr_hex(const void *buf, size_t n) {
  if (!sim_trace_on) return;
  static const char d[] = "0123456789abcdef"; const unsigned char *p = buf;
  if (!n) { hbuf_add(&sim_trace, "-", 1); return; }
  for (size_t i = 0; i < n; i++) { char h[2] = { d[p[i] >> 4], d[p[i] & 15] }; hbuf_add(&sim_trace, h, 2); }
}

static void *real(const char *name) { void *f = dlsym(RTLD_NEXT, name); if (!f) abort(); return f; }

static void normpath(const char *cwd, const char *path, char *out, size_t outsz) {
  char tmp[420];
  if (path[0] == '/') snprintf(tmp, sizeof tmp, "%s", path);
  else snprintf(tmp, sizeof tmp, "%s/%s", cwd, path);
  /* collapse //, /./ and trailing / ; resolve .. */
  char *segs[64]; int ns = 0; char *save = 0;
  for (char *t = strtok_r(tmp, "/", &save); t; t = strtok_r(0, "/", &save)) {
    if (!strcmp(t, ".")) continue;
    if (!strcmp(t, "..")) { if (ns) ns--; continue; }
    if (ns < 64) segs[ns++] = t;
  }
  size_t o = 0; out[0] = 0;
  if (ns == 0) { snprintf(out, outsz, "/"); return; }
  for (int i = 0; i < ns; i++) o += snprintf(out + o, outsz - o, "/%s", segs[i]);
}

int sim_lookup(const char *abspath) {
  for (int i = 0; i < W.ndent; i++) if (W.dent[i].ino >= 0 && !strcmp(W.dent[i].path, abspath)) return W.dent[i].ino;
  return -1;
}
static int dent_index(const char *abspath) {
  for (int i = 0; i < W.ndent; i++) if (W.dent[i].ino >= 0 && !strcmp(W.dent[i].path, abspath)) return i;
  return -1;
}
static int parent_is_dir(const char *abspath) {
  char par[200]; snprintf(par, sizeof par, "%s", abspath);
  char *s = strrchr(par, '/'); if (!s) return 0;
  if (s == par) return 1;
  *s = 0;
  int ino = sim_lookup(par);
  return ino >= 0 && W.ino[ino].type == SI_DIR;
}
static int ino_alloc(int type, uid_t uid, int mode) {
  int i;
  for (i = W.ino_base; i < SIM_MAXINO; i++) if (W.ino[i].type == SI_FREE) break;
  if (i == SIM_MAXINO) { fprintf(stderr, "sim: out of inodes\n"); abort(); }
  siminode *n = &W.ino[i];
  hbuf c = n->cur, d = n->dur;       /* keep allocations */
  memset(n, 0, sizeof *n); n->cur = c; n->dur = d; n->cur.n = n->dur.n = 0;
  n->type = type; n->uid = uid; n->mode = mode; n->atime = n->mtime = W.clock; n->lockproc = -1;
  return i;
}
static void ino_maybe_free(int ino) {
  siminode *n = &W.ino[ino];
  if (n->type != SI_FREE && n->nlink == 0 && n->nopen == 0) n->type = SI_FREE;
}
static int dent_add(const char *abspath, int ino) {
  if (W.ndent >= SIM_MAXDENT) { fprintf(stderr, "sim: out of dents\n"); abort(); }
  snprintf(W.dent[W.ndent].path, sizeof W.dent[0].path, "%s", abspath);
  W.dent[W.ndent].ino = ino; W.ndent++;
  W.ino[ino].nlink++;
  return 0;
}

/* ------------------------------------------------------------------ program globals */
static struct { char *a, *b, *snap; } greg[32]; static int ngreg;
void sim_globals_add(char *start, char *stop) { if (start && stop && stop > start) { greg[ngreg].a = start; greg[ngreg].b = stop; ngreg++; } }
__attribute__((no_sanitize("address", "undefined"))) static void rawcopy(char *d, const char *s, size_t n) {
  for (size_t i = 0; i < n; i++) ((volatile char *)d)[i] = s[i];
}
void sim_globals_snapshot(void) {
  for (int i = 0; i < ngreg; i++) { size_t n = greg[i].b - greg[i].a; greg[i].snap = malloc(n); rawcopy(greg[i].snap, greg[i].a, n); }
}
void sim_globals_restore(void) {
  for (int i = 0; i < ngreg; i++) rawcopy(greg[i].a, greg[i].snap, greg[i].b - greg[i].a);
}

/* ------------------------------------------------------------------ world set-up */

static struct { char name[24]; uid_t uid; gid_t gid; } users[24]; static int nusers;
void sim_user(const char *name, uid_t uid, gid_t gid) {
  snprintf(users[nusers].name, 24, "%s", name); users[nusers].uid = uid; users[nusers].gid = gid; nusers++;
}

void sim_reset(void) {
  for (int i = 0; i < SIM_MAXINO; i++) { W.ino[i].type = SI_FREE; W.ino[i].cur.n = W.ino[i].dur.n = 0; W.ino[i].nlink = W.ino[i].nopen = 0; }
  W.ndent = 0; W.nsrc = 0; W.npipe = 0; W.nsink = 0; W.clock = 1000000000; W.ino_base = 100; W.ino_off = 0; W.ncalls_total = 0;
  for (int i = 0; i < 16; i++) { W.src[i].data.n = 0; W.src[i].pos = 0; W.sink[i].n = 0; }
  for (int i = 0; i < 8; i++) { W.pipe[i].data.n = 0; }
  for (int i = 0; i < SIM_MAXPROC; i++) { P[i].used = 0; P[i].alive = 0; sim_pending_call[i] = 0; }
  memset(sig_handler_tab, 0, sizeof sig_handler_tab);
  sim_trace.n = 0; sim_nfaults = 0; sim_fault_fired = 0; sim_crash_before = 0; world_crashed = 0; nusers = 0;
  int root = ino_alloc(SI_DIR, 0, 0755);
  snprintf(W.dent[0].path, sizeof W.dent[0].path, "/"); W.dent[0].ino = root; W.ndent = 1; W.ino[root].nlink = 1;
}
int sim_mkdir_p(const char *path, uid_t uid, int mode) {
  char acc[200] = ""; char tmp[200]; snprintf(tmp, sizeof tmp, "%s", path); char *save = 0;
  int ino = -1;
  for (char *t = strtok_r(tmp, "/", &save); t; t = strtok_r(0, "/", &save)) {
    size_t l = strlen(acc); snprintf(acc + l, sizeof acc - l, "/%s", t);
    ino = sim_lookup(acc);
    if (ino < 0) { ino = ino_alloc(SI_DIR, uid, mode); dent_add(acc, ino); }
  }
  return ino;
}
int sim_mkfile(const char *path, const void *data, size_t n, uid_t uid, int mode) {
  int ino = ino_alloc(SI_FILE, uid, mode); dent_add(path, ino);
  hbuf_add(&W.ino[ino].cur, data, n); hbuf_add(&W.ino[ino].dur, data, n);
  return ino;
}
int sim_mkfile_ino(const char *fmt, int split, const void *data, size_t n, uid_t uid, int mode) {
  int ino = ino_alloc(SI_FILE, uid, mode); char path[200];
  if (W.ino_off) {   /* same name, built from the reported number: every %d of fmt becomes %llu */
    char f2[200]; size_t k = 0; for (const char *q = fmt; *q && k + 5 < sizeof f2; q++) if (q[0] == '%' && q[1] == 'd') { memcpy(f2 + k, "%llu", 4); k += 4; q++; } else f2[k++] = *q;
    f2[k] = 0; unsigned long long r = SIM_RINO(ino);
    if (split) snprintf(path, sizeof path, f2, r % (unsigned long long)split, r); else snprintf(path, sizeof path, f2, r);
  } else if (split) snprintf(path, sizeof path, fmt, ino % split, ino); else snprintf(path, sizeof path, fmt, ino);
  dent_add(path, ino);
  hbuf_add(&W.ino[ino].cur, data, n); hbuf_add(&W.ino[ino].dur, data, n);
  return ino;
}
int sim_link_(const char *a, const char *b) { int ino = sim_lookup(a); if (ino < 0) return -1; dent_add(b, ino); return 0; }
int sim_mkfifo_(const char *path, uid_t uid, int mode) { int ino = ino_alloc(SI_FIFO, uid, mode); dent_add(path, ino); return ino; }

simproc *sim_proc(int idx, const char *name, long pid, uid_t uid, const char *cwd) {
  simproc *p = &P[idx]; memset(p, 0, sizeof *p);
  p->used = 1; p->alive = 1; p->idx = idx; snprintf(p->name, sizeof p->name, "%s", name);
  snprintf(p->cwd, sizeof p->cwd, "%s", cwd); p->uid = p->euid = uid; p->pid = pid;
  return p;
}
int sim_fd_source(simproc *p, int fd, const void *data, size_t n, int chunk) {
  int id = W.nsrc++; W.src[id].data.n = 0; hbuf_add(&W.src[id].data, data, n); W.src[id].pos = 0; W.src[id].chunk = chunk;
  W.src[id].eof_is_error = 0; W.src[id].closed = 0;
  p->fd[fd].kind = SFD_SOURCE; p->fd[fd].aux = id; p->fd[fd].flags = 0; return id;
}
int sim_fd_sink(simproc *p, int fd) { int id = W.nsink++; W.sink[id].n = 0; p->fd[fd].kind = SFD_SINK; p->fd[fd].aux = id; p->fd[fd].flags = 0; return id; }
int sim_fd_null(simproc *p, int fd) { p->fd[fd].kind = SFD_NULL; return 0; }
int sim_pipe_new(void) { int id = W.npipe++; memset(&W.pipe[id].wclosed, 0, sizeof(simpipe) - sizeof(hbuf)); W.pipe[id].data.n = 0; return id; }
void sim_fd_pipe(simproc *p, int fd, int pipeid, int writer) {
  p->fd[fd].kind = writer ? SFD_PIPE_W : SFD_PIPE_R; p->fd[fd].aux = pipeid; p->fd[fd].flags = 0;
  if (writer) W.pipe[pipeid].writers++; else W.pipe[pipeid].readers++;
}

/* ------------------------------------------------------------------ scheduling / faults / crash */

static pthread_mutex_t mu = PTHREAD_MUTEX_INITIALIZER;
static pthread_cond_t cv = PTHREAD_COND_INITIALIZER;
static int running = -1;
static void sim_block(int (*pred)(simproc *), const char *what);
static int default_pick(int n, int *idx, const char **what) { return 0; }
int (*sim_pick)(int n, int *idx, const char **what) = default_pick;

__attribute__((noreturn)) static void proc_leave(simproc *p) {
  /* release everything the process holds */
  for (int fd = 0; fd < SIM_MAXFD; fd++) if (p->fd[fd].kind != SFD_FREE) {
    simfd *f = &p->fd[fd];
    if (f->kind == SFD_FILE || f->kind == SFD_FIFO_R || f->kind == SFD_FIFO_W) {
      siminode *n = &W.ino[f->ino]; n->nopen--;
      if (f->kind == SFD_FIFO_R) n->readers--;
      if (f->kind == SFD_FIFO_W) n->writers--;
      if (n->type == SI_FIFO && n->readers == 0 && n->writers == 0) n->buffered = 0;
      if (n->lockproc == p->idx) n->lockproc = -1;
      ino_maybe_free(f->ino);
    } else if (f->kind == SFD_PIPE_W) { if (--W.pipe[f->aux].writers == 0) W.pipe[f->aux].wclosed = 1; }
    else if (f->kind == SFD_PIPE_R) { if (--W.pipe[f->aux].readers == 0) W.pipe[f->aux].rclosed = 1; }
    f->kind = SFD_FREE;
  }
  p->alive = 0;
  sim_on = 0;
  if (sim_threads) {
    pthread_mutex_lock(&mu); p->finished = 1; running = -1; pthread_cond_broadcast(&cv); pthread_mutex_unlock(&mu);
    pthread_exit(0);
  }
  longjmp(p->exitjb, 1);
}

/* every interposed call that can fail or that mutates shared state passes through here */
void (*sim_gate_hook)(simproc *p, const char *what);   /* called at every gated call after the scheduler let it through */
static int sim_gate(const char *what, int *err) {
  simproc *p = sim_cur;
  if (sim_threads) {
    sim_pending_call[p->idx] = what;
    pthread_mutex_lock(&mu);
    running = -1; pthread_cond_broadcast(&cv);
    while (running != p->idx) pthread_cond_wait(&cv, &mu);
    pthread_mutex_unlock(&mu);
    sim_pending_call[p->idx] = 0; sim_pending_arg[p->idx] = 0;
  }
  if (world_crashed) { p->crashed = 1; proc_leave(p); }
  W.ncalls_total++;
  p->ncalls++;
  if (sim_gate_hook) sim_gate_hook(p, what);      /* opt-in observer (C16: virtual time passing inside a helper's call); unset = no effect */
  if (sim_crash_before && W.ncalls_total == sim_crash_before) {
    world_crashed = 1; p->crashed = 1;
    sim_tr("P%d CRASH before #%d %s\n", p->idx, p->ncalls, what);
    proc_leave(p);
  }
  /* opt-in fault kind -3 (C12): virtual time jumps ahead before this call, so that a pending alarm fires */
  for (int i = 0; i < sim_nfaults; i++)
    if (sim_faults[i].err == -3 && sim_faults[i].proc == p->idx && sim_faults[i].callno == p->ncalls) { sim_fault_fired++; W.clock += 100000; sim_tr("P%d clockjump 100000\n", p->idx); }
  if (p->alarm_at && W.clock >= p->alarm_at) {
    /* SIGALRM: the default action or the program's handler; both modelled as the handler below */
    extern void sim_deliver_alarm(simproc *);
    p->alarm_at = 0;
    sim_deliver_alarm(p);
  }
  for (int i = 0; i < sim_nfaults; i++)
    if (sim_faults[i].proc == p->idx && sim_faults[i].callno == p->ncalls && sim_faults[i].err != -3) {
      sim_fault_fired++;
      if (sim_faults[i].err == -2) { world_crashed = 1; p->crashed = 1; sim_tr("P%d CRASH before #%d %s\n", p->idx, p->ncalls, what); proc_leave(p); }
      if (sim_faults[i].err == -4) { p->crashed = 1; p->exitcode = 137; sim_tr("P%d KILLED before #%d %s\n", p->idx, p->ncalls, what); proc_leave(p); }
      *err = sim_faults[i].err; return 1;
    }
  return 0;
}
#define GATE(what) int ferr = 0; int faulted = sim_gate(what, &ferr)
#define FAIL(e) do { errno = (e); return -1; } while (0)

/* signal handlers registered by the programs */
void sim_deliver_signal(simproc *p, int sig) {
  void (*h)(int) = sig_handler[p->idx][sig];
  sim_tr("P%d signal %d\n", p->idx, sig);
  if (h && h != SIG_IGN && h != SIG_DFL) h(sig);
  else if (h != SIG_IGN) { p->exitcode = 128 + sig; proc_leave(p); }
}
void sim_deliver_alarm(simproc *p) { sim_deliver_signal(p, SIGALRM); }

int sim_run(simproc *p, int (*mainfn)(void)) {
  simproc *save = sim_cur; int saveon = sim_on;
  sim_cur = p;
  if (setjmp(p->exitjb) == 0) {
    sim_on = 1;
    int r = mainfn();
    sim_on = 0;
    p->exitcode = r;
    sim_tr("P%d exit %d\n", p->idx, r);
    if (setjmp(p->exitjb) == 0) proc_leave(p);
  }
  sim_on = saveon; sim_cur = save;
  return p->exitcode;
}

static void *thread_main(void *arg) {
  simproc *p = arg;
  sim_cur = p;
  pthread_mutex_lock(&mu);
  while (running != p->idx) pthread_cond_wait(&cv, &mu);
  pthread_mutex_unlock(&mu);
  if (world_crashed) { p->crashed = 1; proc_leave(p); }
  if (p->start_pred) sim_block(p->start_pred, "start");
  sim_on = 1;
  int r = p->mainfn();
  sim_on = 0;
  p->exitcode = r;
  sim_tr("P%d exit %d\n", p->idx, r);
  proc_leave(p);
  return 0;
}
void sim_spawn(simproc *p, int (*mainfn)(void)) {
  p->mainfn = mainfn; p->finished = 0; p->blocked = 0;
  pthread_attr_t at; pthread_attr_init(&at); pthread_attr_setstacksize(&at, 1 << 20);
  pthread_create(&p->th, &at, thread_main, p);
}

/* blocked-ness is re-evaluated by the scheduler through this predicate */
static int (*blocked_pred[SIM_MAXPROC])(simproc *);
void (*sim_sink_hook)(simproc *, int);
int (*sim_idle_hook)(void);   /* called when every live process is blocked: may advance the clock; returns 0 to stop */

void sim_run_all(void) {
  for (;;) {
    pthread_mutex_lock(&mu);
    while (running != -1) pthread_cond_wait(&cv, &mu);
    int idx[SIM_MAXPROC]; const char *what[SIM_MAXPROC]; int n = 0, live = 0;
    for (int i = 0; i < SIM_MAXPROC; i++) if (P[i].used && P[i].mainfn && !P[i].finished) {
      live++;
      if (blocked_pred[i] && blocked_pred[i](&P[i])) continue;
      idx[n] = i; what[n] = sim_pending_call[i] ? sim_pending_call[i] : "start"; n++;
    }
    if (n == 0) {
      pthread_mutex_unlock(&mu);
      if (live == 0) break;
      if (sim_idle_hook && sim_idle_hook()) continue;
      /* deadlock / quiescence: crash the world so that the threads unwind */
      world_crashed = 1;
      pthread_mutex_lock(&mu);
      for (int i = 0; i < SIM_MAXPROC; i++) blocked_pred[i] = 0;
      pthread_mutex_unlock(&mu);
      continue;
    }
    int k = world_crashed ? 0 : sim_pick(n, idx, what);
    if (k < 0 || k >= n) k = 0;
    running = idx[k];
    pthread_cond_broadcast(&cv);
    pthread_mutex_unlock(&mu);
  }
  for (int i = 0; i < SIM_MAXPROC; i++) if (P[i].used && P[i].mainfn) { pthread_join(P[i].th, 0); P[i].mainfn = 0; }
}

void sim_wait(int (*pred)(simproc *), const char *what);
/* block the calling process until pred(p) is false (thread mode); in single-thread mode a block is a deadlock */
static void sim_block(int (*pred)(simproc *), const char *what) {
  simproc *p = sim_cur;
  if (!pred(p)) return;
  if (!sim_threads) { sim_tr("P%d DEADLOCK in %s\n", p->idx, what); p->exitcode = -99; proc_leave(p); }
  blocked_pred[p->idx] = pred;
  sim_pending_call[p->idx] = what;
  pthread_mutex_lock(&mu);
  running = -1; pthread_cond_broadcast(&cv);
  while (running != p->idx) pthread_cond_wait(&cv, &mu);
  blocked_pred[p->idx] = 0;
  pthread_mutex_unlock(&mu);
  if (world_crashed) { p->crashed = 1; proc_leave(p); }
}

void sim_wait(int (*pred)(simproc *), const char *what) { sim_block(pred, what); }

/* ------------------------------------------------------------------ crash relation */

void sim_apply_crash(int mode) {
  for (int i = 0; i < SIM_MAXINO; i++) {
    siminode *n = &W.ino[i];
    if (n->type == SI_FIFO) { n->readers = n->writers = n->buffered = 0; n->nopen = 0; }
    n->lockproc = -1;
    if (n->type != SI_FILE) { if (n->type != SI_FREE) n->nopen = 0; continue; }
    n->nopen = 0;
    if (mode != CR_KEEP && n->dirty) {
      if (n->dirty == 1 || mode == CR_LOSE) { n->cur.n = 0; hbuf_add(&n->cur, n->dur.p, n->dur.n); }
      else if (mode == CR_EMPTY) n->cur.n = 0;
      else if (mode == CR_GARBAGE) { for (size_t k = 0; k < n->cur.n; k++) n->cur.p[k] = 0xA5 ^ (unsigned char)k; }
      else if (mode == CR_HALF) { size_t d = n->dur.n < n->cur.n ? n->dur.n : n->cur.n; n->cur.n = d + (n->cur.n - d) / 2; }
    }
    n->dur.n = 0; hbuf_add(&n->dur, n->cur.p, n->cur.n); n->dirty = 0;
    ino_maybe_free(i);
  }
  for (int i = 0; i < W.npipe; i++) { W.pipe[i].data.n = 0; }
  world_crashed = 0; sim_crash_before = 0;
}

static int dent_cmp(const void *a, const void *b) { return strcmp(((const simdent *)a)->path, ((const simdent *)b)->path); }
void sim_dump(hbuf *out, const char *prefix, int with_content) {
  static simdent tmp[SIM_MAXDENT]; int n = 0;
  for (int i = 0; i < W.ndent; i++) if (W.dent[i].ino >= 0 && !strncmp(W.dent[i].path, prefix, strlen(prefix))) tmp[n++] = W.dent[i];
  qsort(tmp, n, sizeof tmp[0], dent_cmp);
  char b[400];
  for (int i = 0; i < n; i++) {
    siminode *x = &W.ino[tmp[i].ino];
    if (x->type == SI_DIR) continue;
    int l = snprintf(b, sizeof b, "%s ino=%llu size=%zu dirty=%d mtime=%ld atime=%ld", tmp[i].path + strlen(prefix), SIM_RINO(tmp[i].ino), x->cur.n, x->dirty, x->mtime, x->atime);
    hbuf_add(out, b, l);
    if (with_content && x->type == SI_FILE) {
      hbuf_add(out, " cur=", 5);
      static const char d[] = "0123456789abcdef";
      if (!x->cur.n) hbuf_add(out, "-", 1);
      for (size_t k = 0; k < x->cur.n; k++) { char h[2] = { d[x->cur.p[k] >> 4], d[x->cur.p[k] & 15] }; hbuf_add(out, h, 2); }
      hbuf_add(out, " dur=", 5);
      if (!x->dur.n) hbuf_add(out, "-", 1);
      for (size_t k = 0; k < x->dur.n; k++) { char h[2] = { d[x->dur.p[k] >> 4], d[x->dur.p[k] & 15] }; hbuf_add(out, h, 2); }
    }
    hbuf_add(out, "\n", 1);
  }
}

/* ------------------------------------------------------------------ the interposed libc */

static int fd_alloc(simproc *p, int from) { for (int i = from; i < SIM_MAXFD; i++) if (p->fd[i].kind == SFD_FREE) return i; return -1; }
static simfd *fd_get(int fd) { if (fd < 0 || fd >= SIM_MAXFD || sim_cur->fd[fd].kind == SFD_FREE) return 0; return &sim_cur->fd[fd]; }
static const char *rel(const char *abs) { const char *q = strstr(abs, "/queue/"); return q ? q + 7 : abs; }

static int fifo_wait_reader(simproc *p);
static const char *blk_path; static int blk_ino;

int open(const char *path, int flags, ...) {
  mode_t mode = 0;
  if (flags & O_CREAT) { va_list ap; va_start(ap, flags); mode = va_arg(ap, int); va_end(ap); }
  if (!sim_on) { static int (*f)(const char *, int, ...); if (!f) f = real("open"); return f(path, flags, mode); }
  simproc *p = sim_cur; char abs[200]; normpath(p->cwd, path, abs, sizeof abs);
  const char *kind = (flags & O_EXCL) ? "open_excl" : (flags & O_APPEND) ? "open_append" : (flags & O_TRUNC) ? "open_trunc"
                     : ((flags & O_ACCMODE) == O_WRONLY) ? "open_write" : "open_read";
  size_t al = strlen(abs); int istrig = al >= 12 && !strcmp(abs + al - 12, "lock/trigger");
  sim_pending_arg[p->idx] = abs;
  GATE(istrig ? (((flags & O_ACCMODE) == O_WRONLY) ? "open_trigger_w" : "open_trigger_r") : kind);
  if (faulted) { if (ferr == -1) ferr = EIO; sim_tr("P%d #%d %s %s -> -1 e%d FAULT\n", p->idx, p->ncalls, kind, rel(abs), ferr); FAIL(ferr); }
  int ino = sim_lookup(abs);
  int e = 0;
  if (ino >= 0 && (flags & O_CREAT) && (flags & O_EXCL)) e = EEXIST;
  else if (ino < 0 && !(flags & O_CREAT)) e = ENOENT;
  else if (ino < 0 && !parent_is_dir(abs)) e = ENOENT;
  if (e) { sim_tr("P%d #%d %s %s -> -1 e%d\n", p->idx, p->ncalls, kind, rel(abs), e); FAIL(e); }
  if (ino < 0) { ino = ino_alloc(SI_FILE, p->euid, mode & ~033); dent_add(abs, ino); }
  siminode *n = &W.ino[ino];
  int fd = fd_alloc(p, 0);
  if (fd < 0) { sim_tr("P%d #%d %s %s -> -1 e%d\n", p->idx, p->ncalls, kind, rel(abs), EMFILE); FAIL(EMFILE); }
  simfd *f = &p->fd[fd];
  f->ino = ino; f->off = 0; f->flags = flags; f->aux = 0;
  if (n->type == SI_FIFO) {
    if ((flags & O_ACCMODE) == O_WRONLY) {
      if (n->readers == 0) {
        if (flags & O_NONBLOCK) { sim_tr("P%d #%d %s %s -> -1 e%d\n", p->idx, p->ncalls, kind, rel(abs), ENXIO); FAIL(ENXIO); }
        p->wait_obj = ino; sim_block(fifo_wait_reader, "open_fifo_w");
      }
      f->kind = SFD_FIFO_W; n->writers++;
    } else { f->kind = SFD_FIFO_R; n->readers++; }
  } else if (n->type == SI_DIR) {
    f->kind = SFD_FILE;
  } else {
    f->kind = SFD_FILE;
    if (flags & O_TRUNC) { if (n->cur.n) n->dirty = 2; n->cur.n = 0; n->mtime = W.clock; }
  }
  n->nopen++;
  sim_tr("P%d #%d %s %s -> %d ino=%llu\n", p->idx, p->ncalls, kind, rel(abs), fd, SIM_RINO(ino));
  return fd;
}
static int fifo_wait_reader(simproc *p) { return W.ino[p->wait_obj].readers == 0; }

int close(int fd) {
  if (!sim_on) { static int (*f)(int); if (!f) f = real("close"); return f(fd); }
  simproc *p = sim_cur; simfd *f = fd_get(fd);
  if (!f) FAIL(EBADF);
  int vis = (f->kind == SFD_FIFO_R || f->kind == SFD_FIFO_W);
  if (sim_gate_close && f->kind == SFD_FILE && W.ino[f->ino].type == SI_FILE) {
    /* opt-in (C12): close() of a regular file is a scheduling/fault point; a failing close keeps the descriptor */
    GATE("close");
    if (faulted) { sim_tr("P%d #%d close %d -> -1 e%d FAULT\n", p->idx, p->ncalls, fd, ferr == -1 ? EIO : ferr); FAIL(ferr == -1 ? EIO : ferr); }
  }
  if (vis) { GATE("close_fifo"); (void)faulted; }
  if (f->kind == SFD_FILE || f->kind == SFD_FIFO_R || f->kind == SFD_FIFO_W) {
    siminode *n = &W.ino[f->ino]; n->nopen--;
    if (f->kind == SFD_FIFO_R) n->readers--;
    if (f->kind == SFD_FIFO_W) n->writers--;
    if (n->type == SI_FIFO && n->readers == 0 && n->writers == 0) n->buffered = 0;
    if (n->lockproc == p->idx) n->lockproc = -1;
    if (vis) sim_tr("P%d #%d close_fifo %s -> 0\n", p->idx, p->ncalls, f->kind == SFD_FIFO_R ? "r" : "w");
    else if (n->type == SI_FILE) sim_tr("P%d close %d\n", p->idx, fd);
    ino_maybe_free(f->ino);
  } else if (f->kind == SFD_PIPE_W) { if (--W.pipe[f->aux].writers == 0) W.pipe[f->aux].wclosed = 1; }
  else if (f->kind == SFD_PIPE_R) { if (--W.pipe[f->aux].readers == 0) W.pipe[f->aux].rclosed = 1; }
  f->kind = SFD_FREE;
  return 0;
}

static int pipe_wait_data(simproc *p); static int blk_pipe;
ssize_t read(int fd, void *buf, size_t len) {
  if (!sim_on) { static ssize_t (*f)(int, void *, size_t); if (!f) f = real("read"); return f(fd, buf, len); }
  simproc *p = sim_cur; simfd *f = fd_get(fd);
  if (!f) FAIL(EBADF);
  GATE("read");
  if (faulted && (f->kind == SFD_PIPE_R)) faulted = 0;     /* the cleaner's pipes do not fail while it lives */
  if (faulted) { if (ferr == -1) ferr = EIO; sim_tr("P%d #%d read %d -> -1 e%d FAULT\n", p->idx, p->ncalls, fd, ferr); FAIL(ferr); }
  ssize_t r = 0;
  switch (f->kind) {
    case SFD_FILE: {
      siminode *n = &W.ino[f->ino];
      if (n->type == SI_DIR) FAIL(EISDIR);
      if ((f->flags & O_ACCMODE) == O_WRONLY) FAIL(EBADF);      /* as the kernel does (simcheck) */
      size_t av = (size_t)f->off < n->cur.n ? n->cur.n - f->off : 0;
      r = av < len ? av : len; if (r) memcpy(buf, n->cur.p + f->off, r); f->off += r; n->atime = W.clock;
      break; }
    case SFD_SOURCE: {
      simsource *s = &W.src[f->aux];
      size_t av = s->data.n - s->pos; r = av < len ? av : len;
      if (s->chunk > 0 && r > s->chunk) r = s->chunk;
      if (r == 0 && s->eof_is_error) { sim_tr("P%d #%d read %d -> -1 e%d\n", p->idx, p->ncalls, fd, EIO); FAIL(EIO); }
      if (r) memcpy(buf, s->data.p + s->pos, r);
      s->pos += r;
      break; }
    case SFD_PIPE_R: {
      simpipe *q = &W.pipe[f->aux];
      if (q->data.n == 0 && !q->wclosed) { p->wait_obj = f->aux; sim_block(pipe_wait_data, "read_pipe"); }
      r = q->data.n < len ? q->data.n : len; if (r) { memcpy(buf, q->data.p, r); memmove(q->data.p, q->data.p + r, q->data.n - r); }
      q->data.n -= r;
      break; }
    case SFD_FIFO_R: {
      siminode *n = &W.ino[f->ino];
      if (n->buffered == 0) { if (n->writers > 0 || (f->flags & O_NONBLOCK)) { if (n->writers > 0) FAIL(EAGAIN); r = 0; } }
      else { r = (size_t)n->buffered < len ? n->buffered : len; memset(buf, 0, r); n->buffered -= r; }
      break; }
    case SFD_NULL: r = 0; break;
    default: FAIL(EBADF);
  }
  if (f->kind == SFD_SOURCE || f->kind == SFD_PIPE_R) { sim_tr("P%d #%d read %d -> %zd data=", p->idx, p->ncalls, fd, r); sim_tr_hex(buf, r); sim_tr("\n"); }
  else sim_tr("P%d #%d read %d -> %zd\n", p->idx, p->ncalls, fd, r);
  return r;
}
static int pipe_wait_data(simproc *p) { return W.pipe[p->wait_obj].data.n == 0 && !W.pipe[p->wait_obj].wclosed; }

ssize_t write(int fd, const void *buf, size_t len) {
  if (!sim_on) { static ssize_t (*f)(int, const void *, size_t); if (!f) f = real("write"); return f(fd, buf, len); }
  simproc *p = sim_cur; simfd *f = fd_get(fd);
  if (!f) FAIL(EBADF);
  if (f->kind == SFD_SINK) { hbuf_add(&W.sink[f->aux], buf, len); if (sim_sink_hook) sim_sink_hook(p, fd); return len; }   /* logs: not a scheduling point */
  if (f->kind == SFD_NULL) return len;
  GATE(f->kind == SFD_FIFO_W ? "write_fifo" : "write");
  size_t wlen = len;
  if (faulted && f->kind == SFD_PIPE_W) faulted = 0;
  if (faulted) {
    const char *wn = f->kind == SFD_FIFO_W ? "write_fifo" : f->kind == SFD_PIPE_W ? "write_pipe" : "write";
    if (ferr != -1) { sim_tr("P%d #%d %s %d n=%zu -> -1 e%d FAULT\n", p->idx, p->ncalls, wn, fd, len, ferr); FAIL(ferr); }
    wlen = len / 2; if (wlen == 0) { sim_tr("P%d #%d %s %d n=%zu -> -1 e%d FAULT\n", p->idx, p->ncalls, wn, fd, len, ENOSPC); FAIL(ENOSPC); }
  }
  switch (f->kind) {
    case SFD_FILE: {
      siminode *n = &W.ino[f->ino];
      if ((f->flags & O_ACCMODE) == O_RDONLY) { sim_tr("P%d #%d write %d -> -1 e%d\n", p->idx, p->ncalls, fd, EBADF); FAIL(EBADF); }   /* as the kernel does (simcheck) */
      if (f->flags & O_APPEND) f->off = n->cur.n;
      if ((size_t)f->off + wlen <= n->cur.n) { if (wlen == 1) { if (n->dirty < 1) n->dirty = 1; } else n->dirty = 2; memcpy(n->cur.p + f->off, buf, wlen); }
      else {
        n->dirty = 2;
        size_t need = f->off + wlen;
        while (n->cur.n < need) hbuf_add(&n->cur, "\0", 1);
        if (wlen) memcpy(n->cur.p + f->off, buf, wlen);
      }
      f->off += wlen; n->mtime = W.clock;
      sim_tr("P%d #%d write %d ino=%llu off=%ld n=%zu -> %zu data=", p->idx, p->ncalls, fd, SIM_RINO(f->ino), (long)(f->off - wlen), len, wlen);
      sim_tr_hex(buf, wlen); sim_tr("\n");
      break; }
    case SFD_FIFO_W: {
      siminode *n = &W.ino[f->ino];
      if (n->readers == 0) { sim_tr("P%d #%d write_fifo -> -1 e%d\n", p->idx, p->ncalls, EPIPE); FAIL(EPIPE); }
      n->buffered += wlen;
      sim_tr("P%d #%d write_fifo -> %zu\n", p->idx, p->ncalls, wlen);
      break; }
    case SFD_PIPE_W: {
      simpipe *q = &W.pipe[f->aux];
      if (q->rclosed) { sim_tr("P%d #%d write_pipe %d -> -1 e%d\n", p->idx, p->ncalls, fd, EPIPE); FAIL(EPIPE); }
      hbuf_add(&q->data, buf, wlen);
      sim_tr("P%d #%d write_pipe %d n=%zu -> %zu data=", p->idx, p->ncalls, fd, len, wlen); sim_tr_hex(buf, wlen); sim_tr("\n");
      break; }
    default: FAIL(EBADF);
  }
  return wlen;
}

int fsync(int fd) {
  if (!sim_on) { static int (*f)(int); if (!f) f = real("fsync"); return f(fd); }
  simproc *p = sim_cur; simfd *f = fd_get(fd);
  if (!f || f->kind != SFD_FILE) FAIL(EBADF);
  GATE("fsync");
  if (faulted) { sim_tr("P%d #%d fsync %d -> -1 e%d FAULT\n", p->idx, p->ncalls, fd, ferr == -1 ? EIO : ferr); FAIL(ferr == -1 ? EIO : ferr); }
  siminode *n = &W.ino[f->ino];
  n->dur.n = 0; hbuf_add(&n->dur, n->cur.p, n->cur.n); n->dirty = 0;
  sim_tr("P%d #%d fsync %d ino=%llu -> 0\n", p->idx, p->ncalls, fd, SIM_RINO(f->ino));
  return 0;
}

int ftruncate(int fd, off_t len) {
  if (!sim_on) { static int (*f)(int, off_t); if (!f) f = real("ftruncate"); return f(fd, len); }
  simproc *p = sim_cur; simfd *f = fd_get(fd);
  if (!f || f->kind != SFD_FILE) FAIL(EBADF);
  GATE("ftruncate");
  if (faulted) { sim_tr("P%d #%d ftruncate %d -> -1 e%d FAULT\n", p->idx, p->ncalls, fd, ferr == -1 ? EIO : ferr); FAIL(ferr == -1 ? EIO : ferr); }
  siminode *n = &W.ino[f->ino];
  if ((f->flags & O_ACCMODE) == O_RDONLY) { sim_tr("P%d #%d ftruncate %d -> -1 e%d\n", p->idx, p->ncalls, fd, EINVAL); FAIL(EINVAL); }   /* as the kernel does (simcheck) */
  if ((size_t)len < n->cur.n) { n->cur.n = len; n->dirty = 2; }
  while (n->cur.n < (size_t)len) { hbuf_add(&n->cur, "\0", 1); n->dirty = 2; }
  n->mtime = W.clock;
  sim_tr("P%d #%d ftruncate %d ino=%llu len=%ld -> 0\n", p->idx, p->ncalls, fd, SIM_RINO(f->ino), (long)len);
  return 0;
}

off_t lseek(int fd, off_t off, int whence) {
  if (!sim_on) { static off_t (*f)(int, off_t, int); if (!f) f = real("lseek"); return f(fd, off, whence); }
  simfd *f = fd_get(fd);
  if (!f) FAIL(EBADF);
  if (f->kind != SFD_FILE) FAIL(ESPIPE);
  siminode *n = &W.ino[f->ino];
  if (whence == SEEK_SET) f->off = off; else if (whence == SEEK_CUR) f->off += off; else f->off = n->cur.n + off;
  return f->off;
}

int link(const char *a, const char *b) {
  if (!sim_on) { static int (*f)(const char *, const char *); if (!f) f = real("link"); return f(a, b); }
  simproc *p = sim_cur; char pa[200], pb[200]; normpath(p->cwd, a, pa, sizeof pa); normpath(p->cwd, b, pb, sizeof pb);
  sim_pending_arg[p->idx] = pb;
  GATE(strstr(pb, "/queue/todo/") ? "link_todo" : "link");
  if (faulted) { sim_tr("P%d #%d link %s %s -> -1 e%d FAULT\n", p->idx, p->ncalls, rel(pa), rel(pb), ferr == -1 ? EIO : ferr); FAIL(ferr == -1 ? EIO : ferr); }
  int ino = sim_lookup(pa); int e = 0;
  if (ino < 0) e = ENOENT; else if (sim_lookup(pb) >= 0) e = EEXIST; else if (!parent_is_dir(pb)) e = ENOENT;
  if (e) { sim_tr("P%d #%d link %s %s -> -1 e%d\n", p->idx, p->ncalls, rel(pa), rel(pb), e); FAIL(e); }
  dent_add(pb, ino);
  sim_tr("P%d #%d link %s %s -> 0\n", p->idx, p->ncalls, rel(pa), rel(pb));
  return 0;
}

int unlink(const char *a) {
  if (!sim_on) { static int (*f)(const char *); if (!f) f = real("unlink"); return f(a); }
  simproc *p = sim_cur; char pa[200]; normpath(p->cwd, a, pa, sizeof pa);
  sim_pending_arg[p->idx] = pa;
  GATE("unlink");
  if (faulted) { sim_tr("P%d #%d unlink %s -> -1 e%d FAULT\n", p->idx, p->ncalls, rel(pa), ferr == -1 ? EIO : ferr); FAIL(ferr == -1 ? EIO : ferr); }
  int di = dent_index(pa);
  if (di < 0) { sim_tr("P%d #%d unlink %s -> -1 e%d\n", p->idx, p->ncalls, rel(pa), ENOENT); FAIL(ENOENT); }
  int ino = W.dent[di].ino; W.dent[di].ino = -1; W.ino[ino].nlink--; ino_maybe_free(ino);
  sim_tr("P%d #%d unlink %s -> 0\n", p->idx, p->ncalls, rel(pa));
  return 0;
}

int rename(const char *a, const char *b) {
  if (!sim_on) { static int (*f)(const char *, const char *); if (!f) f = real("rename"); return f(a, b); }
  simproc *p = sim_cur; char pa[200], pb[200]; normpath(p->cwd, a, pa, sizeof pa); normpath(p->cwd, b, pb, sizeof pb);
  sim_pending_arg[p->idx] = pb;
  GATE("rename");
  if (faulted) { sim_tr("P%d #%d rename %s %s -> -1 e%d FAULT\n", p->idx, p->ncalls, rel(pa), rel(pb), ferr == -1 ? EIO : ferr); FAIL(ferr == -1 ? EIO : ferr); }
  int di = dent_index(pa);
  if (di < 0 || !parent_is_dir(pb)) { sim_tr("P%d #%d rename %s %s -> -1 e%d\n", p->idx, p->ncalls, rel(pa), rel(pb), ENOENT); FAIL(ENOENT); }
  int dj = dent_index(pb);
  if (dj >= 0 && W.dent[dj].ino == W.dent[di].ino) {          /* POSIX: old and new name the same file: nothing happens (simcheck) */
    sim_tr("P%d #%d rename %s %s -> 0\n", p->idx, p->ncalls, rel(pa), rel(pb)); return 0; }
  if (dj >= 0) { int o = W.dent[dj].ino; W.dent[dj].ino = -1; W.ino[o].nlink--; ino_maybe_free(o); }
  snprintf(W.dent[di].path, sizeof W.dent[di].path, "%s", pb);
  sim_tr("P%d #%d rename %s %s -> 0\n", p->idx, p->ncalls, rel(pa), rel(pb));
  return 0;
}

static void fill_stat(struct stat *st, int ino) {
  siminode *n = &W.ino[ino]; memset(st, 0, sizeof *st);
  st->st_ino = SIM_RINO(ino); st->st_nlink = n->nlink; st->st_uid = n->uid; st->st_gid = n->gid; st->st_size = n->cur.n;
  st->st_mode = n->mode | (n->type == SI_DIR ? S_IFDIR : n->type == SI_FIFO ? S_IFIFO : S_IFREG);
  st->st_atime = n->atime; st->st_mtime = n->mtime; st->st_ctime = n->mtime; st->st_dev = 1;
}
static int do_stat(const char *a, struct stat *st, const char *nm) {
  simproc *p = sim_cur; char pa[200]; normpath(p->cwd, a, pa, sizeof pa);
  sim_pending_arg[p->idx] = pa;
  GATE(nm);
  if (faulted) { sim_tr("P%d #%d %s %s -> -1 e%d FAULT\n", p->idx, p->ncalls, nm, rel(pa), ferr == -1 ? EIO : ferr); FAIL(ferr == -1 ? EIO : ferr); }
  int ino = sim_lookup(pa);
  if (ino < 0) { sim_tr("P%d #%d %s %s -> -1 e%d\n", p->idx, p->ncalls, nm, rel(pa), ENOENT); FAIL(ENOENT); }
  fill_stat(st, ino);
  sim_tr("P%d #%d %s %s -> 0 ino=%llu\n", p->idx, p->ncalls, nm, rel(pa), SIM_RINO(ino));
  return 0;
}
int stat(const char *a, struct stat *st) {
  if (!sim_on) { static int (*f)(const char *, struct stat *); if (!f) f = real("stat"); return f(a, st); }
  return do_stat(a, st, "stat");
}
int lstat(const char *a, struct stat *st) {
  if (!sim_on) { static int (*f)(const char *, struct stat *); if (!f) f = real("lstat"); return f(a, st); }
  return do_stat(a, st, "stat");
}
int fstat(int fd, struct stat *st) {
  if (!sim_on) { static int (*f)(int, struct stat *); if (!f) f = real("fstat"); return f(fd, st); }
  simproc *p = sim_cur; simfd *f = fd_get(fd);
  if (!f) FAIL(EBADF);
  GATE("fstat");
  if (faulted) { sim_tr("P%d #%d fstat %d -> -1 e%d FAULT\n", p->idx, p->ncalls, fd, ferr == -1 ? EIO : ferr); FAIL(ferr == -1 ? EIO : ferr); }
  if (f->kind == SFD_FILE || f->kind == SFD_FIFO_R || f->kind == SFD_FIFO_W) fill_stat(st, f->ino);
  else { memset(st, 0, sizeof *st); st->st_mode = S_IFIFO | 0600; }
  sim_tr("P%d #%d fstat %d -> 0 ino=%llu\n", p->idx, p->ncalls, fd, (unsigned long long)st->st_ino);
  return 0;
}

int chdir(const char *a) {
  if (!sim_on) { static int (*f)(const char *); if (!f) f = real("chdir"); return f(a); }
  simproc *p = sim_cur; char pa[200]; normpath(p->cwd, a, pa, sizeof pa);
  int ino = sim_lookup(pa);
  if (ino < 0 || W.ino[ino].type != SI_DIR) FAIL(ENOENT);
  snprintf(p->cwd, sizeof p->cwd, "%s", pa);
  return 0;
}

/* directory streams: entries are visited in dent-array order, live */
typedef struct { int magic; char dir[200]; int pos; int dots; struct dirent de; int proc; int limit; } simdir;
int sim_readdir_snapshot;   /* 1: a directory stream returns only entries that existed at opendir */
DIR *opendir(const char *a) {
  if (!sim_on) { static DIR *(*f)(const char *); if (!f) f = real("opendir"); return f(a); }
  simproc *p = sim_cur; char pa[200]; normpath(p->cwd, a, pa, sizeof pa);
  size_t pl = strlen(pa); int istodo = pl >= 11 && !strcmp(pa + pl - 11, "/queue/todo");
  GATE(istodo ? "opendir_todo" : "opendir");
  if (faulted) { sim_tr("P%d #%d opendir %s -> 0 e%d FAULT\n", p->idx, p->ncalls, rel(pa), ferr == -1 ? EIO : ferr); errno = ferr == -1 ? EIO : ferr; return 0; }
  int ino = sim_lookup(pa);
  if (ino < 0 || W.ino[ino].type != SI_DIR) { sim_tr("P%d #%d opendir %s -> 0 e%d\n", p->idx, p->ncalls, rel(pa), ENOENT); errno = ENOENT; return 0; }
  simdir *d = calloc(1, sizeof *d); d->magic = 0x51D1; snprintf(d->dir, sizeof d->dir, "%s", pa); d->pos = 0; d->dots = 0; d->proc = p->idx; d->limit = sim_readdir_snapshot ? W.ndent : SIM_MAXDENT;
  sim_tr("P%d #%d opendir %s -> ok\n", p->idx, p->ncalls, rel(pa));
  return (DIR *)d;
}
struct dirent *readdir(DIR *dp) {
  if (!sim_on) { static struct dirent *(*f)(DIR *); if (!f) f = real("readdir"); return f(dp); }
  simproc *p = sim_cur; simdir *d = (simdir *)dp;
  size_t dl0 = strlen(d->dir); int istodo = dl0 >= 11 && !strcmp(d->dir + dl0 - 11, "/queue/todo");
  GATE(istodo ? "readdir_todo" : "readdir"); (void)faulted;
  if (d->dots < 2) { strcpy(d->de.d_name, d->dots ? ".." : "."); d->dots++; d->de.d_ino = 1; return &d->de; }
  size_t dl = strlen(d->dir);
  while (d->pos < W.ndent && d->pos < d->limit) {
    simdent *e = &W.dent[d->pos++];
    if (e->ino < 0) continue;
    if (strncmp(e->path, d->dir, dl) || e->path[dl] != '/' || strchr(e->path + dl + 1, '/')) continue;
    snprintf(d->de.d_name, sizeof d->de.d_name, "%s", e->path + dl + 1); d->de.d_ino = e->ino;
    sim_tr("P%d #%d readdir %s -> %s\n", p->idx, p->ncalls, rel(d->dir), d->de.d_name);
    return &d->de;
  }
  sim_tr("P%d #%d readdir %s -> end\n", p->idx, p->ncalls, rel(d->dir));
  return 0;
}
int closedir(DIR *dp) {
  if (!sim_on) { static int (*f)(DIR *); if (!f) f = real("closedir"); return f(dp); }
  free(dp); return 0;
}

int utimes(const char *a, const struct timeval tv[2]) {
  if (!sim_on) { static int (*f)(const char *, const struct timeval *); if (!f) f = real("utimes"); return f(a, tv); }
  simproc *p = sim_cur; char pa[200]; normpath(p->cwd, a, pa, sizeof pa);
  GATE("utimes");
  if (faulted) { sim_tr("P%d #%d utimes %s -> -1 e%d FAULT\n", p->idx, p->ncalls, rel(pa), ferr == -1 ? EIO : ferr); FAIL(ferr == -1 ? EIO : ferr); }
  int ino = sim_lookup(pa);
  if (ino < 0) { sim_tr("P%d #%d utimes %s -> -1 e%d\n", p->idx, p->ncalls, rel(pa), ENOENT); FAIL(ENOENT); }
  W.ino[ino].atime = tv ? tv[0].tv_sec : W.clock; W.ino[ino].mtime = tv ? tv[1].tv_sec : W.clock;
  sim_tr("P%d #%d utimes %s %ld -> 0\n", p->idx, p->ncalls, rel(pa), (long)W.ino[ino].mtime);
  return 0;
}
int utime(const char *a, const struct utimbuf *t) {
  if (!sim_on) { static int (*f)(const char *, const struct utimbuf *); if (!f) f = real("utime"); return f(a, t); }
  struct timeval tv[2] = { { t ? t->actime : W.clock, 0 }, { t ? t->modtime : W.clock, 0 } };
  return utimes(a, tv);
}

static int flock_wait(simproc *p) { return W.ino[p->wait_obj].lockproc != -1 && W.ino[p->wait_obj].lockproc != p->idx; }
int flock(int fd, int op) {
  if (!sim_on) { static int (*f)(int, int); if (!f) f = real("flock"); return f(fd, op); }
  simproc *p = sim_cur; simfd *f = fd_get(fd);
  if (!f || f->kind != SFD_FILE) FAIL(EBADF);
  GATE("flock");
  if (faulted) { sim_tr("P%d #%d flock %d -> -1 e%d FAULT\n", p->idx, p->ncalls, fd, ferr == -1 ? EIO : ferr); FAIL(ferr == -1 ? EIO : ferr); }
  siminode *n = &W.ino[f->ino];
  if (op & LOCK_UN) { if (n->lockproc == p->idx) n->lockproc = -1; sim_tr("P%d #%d flock_un ino=%llu -> 0\n", p->idx, p->ncalls, SIM_RINO(f->ino)); return 0; }
  if (n->lockproc != -1 && n->lockproc != p->idx) {
    if (op & LOCK_NB) { sim_tr("P%d #%d flock_nb ino=%llu -> -1 e%d\n", p->idx, p->ncalls, SIM_RINO(f->ino), EWOULDBLOCK); FAIL(EWOULDBLOCK); }
    p->wait_obj = f->ino; sim_block(flock_wait, "flock");
  }
  n->lockproc = p->idx;
  sim_tr("P%d #%d flock ino=%llu -> 0\n", p->idx, p->ncalls, SIM_RINO(f->ino));
  return 0;
}

int fcntl(int fd, int cmd, ...) {
  va_list ap; va_start(ap, cmd); long arg = va_arg(ap, long); va_end(ap);
  if (!sim_on) { static int (*f)(int, int, ...); if (!f) f = real("fcntl"); return f(fd, cmd, arg); }
  simproc *p = sim_cur; simfd *f = fd_get(fd);
  if (!f) FAIL(EBADF);
  switch (cmd) {
    case F_GETFL: return f->flags;
    case F_SETFL: f->flags = (f->flags & ~O_NONBLOCK) | ((int)arg & O_NONBLOCK); return 0;
    case F_SETFD: case F_GETFD: return 0;
    case F_DUPFD: { int nfd = fd_alloc(p, (int)arg); if (nfd < 0) FAIL(EMFILE); p->fd[nfd] = *f;
      if (f->kind == SFD_FILE || f->kind == SFD_FIFO_R || f->kind == SFD_FIFO_W) W.ino[f->ino].nopen++;
      if (f->kind == SFD_PIPE_W) W.pipe[f->aux].writers++; if (f->kind == SFD_PIPE_R) W.pipe[f->aux].readers++;
      return nfd; }
  }
  return 0;
}

time_t time(time_t *t) {
  if (!sim_on) { static time_t (*f)(time_t *); if (!f) f = real("time"); return f(t); }
  if (t) *t = W.clock; return W.clock;
}
int gettimeofday(struct timeval *tv, void *tz) {
  if (!sim_on) { static int (*f)(struct timeval *, void *); if (!f) f = real("gettimeofday"); return f(tv, tz); }
  tv->tv_sec = W.clock; tv->tv_usec = 0; return 0;
}
unsigned int alarm(unsigned int s) {
  if (!sim_on) { static unsigned (*f)(unsigned); if (!f) f = real("alarm"); return f(s); }
  simproc *p = sim_cur; p->alarm_at = s ? W.clock + s : 0;
  sim_tr("P%d alarm %u\n", p->idx, s);
  return 0;
}
unsigned int sleep(unsigned int s) {
  if (!sim_on) { static unsigned (*f)(unsigned); if (!f) f = real("sleep"); return f(s); }
  GATE("sleep"); (void)faulted; (void)ferr;
  W.clock += s; sim_tr("P%d sleep %u\n", PI, s); return 0;
}
pid_t getpid(void) { if (!sim_on) return syscall(SYS_getpid); return sim_cur->pid; }
pid_t getppid(void) { if (!sim_on) return syscall(SYS_getppid); return 1; }
uid_t getuid(void) { if (!sim_on) return syscall(SYS_getuid); return sim_cur->uid; }
uid_t geteuid(void) { if (!sim_on) return syscall(SYS_geteuid); return sim_cur->euid; }
gid_t getgid(void) { if (!sim_on) return syscall(SYS_getgid); return sim_cur->gid; }
mode_t umask(mode_t m) { if (!sim_on) { static mode_t (*f)(mode_t); if (!f) f = real("umask"); return f(m); } return 022; }

struct passwd *getpwnam(const char *name) {
  if (!sim_on) { static struct passwd *(*f)(const char *); if (!f) f = real("getpwnam"); return f(name); }
  static __thread struct passwd pw; static __thread char nm[24];
  for (int i = 0; i < nusers; i++) if (!strcmp(users[i].name, name)) {
    snprintf(nm, sizeof nm, "%s", name); pw.pw_name = nm; pw.pw_uid = users[i].uid; pw.pw_gid = users[i].gid; pw.pw_dir = "/"; pw.pw_shell = ""; pw.pw_passwd = "";
    return &pw;
  }
  return 0;
}
struct group *getgrnam(const char *name) {
  if (!sim_on) { static struct group *(*f)(const char *); if (!f) f = real("getgrnam"); return f(name); }
  static __thread struct group gr; static __thread char nm[24];
  for (int i = 0; i < nusers; i++) if (!strcmp(users[i].name, name)) { snprintf(nm, sizeof nm, "%s", name); gr.gr_name = nm; gr.gr_gid = users[i].gid; return &gr; }
  return 0;
}

int sigaction(int sig, const struct sigaction *act, struct sigaction *old) {
  if (!sim_on) { static int (*f)(int, const struct sigaction *, struct sigaction *); if (!f) f = real("sigaction"); return f(sig, act, old); }
  if (old) { memset(old, 0, sizeof *old); old->sa_handler = sig_handler[PI][sig]; }
  if (act && sig > 0 && sig < 65) sig_handler[PI][sig] = act->sa_handler;
  return 0;
}
int sigprocmask(int how, const sigset_t *set, sigset_t *old) {
  if (!sim_on) { static int (*f)(int, const sigset_t *, sigset_t *); if (!f) f = real("sigprocmask"); return f(how, set, old); }
  if (old) sigemptyset(old);
  return 0;
}

void _exit(int code) {
  if (!sim_on) { syscall(SYS_exit_group, code); __builtin_unreachable(); }
  simproc *p = sim_cur;
  sim_on = 0;
  p->exitcode = code;
  sim_tr("P%d exit %d\n", p->idx, code);
  proc_leave(p);
}

/* default select: ready descriptors now, else (if a timeout is given) let virtual time pass */
static int default_select(simproc *p, int nfds, fd_set *r, fd_set *w, struct timeval *tv) {
  int n = 0; fd_set ro, wo; FD_ZERO(&ro); FD_ZERO(&wo);
  for (int fd = 0; fd < nfds && fd < SIM_MAXFD; fd++) {
    simfd *f = &p->fd[fd];
    if (r && FD_ISSET(fd, r)) {
      int ok = 0;
      if (f->kind == SFD_FIFO_R) ok = W.ino[f->ino].buffered > 0;
      else if (f->kind == SFD_PIPE_R) ok = W.pipe[f->aux].data.n > 0 || W.pipe[f->aux].wclosed;
      else if (f->kind == SFD_SOURCE) ok = W.src[f->aux].pos < W.src[f->aux].data.n || W.src[f->aux].closed;
      else if (f->kind == SFD_FILE) ok = 1;
      if (ok) { FD_SET(fd, &ro); n++; }
    }
    if (w && FD_ISSET(fd, w)) { if (f->kind != SFD_FREE) { FD_SET(fd, &wo); n++; } }
  }
  if (n == 0 && tv) W.clock += tv->tv_sec;
  if (r) *r = ro; if (w) *w = wo;
  return n;
}
int (*sim_select_hook)(simproc *p, int nfds, fd_set *r, fd_set *w, struct timeval *tv) = default_select;
int sim_select_writeback = 1;       /* 0 = treat *timeout as input only (POSIX allows either) */
int select(int nfds, fd_set *r, fd_set *w, fd_set *e, struct timeval *tv) {
  if (!sim_on) { static int (*f)(int, fd_set *, fd_set *, fd_set *, struct timeval *); if (!f) f = real("select"); return f(nfds, r, w, e, tv); }
  simproc *p = sim_cur;
  GATE("select");
  if (faulted) { sim_tr("P%d #%d select -> -1 e%d FAULT\n", p->idx, p->ncalls, ferr == -1 ? EINTR : ferr); FAIL(ferr == -1 ? EINTR : ferr); }
  long t = tv ? (long)tv->tv_sec : -1;
  long us0 = tv ? (long)tv->tv_usec : 0, c0 = W.clock;
  int n = sim_select_hook(p, nfds, r, w, tv);
  if (tv && sim_select_writeback) {
    /* Linux: select() writes the time NOT slept back into *timeout.  Ran into the timeout: {0,0}.  Woken early (descriptor or
     * signal): what is left of the seconds, less a sub-second amount that the call itself took.  Invisible to a caller that sets
     * both fields before every call (every program run under qsim so far does). */
    long left = t - (W.clock - c0); if (left < 0) left = 0;
    if (n == 0 || (left == 0 && us0 == 0)) { tv->tv_sec = 0; tv->tv_usec = 0; }
    else if (us0 == 0) { tv->tv_sec = left - 1; tv->tv_usec = 999715; }
    else { tv->tv_sec = left; tv->tv_usec = us0 > 285 ? us0 - 285 : 0; }
  }
  if (n >= 0) sim_tr("P%d #%d select timeout=%ld -> %d clock=%ld\n", p->idx, p->ncalls, t, n, W.clock);
  else sim_tr("P%d #%d select timeout=%ld -> -1 e%d\n", p->idx, p->ncalls, t, errno);
  return n;
}
