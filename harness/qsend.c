/* Daemon harness: the real qmail-send and qmail-clean mains under qsim, with scripted spawners,
 * a stand-in for qmail.c (bounce injection), signals, arrivals, faults, crashes and restarts.
 * Serves C03, C04 (and the daemon legs of C02, C14, C15, C16).
 *
 * usage: qsend <nrandom> <seed> <shard> <nshards>   |   qsend -   (scenario lines on stdin)
 *
 * scenario line (space separated key=value):
 *   m=<sender>:<rcpt>,<rcpt>..@<arrive>;...   messages; arrive = select count at which it appears (0 = in queue at start)
 *   cl=<n> cr=<n> sl=<n> sr=<n>               concurrencylocal/remote control values, spawner bytes
 *   life=<n>                                  queuelifetime
 *   out=<letters>                             outcome per delivery attempt, in order of start (cyclic):
 *                                             K success, Z deferral, D failure, G mangled letter, X out-of-range delnum,
 *                                             U report for an unused slot, B D with blank lines in the text, L oversized report
 *   ord=<0|1|2>                               report order: FIFO, LIFO, seeded random
 *   sig=<at>:<T|A|H>,...                      signals at select counts
 *   bf=<digits>                               per bounce injection: 0 ok, 1 fails
 *   crash=<k>:<mode>,...                      world crash before global call k of the 1st, 2nd.. incarnation (mode 0..4)
 *   fault=<proc>:<call>:<errno>               single failing call
 *   hor=<n>                                   horizon (selects) after which TERM is sent
 *
 * output: CASE <scenario>, T <trace>, X <harness events>, D <queue dump>, END
 */
#define _GNU_SOURCE
#include "sim.h"
#include "auto_split.h"
#include <signal.h>
#include <stdarg.h>
#include "qmail.h"
#include "seek.h"
#include "stralloc.h"
SIM_INSTANCE(qs)
SIM_INSTANCE(qc)
/* qmail-send's delivery slot table (read-only peek: gives the byte offset of the record a command is for) */
struct del { int used; int j; unsigned long delid; seek_pos mpos; stralloc recip; };
extern struct del *d[2];

#define QROOT "/var/qmail/queue"

typedef struct { char sender[80]; int nrcpt; char rcpt[6][80]; int arrive; int created; } smsg;
typedef struct {
  int nmsg; smsg msg[6];
  int cl, cr, sl, sr; long life;
  char out[128]; int ord;
  int nsig; struct { int at; int sig; } sig[6];
  char bf[32];
  int ncrash; struct { unsigned long k; int mode; } crash[4];
  int fproc, fcall, ferr;
  int hor;
  char text[1600];
} scen;
static scen S;

/* ---- spawner emulation ---- */
typedef struct { int chan, delnum, attempt; char outcome; char recip[100]; char messid[40]; int sent; } pend;
static pend pending[1024]; static int npending;
static int nattempt, nselect, nbounce, incarnation;
static size_t cmdpos[2];
static int sinkid[2], srcid[2];
static uint64_t ordrng;

static void xlog(const char *fmt, ...) { char b[4000]; va_list ap; va_start(ap, fmt); int n = vsnprintf(b, sizeof b, fmt, ap); va_end(ap); if (n > (int)sizeof b - 1) n = sizeof b - 1; hbuf_add(&sim_trace, b, n); }
static void xhex(const void *p, size_t n) { static const char d[] = "0123456789abcdef"; const unsigned char *q = p; if (!n) { hbuf_add(&sim_trace, "-", 1); return; } for (size_t i = 0; i < n; i++) { char h[2] = { d[q[i] >> 4], d[q[i] & 15] }; hbuf_add(&sim_trace, h, 2); } }

static void parse_commands(void) {
  for (int c = 0; c < 2; c++) {
    hbuf *b = &W.sink[sinkid[c]];
    for (;;) {
      size_t p = cmdpos[c];
      if (p >= b->n) break;
      /* delnum, messid\0, sender\0, recip\0 */
      size_t q = p + 1; int nul = 0; size_t f[3] = { 0, 0, 0 };
      while (q < b->n && nul < 3) { if (!b->p[q]) f[nul++] = q; q++; }
      if (nul < 3) break;
      if (npending >= 1024) { xlog("X too-many-deliveries\n"); break; }
      pend *e = &pending[npending++];
      e->chan = c; e->delnum = b->p[p]; e->attempt = nattempt++; e->sent = 0;
      e->outcome = S.out[0] ? S.out[e->attempt % strlen(S.out)] : 'K';
      snprintf(e->messid, sizeof e->messid, "%s", (char *)b->p + p + 1);
      snprintf(e->recip, sizeof e->recip, "%s", (char *)b->p + f[1] + 1);
      xlog("X cmd chan=%d delnum=%d attempt=%d mpos=%lu messid=%s sender=", c, e->delnum, e->attempt, (unsigned long)d[c][e->delnum].mpos, e->messid);
      xhex(b->p + f[0] + 1, f[1] - f[0] - 1); xlog(" recip="); xhex(b->p + f[1] + 1, f[2] - f[1] - 1);
      xlog(" outcome=%c\n", e->outcome);
      cmdpos[c] = f[2] + 1;
    }
  }
}

static void send_report(pend *e) {
  unsigned char r[12000]; size_t n = 0;
  switch (e->outcome) {
    case 'K': r[n++] = e->delnum; n += sprintf((char *)r + n, "Kdelivered to %s\n", e->recip) + 1; break;
    case 'Z': r[n++] = e->delnum; n += sprintf((char *)r + n, "Zdeferred for %s\n", e->recip) + 1; break;
    case 'D': r[n++] = e->delnum; n += sprintf((char *)r + n, "Dno mailbox %s\n", e->recip) + 1; break;
    case 'B': r[n++] = e->delnum; n += sprintf((char *)r + n, "Dline one\n\n<forged@x>:\nline three\n\n") + 1; break;
    case 'G': r[n++] = e->delnum; n += sprintf((char *)r + n, "Qwhat is this\n") + 1; break;
    case 'L': r[n++] = e->delnum; r[n++] = 'Z'; for (int i = 0; i < 11000; i++) r[n++] = "abcdefghijklmnopqrstuvwxyz0123456789 "[(i * 7 + i / 37) % 37]; r[n++] = 0; break;
    case 'X': r[n++] = 200; n += sprintf((char *)r + n, "Kout of range\n") + 1;           /* ignored ... */
              r[n++] = e->delnum; n += sprintf((char *)r + n, "Zthen the real one\n") + 1; break;
    case 'U': { int other = -1;                                                            /* report for a slot that is not in use */
              for (int cand = 0; cand < 4 && other < 0; cand++) { int used = 0;
                for (int i = 0; i < npending; i++) if (!pending[i].sent && pending[i].chan == e->chan && pending[i].delnum == cand) used = 1;
                if (!used) other = cand; }
              if (other >= 0) { r[n++] = other; n += sprintf((char *)r + n, "Kfor an unused slot\n") + 1; }
              r[n++] = e->delnum; n += sprintf((char *)r + n, "Zthen the real one\n") + 1; break; }
    default:  r[n++] = e->delnum; n += sprintf((char *)r + n, "Zdefault\n") + 1;
  }
  hbuf_add(&W.src[srcid[e->chan]].data, r, n);
  xlog("X report chan=%d delnum=%d attempt=%d outcome=%c\n", e->chan, e->delnum, e->attempt, e->outcome);
  e->sent = 1;
}

static void sink_written(simproc *p, int fd) { if (p->idx == 0 && (fd == 1 || fd == 3)) parse_commands(); }

/* ---- arrivals ---- */
static void create_message(smsg *m, int idx) {
  char body[200]; int bl = snprintf(body, sizeof body, "Subject: m%d\n\nbody of message %d\n", idx, idx);
  int ino = sim_mkfile_ino(QROOT "/mess/%d/%d", auto_split, body, bl, 7794, 0644);
  unsigned char env[1200]; size_t n = 0;
  n += sprintf((char *)env + n, "u1000") + 1; n += sprintf((char *)env + n, "p4242") + 1;
  env[n++] = 'F'; n += sprintf((char *)env + n, "%s", m->sender) + 1;
  for (int i = 0; i < m->nrcpt; i++) { env[n++] = 'T'; n += sprintf((char *)env + n, "%s", m->rcpt[i]) + 1; }
  char p1[100], p2[100]; snprintf(p1, sizeof p1, QROOT "/intd/%d", ino); snprintf(p2, sizeof p2, QROOT "/todo/%d", ino);
  sim_mkfile(p1, env, n, 7794, 0644); sim_link_(p1, p2);
  W.ino[ino].atime = W.ino[ino].mtime = W.clock;
  m->created = ino;
  xlog("X newmsg id=%d sender=", ino); xhex(m->sender, strlen(m->sender));
  for (int i = 0; i < m->nrcpt; i++) { xlog(" rcpt="); xhex(m->rcpt[i], strlen(m->rcpt[i])); }
  xlog("\n");
  int f = sim_lookup(QROOT "/lock/trigger");
  if (f >= 0 && W.ino[f].readers > 0) W.ino[f].buffered++;
}

/* ---- the daemon's select ---- */
static int stop_requested;
static int daemon_select(simproc *p, int nfds, fd_set *r, fd_set *w, struct timeval *tv) {
  if (p->idx != 0) return 0;
  nselect++;
  parse_commands();
  for (int i = 0; i < S.nsig; i++) if (S.sig[i].at == nselect) {
    int sg = S.sig[i].sig == 'T' ? SIGTERM : S.sig[i].sig == 'A' ? SIGALRM : SIGHUP;
    xlog("X signal %c\n", S.sig[i].sig);
    sim_deliver_signal(p, sg);
  }
  if (nselect == S.hor) { xlog("X signal T (horizon)\n"); sim_deliver_signal(p, SIGTERM); stop_requested = 1; }
  if (nselect > S.hor + 60) { xlog("X horizon-abort\n"); p->exitcode = -98; sim_crash_before = W.ncalls_total + 1; }
  for (int i = 0; i < S.nmsg; i++) if (!S.msg[i].created && S.msg[i].arrive && S.msg[i].arrive <= nselect) create_message(&S.msg[i], i);
  /* one report per select */
  static int cand[1024]; int nc = 0;
  for (int i = 0; i < npending; i++) if (!pending[i].sent) cand[nc++] = i;
  if (nc) {
    int k = S.ord == 0 ? 0 : S.ord == 1 ? nc - 1 : (int)((ordrng = ordrng * 6364136223846793005ull + 1442695040888963407ull) >> 33) % nc;
    send_report(&pending[cand[k]]);
  }
  int n = 0; fd_set ro, wo; FD_ZERO(&ro); FD_ZERO(&wo);
  for (int fd = 0; fd < nfds && fd < SIM_MAXFD; fd++) {
    simfd *f = &p->fd[fd];
    if (r && FD_ISSET(fd, r)) {
      int ok = 0;
      if (f->kind == SFD_FIFO_R) ok = W.ino[f->ino].buffered > 0;
      else if (f->kind == SFD_SOURCE) ok = W.src[f->aux].pos < W.src[f->aux].data.n || W.src[f->aux].closed;
      else if (f->kind == SFD_PIPE_R) ok = W.pipe[f->aux].data.n > 0 || W.pipe[f->aux].wclosed;
      if (ok) { FD_SET(fd, &ro); n++; }
    }
    if (w && FD_ISSET(fd, w) && f->kind != SFD_FREE) { FD_SET(fd, &wo); n++; }
  }
  if (n == 0 && tv && tv->tv_sec > 0) W.clock += tv->tv_sec;
  if (r) *r = ro; if (w) *w = wo;
  return n;
}

/* ---- stand-in for qmail.c: bounce injection is one atomic event (its atomicity is C01) ---- */
static hbuf bmsg, benv; static int bfail;
int qmail_open(struct qmail *qq) { bmsg.n = benv.n = 0; bfail = 0; qq->flagerr = 0; qq->pid = 9000 + nbounce; qq->fdm = 1; return 0; }
unsigned long qmail_qp(struct qmail *qq) { return qq->pid; }
void qmail_fail(struct qmail *qq) { qq->flagerr = 1; }
void qmail_put(struct qmail *qq, char *s, size_t len) { if (!qq->flagerr) hbuf_add(qq->fdm ? &bmsg : &benv, s, len); }
void qmail_from(struct qmail *qq, char *s) { qq->fdm = 0; qmail_put(qq, "F", 1); qmail_put(qq, s, strlen(s)); qmail_put(qq, "", 1); }
void qmail_to(struct qmail *qq, char *s) { qmail_put(qq, "T", 1); qmail_put(qq, s, strlen(s)); qmail_put(qq, "", 1); }
char *qmail_close(struct qmail *qq) {
  int scripted = S.bf[0] ? S.bf[nbounce % strlen(S.bf)] == '1' : 0;
  nbounce++;
  int fail = scripted || qq->flagerr;
  xlog("X bounce n=%d result=%s env=", nbounce, fail ? "fail" : "ok"); xhex(benv.p, benv.n); xlog(" body="); xhex(bmsg.p, bmsg.n); xlog("\n");
  return fail ? "Zqq scripted failure (#4.3.0)" : "";
}

/* ---- world ---- */
static void ctl(const char *name, const char *val) { char p[120]; snprintf(p, sizeof p, "/var/qmail/control/%s", name); sim_mkfile(p, val, strlen(val), 0, 0644); }
static void world_init(void) {
  char b[100];
  sim_reset();
  sim_user("alias", 7790, 2108); sim_user("qmaild", 7791, 2108); sim_user("qmails", 7796, 2107); sim_user("qmailq", 7794, 2107);
  sim_user("qmailr", 7795, 2107); sim_user("qmaill", 7792, 2108); sim_user("qmailp", 7793, 2108);
  static const char *dirs[] = { "pid", "intd", "todo", "bounce", "lock", 0 };
  for (int i = 0; dirs[i]; i++) { snprintf(b, sizeof b, QROOT "/%s", dirs[i]); sim_mkdir_p(b, 7794, 0700); }
  static const char *sdirs[] = { "mess", "info", "local", "remote", 0 };
  for (int j = 0; sdirs[j]; j++) for (int i = 0; i < auto_split; i++) { snprintf(b, sizeof b, QROOT "/%s/%d", sdirs[j], i); sim_mkdir_p(b, 7794, 0700); }
  sim_mkdir_p("/var/qmail/control", 0, 0755);
  sim_mkfifo_(QROOT "/lock/trigger", 7796, 0622);
  sim_mkfile(QROOT "/lock/sendmutex", "", 0, 7796, 0600);
  ctl("me", "h.example\n"); ctl("locals", "h.example\n");
  snprintf(b, sizeof b, "%d\n", S.cl); ctl("concurrencylocal", b);
  snprintf(b, sizeof b, "%d\n", S.cr); ctl("concurrencyremote", b);
  snprintf(b, sizeof b, "%ld\n", S.life); ctl("queuelifetime", b);
  for (int i = 0; i < S.nmsg; i++) S.msg[i].created = 0;
  for (int i = 0; i < S.nmsg; i++) if (!S.msg[i].arrive) create_message(&S.msg[i], i);
}

static void start_incarnation(void) {
  incarnation++;
  sim_globals_restore();
  npending = 0; nselect = 0; cmdpos[0] = cmdpos[1] = 0; stop_requested = 0;
  W.nsrc = 0; W.nsink = 0; W.npipe = 0;
  simproc *p0 = sim_proc(0, "qmail-send", 500 + incarnation, 7796, "/");
  simproc *p1 = sim_proc(1, "qmail-clean", 600 + incarnation, 7794, "/");
  sim_fd_sink(p0, 0);
  sinkid[0] = sim_fd_sink(p0, 1); sinkid[1] = sim_fd_sink(p0, 3);
  unsigned char sb0 = S.sl, sb1 = S.sr;
  srcid[0] = sim_fd_source(p0, 2, &sb0, 1, 0); srcid[1] = sim_fd_source(p0, 4, &sb1, 1, 0);
  int a = sim_pipe_new(), b = sim_pipe_new();
  sim_fd_pipe(p0, 5, a, 1); sim_fd_pipe(p1, 0, a, 0);
  sim_fd_pipe(p1, 1, b, 1); sim_fd_pipe(p0, 6, b, 0);
  sim_fd_sink(p1, 2);
  sim_threads = 1;
  sim_select_hook = daemon_select; sim_sink_hook = sink_written;
  xlog("X start incarnation=%d clock=%ld\n", incarnation, W.clock);
  sim_spawn(p0, qs_main); sim_spawn(p1, qc_main);
  sim_run_all();
  sim_threads = 0;
  parse_commands();
  xlog("X end incarnation=%d exit=%d crashed=%d clock=%ld\n", incarnation, P[0].exitcode, P[0].crashed, W.clock);
}

static void dump(const char *tag) {
  hbuf d = { 0 }; sim_dump(&d, QROOT "/", 1);
  char *s = (char *)d.p; size_t n = d.n, i = 0;
  while (i < n) { size_t j = i; while (j < n && s[j] != '\n') j++; if (strncmp(s + i, "lock/", 5)) fprintf(h_out, "D %s %.*s\n", tag, (int)(j - i), s + i); i = j + 1; }
  free(d.p);
}
static void flush_trace(void) {
  char *s = (char *)sim_trace.p; size_t n = sim_trace.n, i = 0;
  while (i < n) { size_t j = i; while (j < n && s[j] != '\n') j++;
    if (s[i] == 'X') fprintf(h_out, "%.*s\n", (int)(j - i), s + i); else fprintf(h_out, "T %.*s\n", (int)(j - i), s + i);
    i = j + 1; }
  sim_trace.n = 0;
}

static void run_scenario(void) {
  fprintf(h_out, "CASE %s\n", S.text);
  incarnation = 0; nattempt = 0; nbounce = 0; ordrng = 88172645463325252ull;
  world_init();
  dump("init");
  for (int inc = 0; inc < 5; inc++) {
    if (inc < S.ncrash) sim_crash_before = W.ncalls_total + S.crash[inc].k;
    sim_nfaults = 0;
    if (inc == 0 && S.fcall > 0) { sim_faults[0].proc = S.fproc; sim_faults[0].callno = S.fcall; sim_faults[0].err = S.ferr; sim_nfaults = 1; }
    start_incarnation();
    flush_trace();
    int crashed = P[0].crashed;
    if (crashed) { sim_apply_crash(inc < S.ncrash ? S.crash[inc].mode : CR_KEEP); fprintf(h_out, "X crash-applied mode=%d\n", inc < S.ncrash ? S.crash[inc].mode : 0); }
    char tag[24]; snprintf(tag, sizeof tag, "after%d", inc + 1); dump(tag);
    if (!crashed) break;
    /* arrivals scheduled for an incarnation that crashed are re-armed relative to the new incarnation */
  }
  fprintf(h_out, "END\n");
}

/* ---- scenario parsing / generation ---- */
static void parse_scenario(const char *line) {
  memset(&S, 0, sizeof S); S.cl = 2; S.cr = 2; S.sl = 5; S.sr = 5; S.life = 604800; S.hor = 400;
  snprintf(S.text, sizeof S.text, "%s", line); { char *nl = strchr(S.text, '\n'); if (nl) *nl = 0; }
  char tmp[1600]; snprintf(tmp, sizeof tmp, "%s", S.text); char *save = 0;
  for (char *t = strtok_r(tmp, " ", &save); t; t = strtok_r(0, " ", &save)) {
    char *v = strchr(t, '='); if (!v) continue; *v++ = 0;
    if (!strcmp(t, "cl")) S.cl = atoi(v); else if (!strcmp(t, "cr")) S.cr = atoi(v);
    else if (!strcmp(t, "sl")) S.sl = atoi(v); else if (!strcmp(t, "sr")) S.sr = atoi(v);
    else if (!strcmp(t, "life")) S.life = atol(v); else if (!strcmp(t, "out")) snprintf(S.out, sizeof S.out, "%s", v);
    else if (!strcmp(t, "ord")) S.ord = atoi(v); else if (!strcmp(t, "bf")) snprintf(S.bf, sizeof S.bf, "%s", v);
    else if (!strcmp(t, "hor")) S.hor = atoi(v);
    else if (!strcmp(t, "fault")) sscanf(v, "%d:%d:%d", &S.fproc, &S.fcall, &S.ferr);
    else if (!strcmp(t, "sig")) { char *s2 = 0; for (char *u = strtok_r(v, ",", &s2); u && S.nsig < 6; u = strtok_r(0, ",", &s2)) { char c; if (sscanf(u, "%d:%c", &S.sig[S.nsig].at, &c) == 2) S.sig[S.nsig++].sig = c; } }
    else if (!strcmp(t, "crash")) { char *s2 = 0; for (char *u = strtok_r(v, ",", &s2); u && S.ncrash < 4; u = strtok_r(0, ",", &s2)) if (sscanf(u, "%lu:%d", &S.crash[S.ncrash].k, &S.crash[S.ncrash].mode) == 2) S.ncrash++; }
    else if (!strcmp(t, "m")) {
      char *s2 = 0;
      for (char *u = strtok_r(v, ";", &s2); u && S.nmsg < 6; u = strtok_r(0, ";", &s2)) {
        smsg *m = &S.msg[S.nmsg++]; char *at = strrchr(u, '@'); m->arrive = 0;
        /* trailing @<n> is the arrival select count */
        if (at && at[1] >= '0' && at[1] <= '9' && strspn(at + 1, "0123456789") == strlen(at + 1)) { m->arrive = atoi(at + 1); *at = 0; }
        char *colon = strchr(u, ':'); if (!colon) { S.nmsg--; continue; } *colon = 0;
        snprintf(m->sender, sizeof m->sender, "%s", !strcmp(u, "-") ? "" : u);
        char *s3 = 0; m->nrcpt = 0;
        for (char *r = strtok_r(colon + 1, ",", &s3); r && m->nrcpt < 6; r = strtok_r(0, ",", &s3)) snprintf(m->rcpt[m->nrcpt++], 80, "%s", r);
      }
    }
  }
}

static const char *senders[] = { "s@src.example", "-", "#@[]", "list-@lists.example-@[]", "x@h.example" };
static const char *rcpts[] = { "u1@h.example", "u2@h.example", "r1@far.example", "r2@far.example", "u3@h.example", "r3@other.example" };
static void gen_scenario(char *o, size_t osz, int mode) {
  size_t n = 0;
  int nm = 1 + h_below(mode == 0 ? 1 : 3);
  n += snprintf(o + n, osz - n, "m=");
  for (int i = 0; i < nm; i++) {
    int nr = 1 + h_below(3); int base = h_below(6);
    n += snprintf(o + n, osz - n, "%s%s:", i ? ";" : "", senders[h_below(10) < 6 ? 0 : h_below(5)]);
    for (int j = 0; j < nr; j++) n += snprintf(o + n, osz - n, "%s%s", j ? "," : "", rcpts[(base + j * (1 + h_below(2))) % 6]);
    if (i && h_below(2)) n += snprintf(o + n, osz - n, "@%d", 1 + (int)h_below(25));
  }
  static const char *alph = "KKKZZDDGXUBL";
  char out[24]; int ol = 1 + h_below(8); for (int i = 0; i < ol; i++) out[i] = alph[h_below(12)]; out[ol] = 0;
  n += snprintf(o + n, osz - n, " out=%s ord=%d cl=%d cr=%d sl=%d sr=%d", out, (int)h_below(3), (int)h_below(4), (int)h_below(4), (int)h_below(4), 1 + (int)h_below(3));
  if (h_below(3) == 0) n += snprintf(o + n, osz - n, " life=%d", (int[]){0, 1, 150, 2000}[h_below(4)]);
  if (h_below(4) == 0) n += snprintf(o + n, osz - n, " bf=%s", (const char *[]){"1", "10", "110", "01"}[h_below(4)]);
  if (h_below(3) == 0) { n += snprintf(o + n, osz - n, " sig=%d:%c", 2 + (int)h_below(30), "TAH"[h_below(3)]); if (h_below(2)) n += snprintf(o + n, osz - n, ",%d:%c", 2 + (int)h_below(40), "TAH"[h_below(3)]); }
  if (mode == 2) { n += snprintf(o + n, osz - n, " crash=%d:%d", 100 + (int)h_below(500), (int)h_below(5)); if (h_below(3) == 0) n += snprintf(o + n, osz - n, ",%d:%d", 100 + (int)h_below(400), (int)h_below(5)); }
  if (mode == 3) n += snprintf(o + n, osz - n, " fault=0:%d:%d", 100 + (int)h_below(500), (int[]){EIO, ENOSPC, -1, EINTR, ENOMEM}[h_below(5)]   /* never ENOENT: "no such file" is an answer, not a transient failure */);
  n += snprintf(o + n, osz - n, " hor=%d", 200 + (int)h_below(400));
}

int main(int argc, char **argv) {
  h_init_out();
  SIM_REGISTER(qs); SIM_REGISTER(qc); sim_globals_snapshot();
  char *line = malloc(4000);
  if (argc > 1 && !strcmp(argv[1], "-")) {
    while (fgets(line, 4000, stdin)) { if (strlen(line) < 3) continue; parse_scenario(line); run_scenario(); }
    fflush(h_out); return 0;
  }
  int nrandom = h_argi(argc, argv, 1, 100);
  uint64_t seed = (uint64_t)h_argi(argc, argv, 2, 1);
  int shard = h_argi(argc, argv, 3, 0), nshards = h_argi(argc, argv, 4, 1);
  for (int r = 0; r < nrandom; r++) {
    if (r % nshards != shard) continue;
    h_seed(seed * 1000003ull + r);
    gen_scenario(line, 4000, r % 4);
    parse_scenario(line); run_scenario();
  }
  fflush(h_out);
  return 0;
}
