/* Daemon harness: the real qmail-send and qmail-clean mains under qsim, with scripted spawners,
 * a stand-in for qmail.c (bounce injection), signals, arrivals, faults, crashes and restarts.
 * Serves C03, C04 (and the daemon legs of C02, C14, C15, C16).
 *
 * usage: qsend <nrandom> <seed> <shard> <nshards>   |   qsend -   (scenario lines on stdin)
 *
 * scenario line (space separated key=value):
 *   m=<sender>:<rcpt>,<rcpt>..@<arrive>;...   messages; arrive = select count at which it appears (0 = in queue at start);
 *                                             a recipient token <pre>*<N><post> stands for N recipients <pre>000<post> .. (3-digit index)
 *   cl=<n> cr=<n> sl=<n> sr=<n>               concurrencylocal/remote control values, spawner bytes
 *   life=<n>                                  queuelifetime
 *   out=<letters>                             outcome per delivery attempt, in order of start (cyclic):
 *                                             K success, Z deferral, D failure, G mangled letter, X out-of-range delnum,
 *                                             U report for an unused slot, B D with blank lines in the text, L oversized report
 *   ord=<0|1|2>                               report order: FIFO, LIFO, seeded random
 *   sig=<at>:<T|A|H>,...                      signals at select counts
 *   bf=<digits>                               per bounce injection: 0 ok, 1 fails
 *   crash=<k>:<mode>,...                      world crash before global call k of the 1st, 2nd.. incarnation (mode 0..4)
 *   fault=<proc>:<call>:<errno>[:<inc>]       single failing call (of the <inc>-th incarnation, 0-based; default: the first)
 *   hor=<n>                                   horizon (selects) after which TERM is sent
 *   term=<sel>,<sel>,...                      clean stops: the 1st, 2nd.. incarnation gets TERM at select <sel> (0 = none); when it then
 *                                             exits 0 the daemon is started again on the same queue (restart after a CLEAN stop)
 *   hold=<n>                                  the spawners withhold their reports while fewer than n attempts are unanswered and the
 *                                             daemon is still issuing commands (lets the in-flight count reach the concurrency bound)
 *   slow=<n> slowt=<sec>                      slow deliveries: no attempt is answered before n selects of the daemon AND sec seconds of virtual
 *                                             time have passed since its command was read (the attempts stay in flight while the daemon sleeps,
 *                                             virtual time passes, retry times come due and signals arrive); once TERM was sent (term=, hor=)
 *                                             the reports flow again
 *
 * generated scenarios (r = scenario number): r < nrandom: the four classic modes (r % 4: plain, multi-message, crash, fault);
 * then nrandom/16 "bound" scenarios (limit bytes and configured concurrency over 0..255(+), up to ~270 recipients, reports withheld),
 * nrandom/16 "multi-pass" scenarios (3-8 recipients on one channel, several passes with mixed outcomes),
 * nrandom/40 fault sweeps (2-3 sequential messages that reuse job slots; base run, then one run per queue-file system call of
 * qmail-send with that call failing, then one run per unlink of qmail-clean - intd/ todo/ mess/ - failing with EIO) and nrandom/50 clean-stop sweeps (expired/young messages, low concurrency; base run, then one
 * run per select point with TERM there, exit 0, restart on the same queue) and nrandom/80 slow-delivery fault sweeps (1-2 messages with
 * several recipients, every delivery in flight for `slow` selects and `slowt` seconds (0, or more than SLEEP_SYSFAIL), ALRM/HUP and
 * virtual time passing meanwhile; base run, then one run per queue-file system call of qmail-send - open/fstat/read/stat/unlink/.. on
 * info/ local/ remote/ bounce/ todo/ - with that call failing; even members: the calls of the first incarnation (preprocessing, pass
 * opening, marking); odd members: clean stop (term=) with unfinished recipients, then the calls of the RESTARTED daemon (pqstart/pqadd's
 * stat()s at start-up, the pqfail retry 123 s later, pass opening) - so that whatever a failing call leaves scheduled runs while the
 * attempts started before it are still outstanding).
 *
 * Two build modes.  Default (C15/C16 legs): qmail.c is replaced by a stand-in below (a bounce injection is one atomic event).
 * -DQSEND_REAL_QMAIL (C03/C04): qmail-send is linked with the REAL qmail.o of the scratch build (qmail.c compiled with
 * -include qsend_fork.h), and qmail_open()'s fork/exec starts the REAL qmail-queue main (instance "qq") as a third simulated
 * process on the other side of three simulated pipes; the bounce is what qmail-queue commits to the simulated queue, and from
 * then on it is an ordinary message of the scenario.  bf=1 kills that qmail-queue before its first system call;
 * fault=2:<k>:<errno> makes the k-th call of the first qmail-queue child fail.
 *
 * output: CASE <scenario>, T <trace>, X <harness events>, D <queue dump>, END
 */
#define _GNU_SOURCE
#include "sim.h"
#include <dlfcn.h>
#include <sys/wait.h>
#include "auto_split.h"
#include <signal.h>
#include <stdarg.h>
#include "qmail.h"
#include "seek.h"
#include "stralloc.h"
SIM_INSTANCE(qs)
SIM_INSTANCE(qc)
/* qmail-send's delivery slot table (read-only peek: gives the byte offset of the record a command is for) */
struct del { int used; int j; unsigned long delid; seek_pos mpos; stralloc recip; };
extern struct del *d[2];

#define QROOT "/var/qmail/queue"

#define MAXR 300
typedef struct { char sender[80]; int nrcpt; char rcpt[MAXR][64]; int arrive; int created; } smsg;
typedef struct {
  int nmsg; smsg msg[6];
  int cl, cr, sl, sr; long life;
  char out[128]; int ord;
  int nsig; struct { int at; int sig; } sig[6];
  char bf[32];
  int ncrash; struct { unsigned long k; int mode; } crash[4];
  int fproc, fcall, ferr, finc;
  int hor;
  int nterm; int term[6];
  int hold;
  int slow; long slowt;
  char text[1600];
} scen;
static scen S;

/* ---- spawner emulation ---- */
typedef struct { int chan, delnum, attempt; char outcome; char recip[100]; char messid[40]; int sent; int born; long bornclock; } pend;
#define MAXPEND 8192
static pend pending[MAXPEND]; static int npending;
static int nattempt, nselect, nbounce, incarnation;
static size_t cmdpos[2];
static int sinkid[2], srcid[2];
static uint64_t ordrng;

static void xlog(const char *fmt, ...) { char b[4000]; va_list ap; va_start(ap, fmt); int n = vsnprintf(b, sizeof b, fmt, ap); va_end(ap); if (n > (int)sizeof b - 1) n = sizeof b - 1; hbuf_add(&sim_trace, b, n); }
static void xhex(const void *p, size_t n) { static const char d[] = "0123456789abcdef"; const unsigned char *q = p; if (!n) { hbuf_add(&sim_trace, "-", 1); return; } for (size_t i = 0; i < n; i++) { char h[2] = { d[q[i] >> 4], d[q[i] & 15] }; hbuf_add(&sim_trace, h, 2); } }

static void parse_commands(void) {
  for (int c = 0; c < 2; c++) {
    hbuf *b = &W.sink[sinkid[c]];
    for (;;) {
      size_t p = cmdpos[c];
      if (p >= b->n) break;
      /* delnum, messid\0, sender\0, recip\0 */
      size_t q = p + 1; int nul = 0; size_t f[3] = { 0, 0, 0 };
      while (q < b->n && nul < 3) { if (!b->p[q]) f[nul++] = q; q++; }
      if (nul < 3) break;
      if (npending >= MAXPEND) { xlog("X too-many-deliveries\n"); break; }
      pend *e = &pending[npending++];
      e->chan = c; e->delnum = b->p[p]; e->attempt = nattempt++; e->sent = 0; e->born = nselect; e->bornclock = W.clock;
      e->outcome = S.out[0] ? S.out[e->attempt % strlen(S.out)] : 'K';
      snprintf(e->messid, sizeof e->messid, "%s", (char *)b->p + p + 1);
      snprintf(e->recip, sizeof e->recip, "%s", (char *)b->p + f[1] + 1);
      xlog("X cmd chan=%d delnum=%d attempt=%d mpos=%lu messid=%s sender=", c, e->delnum, e->attempt, (unsigned long)d[c][e->delnum].mpos, e->messid);
      xhex(b->p + f[0] + 1, f[1] - f[0] - 1); xlog(" recip="); xhex(b->p + f[1] + 1, f[2] - f[1] - 1);
      xlog(" outcome=%c\n", e->outcome);
      cmdpos[c] = f[2] + 1;
    }
  }
}

static void send_report(pend *e) {
  unsigned char r[12000]; size_t n = 0;
  switch (e->outcome) {
    case 'K': r[n++] = e->delnum; n += sprintf((char *)r + n, "Kdelivered to %s\n", e->recip) + 1; break;
    case 'Z': r[n++] = e->delnum; n += sprintf((char *)r + n, "Zdeferred for %s\n", e->recip) + 1; break;
    case 'D': r[n++] = e->delnum; n += sprintf((char *)r + n, "Dno mailbox %s\n", e->recip) + 1; break;
    case 'B': r[n++] = e->delnum; n += sprintf((char *)r + n, "Dline one\n\n<forged@x>:\nline three\n\n") + 1; break;
    case 'G': r[n++] = e->delnum; n += sprintf((char *)r + n, "Qwhat is this\n") + 1; break;
    case 'L': r[n++] = e->delnum; r[n++] = 'Z'; for (int i = 0; i < 11000; i++) r[n++] = "abcdefghijklmnopqrstuvwxyz0123456789 "[(i * 7 + i / 37) % 37]; r[n++] = 0; break;
    case 'X': r[n++] = 200; n += sprintf((char *)r + n, "Kout of range\n") + 1;           /* ignored ... */
              r[n++] = e->delnum; n += sprintf((char *)r + n, "Zthen the real one\n") + 1; break;
    case 'U': { int other = -1;                                                            /* report for a slot that is not in use */
              for (int cand = 0; cand < 4 && other < 0; cand++) { int used = 0;
                for (int i = 0; i < npending; i++) if (!pending[i].sent && pending[i].chan == e->chan && pending[i].delnum == cand) used = 1;
                if (!used) other = cand; }
              if (other >= 0) { r[n++] = other; n += sprintf((char *)r + n, "Kfor an unused slot\n") + 1; }
              r[n++] = e->delnum; n += sprintf((char *)r + n, "Zthen the real one\n") + 1; break; }
    default:  r[n++] = e->delnum; n += sprintf((char *)r + n, "Zdefault\n") + 1;
  }
  hbuf_add(&W.src[srcid[e->chan]].data, r, n);
  xlog("X report chan=%d delnum=%d attempt=%d outcome=%c\n", e->chan, e->delnum, e->attempt, e->outcome);
  e->sent = 1;
}

static void sink_written(simproc *p, int fd) { if (p->idx == 0 && (fd == 1 || fd == 3)) parse_commands(); }

/* ---- arrivals ---- */
static void known_add(int ino);
static void known_prune(void);
static void create_message(smsg *m, int idx) {
  char body[200]; int bl = snprintf(body, sizeof body, "Subject: m%d\n\nbody of message %d\n", idx, idx);
  int ino = sim_mkfile_ino(QROOT "/mess/%d/%d", auto_split, body, bl, 7794, 0644);
  static unsigned char env[200 + MAXR * 66]; size_t n = 0;
  n += sprintf((char *)env + n, "u1000") + 1; n += sprintf((char *)env + n, "p4242") + 1;
  env[n++] = 'F'; n += sprintf((char *)env + n, "%s", m->sender) + 1;
  for (int i = 0; i < m->nrcpt; i++) { env[n++] = 'T'; n += sprintf((char *)env + n, "%s", m->rcpt[i]) + 1; }
  char p1[100], p2[100]; snprintf(p1, sizeof p1, QROOT "/intd/%d", ino); snprintf(p2, sizeof p2, QROOT "/todo/%d", ino);
  sim_mkfile(p1, env, n, 7794, 0644); sim_link_(p1, p2);
  W.ino[ino].atime = W.ino[ino].mtime = W.clock;
  m->created = ino; known_add(ino);
  xlog("X newmsg id=%d sender=", ino); xhex(m->sender, strlen(m->sender));
  for (int i = 0; i < m->nrcpt; i++) { xlog(" rcpt="); xhex(m->rcpt[i], strlen(m->rcpt[i])); }
  xlog("\n");
  int f = sim_lookup(QROOT "/lock/trigger");
  if (f >= 0 && W.ino[f].readers > 0) W.ino[f].buffered++;
}

/* ---- the daemon's select ---- */
static int stop_requested;
static int term_at;                 /* select count at which this incarnation is told to stop (0 = only at the horizon) */
static int seen_pending;            /* npending at the previous select (hold=: has the daemon issued a command since?) */
static int last_active;             /* last select of the first incarnation at which a command, report or arrival happened */
#define MAXSEL 4096
static unsigned char active_sel[MAXSEL];   /* ... and the set of those selects */
static void mark_active(void) { if (incarnation == 1) { last_active = nselect; if (nselect < MAXSEL) active_sel[nselect] = 1; } }
static int totrcpt;
static int daemon_select(simproc *p, int nfds, fd_set *r, fd_set *w, struct timeval *tv) {
  if (p->idx != 0) return 0;
  nselect++; known_prune();
  parse_commands();
  int newcmds = npending != seen_pending; seen_pending = npending;
  if (newcmds) mark_active();
  if (term_at && nselect == term_at) { xlog("X signal T (term)\n"); sim_deliver_signal(p, SIGTERM); stop_requested = 1; }
  for (int i = 0; i < S.nsig; i++) if (S.sig[i].at == nselect) {
    int sg = S.sig[i].sig == 'T' ? SIGTERM : S.sig[i].sig == 'A' ? SIGALRM : SIGHUP;
    xlog("X signal %c\n", S.sig[i].sig);
    sim_deliver_signal(p, sg);
  }
  if (nselect == S.hor) { xlog("X signal T (horizon)\n"); sim_deliver_signal(p, SIGTERM); stop_requested = 1; }
  if (nselect > S.hor + 60 + totrcpt) { xlog("X horizon-abort\n"); p->exitcode = -98; sim_crash_before = W.ncalls_total + 1; }
  for (int i = 0; i < S.nmsg; i++) if (!S.msg[i].created && S.msg[i].arrive && S.msg[i].arrive <= nselect) { create_message(&S.msg[i], i); mark_active(); }
  /* one report per select (hold=: none while the daemon is still issuing commands and fewer than `hold` attempts are unanswered) */
  static int cand[MAXPEND]; int nc = 0;
  int inflight = 0;
  for (int i = 0; i < npending; i++) if (!pending[i].sent) { inflight++; if (!stop_requested && ((S.slow > 0 && nselect - pending[i].born < S.slow) || (S.slowt > 0 && W.clock - pending[i].bornclock < S.slowt))) continue; cand[nc++] = i; }   /* slow= slowt=: not answered yet */
  if (inflight) mark_active();
  if (nc && !(S.hold > 0 && newcmds && nc < S.hold && !stop_requested)) {
    int k = S.ord == 0 ? 0 : S.ord == 1 ? nc - 1 : (int)((ordrng = ordrng * 6364136223846793005ull + 1442695040888963407ull) >> 33) % nc;
    send_report(&pending[cand[k]]);
  }
  int n = 0; fd_set ro, wo; FD_ZERO(&ro); FD_ZERO(&wo);
  for (int fd = 0; fd < nfds && fd < SIM_MAXFD; fd++) {
    simfd *f = &p->fd[fd];
    if (r && FD_ISSET(fd, r)) {
      int ok = 0;
      if (f->kind == SFD_FIFO_R) ok = W.ino[f->ino].buffered > 0;
      else if (f->kind == SFD_SOURCE) ok = W.src[f->aux].pos < W.src[f->aux].data.n || W.src[f->aux].closed;
      else if (f->kind == SFD_PIPE_R) ok = W.pipe[f->aux].data.n > 0 || W.pipe[f->aux].wclosed;
      if (ok) { FD_SET(fd, &ro); n++; }
    }
    if (w && FD_ISSET(fd, w) && f->kind != SFD_FREE) { FD_SET(fd, &wo); n++; }
  }
  if (n == 0 && tv && tv->tv_sec > 0) W.clock += tv->tv_sec;
  if (r) *r = ro; if (w) *w = wo;
  return n;
}

#ifndef QSEND_REAL_QMAIL
/* ---- stand-in for qmail.c: bounce injection is one atomic event (its atomicity is C01) ---- */
static hbuf bmsg, benv; static int bfail;
int qmail_open(struct qmail *qq) { bmsg.n = benv.n = 0; bfail = 0; qq->flagerr = 0; qq->pid = 9000 + nbounce; qq->fdm = 1; return 0; }
unsigned long qmail_qp(struct qmail *qq) { return qq->pid; }
void qmail_fail(struct qmail *qq) { qq->flagerr = 1; }
void qmail_put(struct qmail *qq, char *s, size_t len) { if (!qq->flagerr) hbuf_add(qq->fdm ? &bmsg : &benv, s, len); }
void qmail_from(struct qmail *qq, char *s) { qq->fdm = 0; qmail_put(qq, "F", 1); qmail_put(qq, s, strlen(s)); qmail_put(qq, "", 1); }
void qmail_to(struct qmail *qq, char *s) { qmail_put(qq, "T", 1); qmail_put(qq, s, strlen(s)); qmail_put(qq, "", 1); }
char *qmail_close(struct qmail *qq) {
  int scripted = S.bf[0] ? S.bf[nbounce % strlen(S.bf)] == '1' : 0;
  nbounce++;
  int fail = scripted || qq->flagerr;
  xlog("X bounce n=%d result=%s env=", nbounce, fail ? "fail" : "ok"); xhex(benv.p, benv.n); xlog(" body="); xhex(bmsg.p, bmsg.n); xlog("\n");
  return fail ? "Zqq scripted failure (#4.3.0)" : "";
}

static int announce_new_messages(int direct) { (void)direct; return -1; }
static void known_add(int ino) { (void)ino; }
static void known_prune(void) { }
static void real_reset(void) { }
#else
/* ---- REAL qmail.c mode (-DQSEND_REAL_QMAIL; qmail.c compiled with -include qsend_fork.h): qmail-send's injectbounce() drives
 * the real qmail_open/put/fail/from/to/close; qmail_open's pipe()/fork()/execv() create a second simulated process that runs
 * the REAL qmail-queue main (instance "qq") under qsim on the other side of three simulated pipes; qmail_close's waitpid()
 * blocks until it has exited.  What counts as "the bounce" for the driver (X bounce ... env= body=) is what qmail-queue
 * COMMITTED to the queue: the envelope in todo/<n> and the content of mess/<n>; the new message is announced (X newmsg) and
 * from then on is an ordinary message of the scenario (its recipient is the original sender / the double-bounce address).
 * bf=1 (scripted failure): that qmail-queue is killed before its first system call (qmail_close: "Zqq crashed"). */
SIM_INSTANCE(qq)
static int nknown;                              /* message numbers already announced with X newmsg */
static int known[4096]; static void known_add(int ino) { if (nknown < 4096) known[nknown++] = ino; }
static int is_known(int ino) { for (int i = 0; i < nknown; i++) if (known[i] == ino) return 1; return 0; }
/* a message number is reused once the message is gone; it stays `known` only while its todo/<n> exists (called at every select
 * of the daemon: between the removal of todo/<n> by qmail-clean and a new message with that number lie many selects) */
static void known_prune(void) {
  int k = 0; char pth[120];
  for (int i = 0; i < nknown; i++) { snprintf(pth, sizeof pth, QROOT "/todo/%d", known[i]); if (sim_lookup(pth) >= 0) known[k++] = known[i]; }
  nknown = k;
}
static simproc *qq_parent; static int qq_forks, qq_fault_slot = -1;
static void real_reset(void) { nknown = 0; qq_forks = 0; qq_fault_slot = -1; }
/* announce every todo/<n> that qmail-queue linked; returns the last one announced (or -1) */
static int announce_new_messages(int direct) {
  int last = -1; const char *pre = QROOT "/todo/"; size_t pl = strlen(pre);
  for (int i = 0; i < W.ndent; i++) {
    if (W.dent[i].ino < 0 || strncmp(W.dent[i].path, pre, pl)) continue;
    int id = atoi(W.dent[i].path + pl); if (id <= 0 || is_known(id)) continue;
    known_add(id); last = id;
    hbuf *b = &W.ino[W.dent[i].ino].cur; size_t k = 0;
    hbuf line = { 0 }; char t[64]; int n = snprintf(t, sizeof t, "X newmsg id=%d sender=", id); hbuf_add(&line, t, n);
    static const char hx[] = "0123456789abcdef"; int seenF = 0;
    while (k < b->n) {
      size_t e = k; while (e < b->n && b->p[e]) e++;
      if (e >= b->n) break;                               /* unterminated tail: not a record */
      if (b->p[k] == 'F' && !seenF) { seenF = 1; if (e == k + 1) hbuf_add(&line, "-", 1); for (size_t j = k + 1; j < e; j++) { char h[2] = { hx[b->p[j] >> 4], hx[b->p[j] & 15] }; hbuf_add(&line, h, 2); } }
      else if (b->p[k] == 'T' && seenF) { hbuf_add(&line, " rcpt=", 6); if (e == k + 1) hbuf_add(&line, "-", 1); for (size_t j = k + 1; j < e; j++) { char h[2] = { hx[b->p[j] >> 4], hx[b->p[j] & 15] }; hbuf_add(&line, h, 2); } }
      k = e + 1;
    }
    hbuf_add(&line, "\n", 1);
    if (direct) fwrite(line.p, 1, line.n, h_out); else hbuf_add(&sim_trace, line.p, line.n);
    free(line.p);
  }
  return last;
}
static int fd_free_from(simproc *p, int from) { for (int fd = from; fd < SIM_MAXFD; fd++) if (p->fd[fd].kind == SFD_FREE) return fd; return -1; }
int pipe(int fds[2]) {
  if (!sim_on) { static int (*f)(int *); if (!f) f = dlsym(RTLD_NEXT, "pipe"); return f(fds); }
  simproc *p = sim_cur;
  /* the three pipes of an earlier injection are dead once both ends are closed everywhere: reuse them */
  int dead = 1; for (int i = 2; i < W.npipe; i++) if (W.pipe[i].readers || W.pipe[i].writers) dead = 0;
  if (dead && W.npipe > 2) W.npipe = 2;
  int r = fd_free_from(p, 0), w = r < 0 ? -1 : fd_free_from(p, r + 1);
  if (W.npipe >= 8 || r < 0 || w < 0) { errno = ENFILE; return -1; }
  int id = sim_pipe_new(); sim_fd_pipe(p, r, id, 0); sim_fd_pipe(p, w, id, 1);
  fds[0] = r; fds[1] = w;
  sim_tr("P%d pipe -> %d %d\n", p->idx, r, w);
  return 0;
}
jmp_buf *qsend_fork_prepare(void) {
  simproc *par = sim_cur; qq_parent = par;
  simproc *c = &P[2];
  if (c->used && c->mainfn) { pthread_join(c->th, 0); c->mainfn = 0; }
  long pid = 8000 + 100 * incarnation + (++qq_forks);
  sim_proc(2, "qmail-queue", pid, par->uid, par->cwd);
  c->euid = par->euid; c->gid = par->gid;
  for (int fd = 0; fd < SIM_MAXFD; fd++) {          /* fork: the child inherits every descriptor */
    simfd *f = &par->fd[fd]; c->fd[fd] = *f;
    if (f->kind == SFD_FILE || f->kind == SFD_FIFO_R || f->kind == SFD_FIFO_W) { W.ino[f->ino].nopen++; if (f->kind == SFD_FIFO_R) W.ino[f->ino].readers++; if (f->kind == SFD_FIFO_W) W.ino[f->ino].writers++; }
    else if (f->kind == SFD_PIPE_W) W.pipe[f->aux].writers++;
    else if (f->kind == SFD_PIPE_R) W.pipe[f->aux].readers++;
  }
  sim_tr("P%d fork -> %ld\n", par->idx, pid);
  return &c->exitjb;
}
int qsend_fork_child(void) { sim_cur = &P[2]; sim_threads = 0; return 0; }      /* the child branch runs inline until execv / _exit */
int qsend_fork_parent(void) { sim_cur = qq_parent; sim_threads = 1; sim_on = 1; return (int)P[2].pid; }
int execv(const char *path, char *const argv[]) {
  if (!sim_on) { static int (*f)(const char *, char *const *); if (!f) f = dlsym(RTLD_NEXT, "execv"); return f(path, argv); }
  simproc *c = sim_cur;
  if (c != &P[2] || strcmp(path, "bin/qmail-queue") || strcmp(c->cwd, "/var/qmail")) { errno = ENOENT; return -1; }
  sim_tr("P%d execv %s\n", c->idx, path);
  /* close-on-exec is not used by qmail-send: the queue program inherits what the child branch left open */
  int scripted = S.bf[0] ? S.bf[nbounce % strlen(S.bf)] == '1' : 0;
  qq_fault_slot = -1;
  if (scripted && sim_nfaults < 8) { qq_fault_slot = sim_nfaults; sim_faults[sim_nfaults].proc = 2; sim_faults[sim_nfaults].callno = 1; sim_faults[sim_nfaults].err = -4; sim_nfaults++; }   /* killed before its first call: "Zqq crashed" */
  sim_on = 0; sim_threads = 1;
  sim_spawn(c, qq_main);
  longjmp(c->exitjb, 1);
}
static int qq_child_alive(simproc *p) { (void)p; return P[2].alive; }
pid_t waitpid(pid_t pid, int *wstat, int opts) {
  if (!sim_on) { static pid_t (*f)(pid_t, int *, int); if (!f) f = dlsym(RTLD_NEXT, "waitpid"); return f(pid, wstat, opts); }
  simproc *p = sim_cur, *c = &P[2];
  if (!c->used || c->pid != pid) { errno = ECHILD; return -1; }
  if (c->alive) sim_wait(qq_child_alive, "waitpid");
  if (c->mainfn) { pthread_join(c->th, 0); c->mainfn = 0; }
  if (qq_fault_slot >= 0 && qq_fault_slot == sim_nfaults - 1) sim_nfaults--;
  qq_fault_slot = -1;
  for (int i = 0; i < sim_nfaults; i++) if (sim_faults[i].proc == 2) sim_faults[i].proc = 99;   /* a planned fault of the queue program (fault=2:k:e) hits the first injection only */
  int ok = !c->crashed && c->exitcode == 0;
  if (wstat) *wstat = c->crashed ? 9 : (c->exitcode & 255) << 8;
  sim_tr("P%d waitpid %ld -> exit=%d crashed=%d\n", p->idx, (long)pid, c->exitcode, c->crashed);
  c->used = 0;
  nbounce++;
  int id = announce_new_messages(0);
  xlog("X bounce n=%d result=%s", nbounce, ok && id > 0 ? "ok" : "fail");
  if (ok && id > 0) {
    char pth[120]; snprintf(pth, sizeof pth, QROOT "/todo/%d", id); int ti = sim_lookup(pth);
    snprintf(pth, sizeof pth, QROOT "/mess/%d/%d", id % auto_split, id); int mi = sim_lookup(pth);
    xlog(" queued=%d env=", id);
    if (ti >= 0) { hbuf *b = &W.ino[ti].cur; size_t k = 0; while (k < b->n && b->p[k] != 'F') { while (k < b->n && b->p[k]) k++; k++; } if (k < b->n) xhex(b->p + k, b->n - k); else xhex("", 0); } else xhex("", 0);
    xlog(" body="); if (mi >= 0) xhex(W.ino[mi].cur.p, W.ino[mi].cur.n); else xhex("", 0);
  } else xlog(" env=- body=-");
  xlog("\n");
  return pid;
}
#endif

/* ---- world ---- */
static void ctl(const char *name, const char *val) { char p[120]; snprintf(p, sizeof p, "/var/qmail/control/%s", name); sim_mkfile(p, val, strlen(val), 0, 0644); }
static void world_init(void) {
  char b[100];
  sim_reset();
  sim_user("alias", 7790, 2108); sim_user("qmaild", 7791, 2108); sim_user("qmails", 7796, 2107); sim_user("qmailq", 7794, 2107);
  sim_user("qmailr", 7795, 2107); sim_user("qmaill", 7792, 2108); sim_user("qmailp", 7793, 2108);
  static const char *dirs[] = { "pid", "intd", "todo", "bounce", "lock", 0 };
  for (int i = 0; dirs[i]; i++) { snprintf(b, sizeof b, QROOT "/%s", dirs[i]); sim_mkdir_p(b, 7794, 0700); }
  static const char *sdirs[] = { "mess", "info", "local", "remote", 0 };
  for (int j = 0; sdirs[j]; j++) for (int i = 0; i < auto_split; i++) { snprintf(b, sizeof b, QROOT "/%s/%d", sdirs[j], i); sim_mkdir_p(b, 7794, 0700); }
  sim_mkdir_p("/var/qmail/control", 0, 0755);
  sim_mkfifo_(QROOT "/lock/trigger", 7796, 0622);
  sim_mkfile(QROOT "/lock/sendmutex", "", 0, 7796, 0600);
  ctl("me", "h.example\n"); ctl("locals", "h.example\n");
  snprintf(b, sizeof b, "%d\n", S.cl); ctl("concurrencylocal", b);
  snprintf(b, sizeof b, "%d\n", S.cr); ctl("concurrencyremote", b);
  snprintf(b, sizeof b, "%ld\n", S.life); ctl("queuelifetime", b);
  for (int i = 0; i < S.nmsg; i++) S.msg[i].created = 0;
  for (int i = 0; i < S.nmsg; i++) if (!S.msg[i].arrive) create_message(&S.msg[i], i);
}

static void start_incarnation(void) {
  incarnation++;
  sim_globals_restore();
  npending = 0; nselect = 0; cmdpos[0] = cmdpos[1] = 0; stop_requested = 0; seen_pending = 0;
  W.nsrc = 0; W.nsink = 0; W.npipe = 0;
  P[2].used = 0;
  simproc *p0 = sim_proc(0, "qmail-send", 500 + incarnation, 7796, "/");
  simproc *p1 = sim_proc(1, "qmail-clean", 600 + incarnation, 7794, "/");
  sim_fd_sink(p0, 0);
  sinkid[0] = sim_fd_sink(p0, 1); sinkid[1] = sim_fd_sink(p0, 3);
  unsigned char sb0 = S.sl, sb1 = S.sr;
  srcid[0] = sim_fd_source(p0, 2, &sb0, 1, 0); srcid[1] = sim_fd_source(p0, 4, &sb1, 1, 0);
  int a = sim_pipe_new(), b = sim_pipe_new();
  sim_fd_pipe(p0, 5, a, 1); sim_fd_pipe(p1, 0, a, 0);
  sim_fd_pipe(p1, 1, b, 1); sim_fd_pipe(p0, 6, b, 0);
  sim_fd_sink(p1, 2);
  sim_threads = 1;
  sim_select_hook = daemon_select; sim_sink_hook = sink_written;
  xlog("X start incarnation=%d clock=%ld\n", incarnation, W.clock);
  sim_spawn(p0, qs_main); sim_spawn(p1, qc_main);
  sim_run_all();
  sim_threads = 0;
  parse_commands();
  xlog("X end incarnation=%d exit=%d crashed=%d clock=%ld\n", incarnation, P[0].exitcode, P[0].crashed, W.clock);
}

static void dump(const char *tag) {
  hbuf d = { 0 }; sim_dump(&d, QROOT "/", 1);
  fprintf(h_out, "X dump %s\n", tag);        /* announces the dump even when the queue is empty (no D line follows) */
  char *s = (char *)d.p; size_t n = d.n, i = 0;
  while (i < n) { size_t j = i; while (j < n && s[j] != '\n') j++; if (strncmp(s + i, "lock/", 5)) fprintf(h_out, "D %s %.*s\n", tag, (int)(j - i), s + i); i = j + 1; }
  free(d.p);
}
static void flush_trace(void) {
  char *s = (char *)sim_trace.p; size_t n = sim_trace.n, i = 0;
  while (i < n) { size_t j = i; while (j < n && s[j] != '\n') j++;
    if (s[i] == 'X') fprintf(h_out, "%.*s\n", (int)(j - i), s + i); else fprintf(h_out, "T %.*s\n", (int)(j - i), s + i);
    i = j + 1; }
  sim_trace.n = 0;
}

static void (*after_first_incarnation)(void);    /* sweep generators: inspect the trace of the base run before it is flushed */
static int hook_inc;                             /* ... the trace of this incarnation (0 = the first) */
static void run_scenario(void) {
  fprintf(h_out, "CASE %s\n", S.text);
  incarnation = 0; nattempt = 0; nbounce = 0; ordrng = 88172645463325252ull; last_active = 0; memset(active_sel, 0, sizeof active_sel);
  totrcpt = 0; for (int i = 0; i < S.nmsg; i++) totrcpt += S.msg[i].nrcpt;
  real_reset();
  world_init();
  dump("init");
  for (int inc = 0; inc < 8; inc++) {
    if (inc < S.ncrash) sim_crash_before = W.ncalls_total + S.crash[inc].k;
    sim_nfaults = 0;
    if (inc == S.finc && S.fcall > 0) { sim_faults[0].proc = S.fproc; sim_faults[0].callno = S.fcall; sim_faults[0].err = S.ferr; sim_nfaults = 1; }
    term_at = inc < S.nterm ? S.term[inc] : 0;
    start_incarnation();
    if (inc == hook_inc && after_first_incarnation) after_first_incarnation();
    flush_trace();
    int crashed = P[0].crashed;
    if (crashed) { sim_apply_crash(inc < S.ncrash ? S.crash[inc].mode : CR_KEEP); fprintf(h_out, "X crash-applied mode=%d\n", inc < S.ncrash ? S.crash[inc].mode : 0); announce_new_messages(1); }
    char tag[24]; snprintf(tag, sizeof tag, "after%d", inc + 1); dump(tag);
    if (crashed) continue;
    /* arrivals scheduled for an incarnation that crashed are re-armed relative to the new incarnation */
    /* a planned clean stop (term=) that ended with exit 0 is followed by a restart on the same queue */
    if (inc < S.nterm && P[0].exitcode == 0) { fprintf(h_out, "X clean-restart\n"); continue; }
    break;
  }
  fprintf(h_out, "END\n");
}

/* ---- scenario parsing / generation ---- */
static void parse_scenario(const char *line) {
  memset(&S, 0, sizeof S); S.cl = 2; S.cr = 2; S.sl = 5; S.sr = 5; S.life = 604800; S.hor = 400;
  snprintf(S.text, sizeof S.text, "%s", line); { char *nl = strchr(S.text, '\n'); if (nl) *nl = 0; }
  char tmp[1600]; snprintf(tmp, sizeof tmp, "%s", S.text); char *save = 0;
  for (char *t = strtok_r(tmp, " ", &save); t; t = strtok_r(0, " ", &save)) {
    char *v = strchr(t, '='); if (!v) continue; *v++ = 0;
    if (!strcmp(t, "cl")) S.cl = atoi(v); else if (!strcmp(t, "cr")) S.cr = atoi(v);
    else if (!strcmp(t, "sl")) S.sl = atoi(v); else if (!strcmp(t, "sr")) S.sr = atoi(v);
    else if (!strcmp(t, "life")) S.life = atol(v); else if (!strcmp(t, "out")) snprintf(S.out, sizeof S.out, "%s", v);
    else if (!strcmp(t, "ord")) S.ord = atoi(v); else if (!strcmp(t, "bf")) snprintf(S.bf, sizeof S.bf, "%s", v);
    else if (!strcmp(t, "hor")) S.hor = atoi(v);
    else if (!strcmp(t, "hold")) S.hold = atoi(v);
    else if (!strcmp(t, "slow")) S.slow = atoi(v);
    else if (!strcmp(t, "slowt")) S.slowt = atol(v);
    else if (!strcmp(t, "term")) { char *s2 = 0; for (char *u = strtok_r(v, ",", &s2); u && S.nterm < 6; u = strtok_r(0, ",", &s2)) S.term[S.nterm++] = atoi(u); }
    else if (!strcmp(t, "fault")) sscanf(v, "%d:%d:%d:%d", &S.fproc, &S.fcall, &S.ferr, &S.finc);
    else if (!strcmp(t, "sig")) { char *s2 = 0; for (char *u = strtok_r(v, ",", &s2); u && S.nsig < 6; u = strtok_r(0, ",", &s2)) { char c; if (sscanf(u, "%d:%c", &S.sig[S.nsig].at, &c) == 2) S.sig[S.nsig++].sig = c; } }
    else if (!strcmp(t, "crash")) { char *s2 = 0; for (char *u = strtok_r(v, ",", &s2); u && S.ncrash < 4; u = strtok_r(0, ",", &s2)) if (sscanf(u, "%lu:%d", &S.crash[S.ncrash].k, &S.crash[S.ncrash].mode) == 2) S.ncrash++; }
    else if (!strcmp(t, "m")) {
      char *s2 = 0;
      for (char *u = strtok_r(v, ";", &s2); u && S.nmsg < 6; u = strtok_r(0, ";", &s2)) {
        smsg *m = &S.msg[S.nmsg++]; char *at = strrchr(u, '@'); m->arrive = 0;
        /* trailing @<n> is the arrival select count */
        if (at && at[1] >= '0' && at[1] <= '9' && strspn(at + 1, "0123456789") == strlen(at + 1)) { m->arrive = atoi(at + 1); *at = 0; }
        char *colon = strchr(u, ':'); if (!colon) { S.nmsg--; continue; } *colon = 0;
        snprintf(m->sender, sizeof m->sender, "%s", !strcmp(u, "-") ? "" : u);
        char *s3 = 0; m->nrcpt = 0;
        for (char *r = strtok_r(colon + 1, ",", &s3); r && m->nrcpt < MAXR; r = strtok_r(0, ",", &s3)) {
          char *star = strchr(r, '*');
          if (star && star[1] >= '0' && star[1] <= '9') {          /* <pre>*<N><post>: N generated recipients */
            char *post = star + 1; int cnt = (int)strtol(star + 1, &post, 10);
            for (int k = 0; k < cnt && m->nrcpt < MAXR; k++) snprintf(m->rcpt[m->nrcpt++], 64, "%.*s%03d%s", (int)(star - r), r, k, post);
          } else snprintf(m->rcpt[m->nrcpt++], 64, "%s", r);
        }
      }
    }
  }
}

static const char *senders[] = { "s@src.example", "-", "#@[]", "list-@lists.example-@[]", "x@h.example" };
static const char *rcpts[] = { "u1@h.example", "u2@h.example", "r1@far.example", "r2@far.example", "u3@h.example", "r3@other.example" };
static void gen_scenario(char *o, size_t osz, int mode) {
  size_t n = 0;
  int nm = 1 + h_below(mode == 0 ? 1 : 3);
  n += snprintf(o + n, osz - n, "m=");
  for (int i = 0; i < nm; i++) {
    int nr = 1 + h_below(3); int base = h_below(6);
    n += snprintf(o + n, osz - n, "%s%s:", i ? ";" : "", senders[h_below(10) < 6 ? 0 : h_below(5)]);
    for (int j = 0; j < nr; j++) n += snprintf(o + n, osz - n, "%s%s", j ? "," : "", rcpts[(base + j * (1 + h_below(2))) % 6]);
    if (i && h_below(2)) n += snprintf(o + n, osz - n, "@%d", 1 + (int)h_below(25));
  }
  static const char *alph = "KKKZZDDGXUBL";
  char out[24]; int ol = 1 + h_below(8); for (int i = 0; i < ol; i++) out[i] = alph[h_below(12)]; out[ol] = 0;
  n += snprintf(o + n, osz - n, " out=%s ord=%d cl=%d cr=%d sl=%d sr=%d", out, (int)h_below(3), (int)h_below(4), (int)h_below(4), (int)h_below(4), 1 + (int)h_below(3));
  if (h_below(3) == 0) n += snprintf(o + n, osz - n, " life=%d", (int[]){0, 1, 150, 2000}[h_below(4)]);
  if (h_below(4) == 0) n += snprintf(o + n, osz - n, " bf=%s", (const char *[]){"1", "10", "110", "01"}[h_below(4)]);
  if (h_below(3) == 0) { n += snprintf(o + n, osz - n, " sig=%d:%c", 2 + (int)h_below(30), "TAH"[h_below(3)]); if (h_below(2)) n += snprintf(o + n, osz - n, ",%d:%c", 2 + (int)h_below(40), "TAH"[h_below(3)]); }
  if (mode == 2) { n += snprintf(o + n, osz - n, " crash=%d:%d", 100 + (int)h_below(500), (int)h_below(5)); if (h_below(3) == 0) n += snprintf(o + n, osz - n, ",%d:%d", 100 + (int)h_below(400), (int)h_below(5)); }
  if (mode == 3) n += snprintf(o + n, osz - n, " fault=0:%d:%d", 100 + (int)h_below(500), (int[]){EIO, ENOSPC, -1, EINTR, ENOMEM}[h_below(5)]   /* never ENOENT: "no such file" is an answer, not a transient failure */);
  n += snprintf(o + n, osz - n, " hor=%d", 200 + (int)h_below(400));
}

/* ---- additional scenario families (numbered after the classic ones; see the header) ---- */
static const int edge255[] = { 0, 1, 2, 3, 4, 100, 119, 120, 126, 127, 128, 129, 130, 160, 200, 254, 255 };
static int pick255(void) { return h_below(3) == 0 ? edge255[h_below(sizeof edge255 / sizeof edge255[0])] : (int)h_below(256); }
static const char *outscript(char *out, int maxlen, const char *alph) {
  int ol = 1 + h_below(maxlen), al = strlen(alph); for (int i = 0; i < ol; i++) out[i] = alph[h_below(al)]; out[ol] = 0; return out;
}

/* bound: spawner limit byte and configured concurrency over the whole byte range (and a little beyond for the configured
 * value), more ready recipients than min(configured, announced), reports withheld until the daemon stops issuing commands */
static void gen_bound(char *o, size_t osz) {
  int lim[2], conf[2], nr[2]; size_t n = 0; char out[24];
  int which = h_below(3);                         /* 0 local, 1 remote, 2 both channels loaded */
  for (int c = 0; c < 2; c++) {
    lim[c] = pick255(); conf[c] = h_below(5) == 0 ? 256 + (int)h_below(300) : pick255();
    int b = lim[c] < conf[c] ? lim[c] : conf[c];
    nr[c] = (which == c || which == 2) ? b + 1 + (int)h_below(12) : (int)h_below(3);
    if (which == 2 && nr[c] > 140) nr[c] = 140;
    if (nr[c] > MAXR - 20) nr[c] = MAXR - 20;
  }
  if (nr[0] + nr[1] == 0) nr[h_below(2)] = 1;
  n += snprintf(o + n, osz - n, "m=%s:", senders[h_below(10) < 7 ? 0 : h_below(5)]);
  if (nr[0]) n += snprintf(o + n, osz - n, "u*%d@h.example", nr[0]);
  if (nr[1]) n += snprintf(o + n, osz - n, "%sr*%d@far.example", nr[0] ? "," : "", nr[1]);
  if (h_below(3) == 0) n += snprintf(o + n, osz - n, ";s@src.example:u1@h.example,r1@far.example@%d", 1 + (int)h_below(40));
  n += snprintf(o + n, osz - n, " out=%s ord=%d cl=%d cr=%d sl=%d sr=%d", outscript(out, 6, "KKKKZZDG"), (int)h_below(3), conf[0], conf[1], lim[0], lim[1]);
  n += snprintf(o + n, osz - n, " hold=%d", (int[]){999, 999, 8, 40}[h_below(4)]);
  if (h_below(6) == 0) n += snprintf(o + n, osz - n, " life=%d", (int[]){0, 1, 150}[h_below(3)]);
  if (h_below(6) == 0) n += snprintf(o + n, osz - n, " sig=%d:%c", 2 + (int)h_below(60), "TAH"[h_below(3)]);
  n += snprintf(o + n, osz - n, " hor=%d", 40 + nr[0] + nr[1] + (int)h_below(2 * (nr[0] + nr[1]) + 40));
}

/* multi-pass: several recipients of one message on ONE channel, mixed outcomes over several passes (marks at every position) */
static void gen_multipass(char *o, size_t osz) {
  size_t n = 0; char out[40];
  int nm = 1 + (h_below(4) == 0);
  n += snprintf(o + n, osz - n, "m=");
  for (int i = 0; i < nm; i++) {
    int nr = 3 + h_below(6); int loc = h_below(2);
    n += snprintf(o + n, osz - n, "%s%s:", i ? ";" : "", senders[h_below(10) < 7 ? 0 : h_below(5)]);
    if (h_below(2)) n += snprintf(o + n, osz - n, loc ? "u*%d@h.example" : "r*%d@far.example", nr);     /* equal-length addresses */
    else for (int j = 0; j < nr; j++) n += snprintf(o + n, osz - n, "%s%.*s%d%s", j ? "," : "", 1 + (int)h_below(9), "recipient", j, loc ? "@h.example" : (h_below(2) ? "@far.example" : "@other.example"));
    if (h_below(5) == 0) n += snprintf(o + n, osz - n, ",%s", rcpts[h_below(6)]);
    if (i) n += snprintf(o + n, osz - n, "@%d", 1 + (int)h_below(40));
  }
  n += snprintf(o + n, osz - n, " out=%s ord=%d cl=%d cr=%d sl=%d sr=%d", outscript(out, 14, "KKZZZZDDGB"), (int)h_below(3), 1 + (int)h_below(9), 1 + (int)h_below(9), 1 + (int)h_below(9), 1 + (int)h_below(9));
  if (h_below(3) == 0) n += snprintf(o + n, osz - n, " hold=%d", (int[]){2, 4, 99}[h_below(3)]);
  if (h_below(4) == 0) n += snprintf(o + n, osz - n, " life=%d", (int[]){0, 1, 150, 2000}[h_below(4)]);
  if (h_below(3) == 0) n += snprintf(o + n, osz - n, " sig=%d:A,%d:%c", 5 + (int)h_below(30), 10 + (int)h_below(60), "AAH"[h_below(3)]);
  if (h_below(4) == 0) n += snprintf(o + n, osz - n, " crash=%d:%d", 120 + (int)h_below(900), (int)h_below(5));
  n += snprintf(o + n, osz - n, " hor=%d", 150 + (int)h_below(250));
}

/* base of a fault sweep: 2-3 messages that arrive one after the other (a later one usually after the earlier has left the
 * queue, so that job slots, delivery slots and message numbers are reused), mostly successful outcomes */
static void gen_faultbase(char *o, size_t osz) {
  size_t n = 0; char out[24]; int nm = 2 + h_below(2), at = 0;
  n += snprintf(o + n, osz - n, "m=");
  for (int i = 0; i < nm; i++) {
    int nr = 1 + h_below(3); int base = h_below(6);
    n += snprintf(o + n, osz - n, "%s%s:", i ? ";" : "", senders[h_below(10) < 7 ? 0 : h_below(5)]);
    for (int j = 0; j < nr; j++) n += snprintf(o + n, osz - n, "%s%s", j ? "," : "", rcpts[(base + j * (1 + h_below(2))) % 6]);
    if (i) { at += h_below(4) == 0 ? 1 + (int)h_below(6) : 10 + (int)h_below(25); n += snprintf(o + n, osz - n, "@%d", at); }
  }
  n += snprintf(o + n, osz - n, " out=%s ord=%d cl=%d cr=%d sl=%d sr=%d", outscript(out, 6, "KKKKKKZDB"), (int)h_below(3), 1 + (int)h_below(3), 1 + (int)h_below(3), 1 + (int)h_below(5), 1 + (int)h_below(5));
  if (h_below(5) == 0) n += snprintf(o + n, osz - n, " life=%d", (int[]){0, 1, 150}[h_below(3)]);
  if (h_below(6) == 0) n += snprintf(o + n, osz - n, " bf=%s", (const char *[]){"1", "10", "01"}[h_below(3)]);
  n += snprintf(o + n, osz - n, " hor=%d", at + 50 + (int)h_below(60));
}

/* base of a clean-stop sweep: few messages with more recipients than delivery slots, often already expired when retried */
static void gen_termbase(char *o, size_t osz) {
  size_t n = 0; char out[24]; int nm = 1 + (h_below(3) == 0);
  n += snprintf(o + n, osz - n, "m=");
  for (int i = 0; i < nm; i++) {
    int nr = 2 + h_below(4); int base = h_below(6); int kind = h_below(3);
    n += snprintf(o + n, osz - n, "%s%s:", i ? ";" : "", senders[h_below(10) < 7 ? 0 : h_below(5)]);
    if (kind == 0) n += snprintf(o + n, osz - n, "u*%d@h.example", nr);
    else if (kind == 1) n += snprintf(o + n, osz - n, "r*%d@far.example", nr);
    else for (int j = 0; j < nr; j++) n += snprintf(o + n, osz - n, "%s%s", j ? "," : "", rcpts[(base + j) % 6]);
    if (i) n += snprintf(o + n, osz - n, "@%d", 1 + (int)h_below(20));
  }
  n += snprintf(o + n, osz - n, " out=%s ord=%d cl=%d cr=%d sl=%d sr=%d", outscript(out, 8, "KKZZZDDG"), (int)h_below(3), 1 + (int)h_below(2), 1 + (int)h_below(2), 1 + (int)h_below(4), 1 + (int)h_below(4));
  n += snprintf(o + n, osz - n, " life=%d", (int[]){0, 0, 1, 150, 604800}[h_below(5)]);
  if (h_below(3) == 0) n += snprintf(o + n, osz - n, " hold=%d", (int[]){1, 2, 9}[h_below(3)]);
  if (h_below(5) == 0) n += snprintf(o + n, osz - n, " bf=%s", (const char *[]){"1", "10", "01"}[h_below(3)]);
  n += snprintf(o + n, osz - n, " hor=%d", 120 + (int)h_below(120));   /* the start-up scan of mess/ takes about 95 selects; retries come after it */
}

/* base of a slow-delivery fault sweep: 1-2 messages with several recipients; every attempt stays in flight for `slow` selects of
 * the daemon and `slowt` seconds of virtual time (0, or more than SLEEP_SYSFAIL = 123 s), so that while deliveries are outstanding
 * the daemon sleeps until the next retry time (virtual time passes: the clock jumps to whatever comes due next), ALRM/HUP arrive,
 * further passes open.  restart = 0: half of the first messages arrive after the start-up scan of mess/ (about 95 selects with
 * timeout 0, during which the clock stands still).  restart = 1: the first messages are there at the start, the first attempts are
 * mostly deferred and the daemon is stopped cleanly (term=) soon after; the RESTARTED daemon finds preprocessed messages with
 * unfinished recipients (pqstart/pqadd), and the sweep fails its calls. */
static void gen_slowbase(char *o, size_t osz, int restart) {
  size_t n = 0; char out[24]; int nm = 1 + (h_below(3) == 0), at = 0, nrmax = 0;
  n += snprintf(o + n, osz - n, "m=");
  for (int i = 0; i < nm; i++) {
    int nr = 2 + h_below(4); int base = h_below(6); int kind = h_below(restart ? 5 : 3);
    if (nr > nrmax) nrmax = nr;
    n += snprintf(o + n, osz - n, "%s%s:", i ? ";" : "", senders[h_below(10) < 7 ? 0 : h_below(5)]);
    if (kind == 0) n += snprintf(o + n, osz - n, "u*%d@h.example", nr);
    else if (kind == 1) n += snprintf(o + n, osz - n, "r*%d@far.example", nr);
    else for (int j = 0; j < nr; j++) n += snprintf(o + n, osz - n, "%s%s", j ? "," : "", rcpts[(base + j) % 6]);     /* both channels */
    if (i) at += 1 + (int)h_below(restart ? 8 : 30); else at = restart || h_below(2) ? 0 : 96 + (int)h_below(30);
    if (at) n += snprintf(o + n, osz - n, "@%d", at);
  }
  int slow = 2 + (int)h_below(30); int slowt = (int[]){0, 130, 130, 200, 1000}[h_below(5)];
  /* two times out of three more delivery slots than recipients: the pass reaches the end of its file while its attempts are in flight */
  int conf[2], lim[2];
  for (int c = 0; c < 2; c++) { int k = h_below(3) == 0 ? 1 + (int)h_below(3) : nrmax + 1 + (int)h_below(3); int more = k + (int)h_below(3); if (h_below(2)) { conf[c] = k; lim[c] = more; } else { conf[c] = more; lim[c] = k; } }
  if (restart) { int zl = 1 + h_below(4); memset(out, 'Z', zl); outscript(out + zl, 5, "KKKKKZZD"); } else outscript(out, 6, "KKKKKZZD");
  n += snprintf(o + n, osz - n, " out=%s ord=%d cl=%d cr=%d sl=%d sr=%d slow=%d", out, (int)h_below(3), conf[0], conf[1], lim[0], lim[1], slow);
  if (slowt) n += snprintf(o + n, osz - n, " slowt=%d", slowt);
  if (h_below(6) == 0) n += snprintf(o + n, osz - n, " life=%d", (int[]){0, 1, 150}[h_below(3)]);
  if (h_below(3)) { int a1 = at + 2 + (int)h_below(slow + 8); n += snprintf(o + n, osz - n, " sig=%d:A", a1); if (h_below(2)) n += snprintf(o + n, osz - n, ",%d:%c", a1 + 1 + (int)h_below(slow + 20), "AAH"[h_below(3)]); }
  n += snprintf(o + n, osz - n, " hor=%d", (at < 96 ? 96 : at) + 2 * slow + 30 + (int)h_below(60));
  /* clean stop: before the first command (4 selects after the arrival; the restarted daemon finds untouched records that are due at once) or after it (deferred records) */
  if (restart) n += snprintf(o + n, osz - n, " term=%d", h_below(2) ? at + 1 + (int)h_below(5) : at + 5 + (int)h_below(20));
}

/* the queue-file system calls of qmail-send in the base run (fault sweep): every call that names, or works on a descriptor
 * of, a file below info/ local/ remote/ bounce/ todo/ */
static int sweep_calls[8192], sweep_ncalls, sweep_all, sweep_total, sweep_last_active; static unsigned char sweep_active[MAXSEL];
static int sweep_skip_readdir;
static int sweep_calls1[64], sweep_ncalls1;      /* the unlink calls of qmail-clean (process 1) in the base run */
static int sweep_max2;                           /* REAL qmail.c mode: the largest call number of a qmail-queue child (process 2) in the base run */
static int qfile(const char *path) { return !strncmp(path, "info/", 5) || !strncmp(path, "local/", 6) || !strncmp(path, "remote/", 7) || !strncmp(path, "bounce/", 7) || !strncmp(path, "todo/", 5); }
static void collect_calls(void) {
  char *s = (char *)sim_trace.p; size_t n = sim_trace.n, i = 0; int isq[SIM_MAXFD]; memset(isq, 0, sizeof isq);
  sweep_ncalls = 0; sweep_ncalls1 = 0; sweep_max2 = 0; sweep_total = P[0].ncalls; sweep_last_active = last_active; memcpy(sweep_active, active_sel, sizeof sweep_active);
  while (i < n) {
    size_t j = i; while (j < n && s[j] != '\n') j++;
    char line[400]; size_t l = j - i < sizeof line - 1 ? j - i : sizeof line - 1; memcpy(line, s + i, l); line[l] = 0; i = j + 1;
    int k, fd; char op[40], arg[200];
    if (sscanf(line, "P0 close %d", &fd) == 1) { if (fd >= 0 && fd < SIM_MAXFD) isq[fd] = 0; continue; }
    if (sscanf(line, "P2 #%d ", &k) == 1) { if (k > sweep_max2) sweep_max2 = k; continue; }
    if (sscanf(line, "P1 #%d unlink %199s", &k, arg) == 2) { if (strncmp(arg, "pid/", 4) && sweep_ncalls1 < 64) sweep_calls1[sweep_ncalls1++] = k; continue; }
    if (sscanf(line, "P0 #%d %39s %199s", &k, op, arg) != 3) continue;
    int hit = 0;
    if (sweep_skip_readdir && !strcmp(op, "readdir")) continue;      /* qsim's readdir never fails: a planned fault there is a wasted run */
    if (qfile(arg)) { hit = 1; char *ar = strstr(line, "-> "); if (!strncmp(op, "open", 4) && ar) { fd = atoi(ar + 3); if (fd >= 0 && fd < SIM_MAXFD) isq[fd] = 1; } }
    else if ((!strcmp(op, "read") || !strcmp(op, "write") || !strcmp(op, "fsync") || !strcmp(op, "fstat")) && arg[0] >= '0' && arg[0] <= '9') { fd = atoi(arg); hit = fd >= 0 && fd < SIM_MAXFD && isq[fd]; }
    if ((hit || sweep_all) && sweep_ncalls < 8192 && (!sweep_ncalls || sweep_calls[sweep_ncalls - 1] != k)) sweep_calls[sweep_ncalls++] = k;
  }
}

static void run_line(char *line) { parse_scenario(line); run_scenario(); }

static void sweep_fault(char *base, int cap, int all, int only0, int finc) {
  static char line[4000];
  sweep_all = all; sweep_skip_readdir = only0; sweep_ncalls = 0; hook_inc = finc; after_first_incarnation = collect_calls; run_line(base); after_first_incarnation = 0; hook_inc = 0;
  int nc = sweep_ncalls;   /* (0 when the base run never reached incarnation finc) */ static int calls[8192]; memcpy(calls, sweep_calls, sizeof(int) * nc);
  /* at most `cap` variants, spread evenly over the calls (seeded offset) */
  int step = nc > cap ? (nc + cap - 1) / cap : 1; int off = step > 1 ? (int)h_below(step) : 0;
  static const int errs[] = { EIO, EIO, EIO, ENOMEM, -1, ENOSPC };
  for (int i = off; i < nc; i += step) {
    if (finc) snprintf(line, sizeof line, "%s fault=0:%d:%d:%d", base, calls[i], errs[h_below(6)], finc);
    else snprintf(line, sizeof line, "%s fault=0:%d:%d", base, calls[i], errs[h_below(6)]);
    run_line(line);
  }
  if (only0) return;
  /* ... and one run per unlink of qmail-clean (intd/ todo/ mess/) with that call failing: qmail-clean answers '!' (at most 12, no random draw) */
  int nc1 = sweep_ncalls1; static int calls1[64]; memcpy(calls1, sweep_calls1, sizeof(int) * nc1);
  int step1 = nc1 > 12 ? (nc1 + 11) / 12 : 1;
  for (int i = 0; i < nc1; i += step1) {
    snprintf(line, sizeof line, "%s fault=1:%d:%d", base, calls1[i], EIO);
    run_line(line);
  }
  /* ... and (REAL qmail.c mode) one run per system call of the first qmail-queue child with that call failing (at most 12) */
  int n2 = sweep_max2; int step2 = n2 > 12 ? (n2 + 11) / 12 : 1;
  for (int k2 = 1; k2 <= n2; k2 += step2) {
    snprintf(line, sizeof line, "%s fault=2:%d:%d", base, k2, EIO);
    run_line(line);
  }
}

static void sweep_term(char *base, int cap, int twice) {
  static char line[4000];
  after_first_incarnation = collect_calls; sweep_all = 0; run_line(base); after_first_incarnation = 0;
  /* TERM at every select at which (or right after which) a command, report or arrival happened, and at every 16th idle one */
  int last = sweep_last_active + 2; if (last > S.hor) last = S.hor; if (last >= MAXSEL) last = MAXSEL - 1;
  static int ks[MAXSEL]; int nk = 0;
  for (int k = 1; k <= last; k++) if (sweep_active[k] || sweep_active[k - 1] || k % 16 == 0) ks[nk++] = k;
  int step = nk > cap ? (nk + cap - 1) / cap : 1; int off = step > 1 ? (int)h_below(step) : 0;
  for (int i = off; i < nk; i += step) {
    if (twice && h_below(4) == 0) snprintf(line, sizeof line, "%s term=%d,%d", base, ks[i], 1 + (int)h_below(last));
    else if (h_below(8) == 0) snprintf(line, sizeof line, "%s term=%d crash=0:0,%d:%d", base, ks[i], 60 + (int)h_below(500), (int)h_below(5));   /* clean stop, restart, then a crash */
    else snprintf(line, sizeof line, "%s term=%d", base, ks[i]);
    run_line(line);
  }
}

int main(int argc, char **argv) {
  h_init_out();
  SIM_REGISTER(qs); SIM_REGISTER(qc);
#ifdef QSEND_REAL_QMAIL
  SIM_REGISTER(qq);
#endif
  sim_globals_snapshot();
  char *line = malloc(4000);
  if (argc > 1 && !strcmp(argv[1], "-")) {
    while (fgets(line, 4000, stdin)) { if (strlen(line) < 3) continue; parse_scenario(line); run_scenario(); }
    fflush(h_out); return 0;
  }
  int nrandom = h_argi(argc, argv, 1, 100);
  uint64_t seed = (uint64_t)h_argi(argc, argv, 2, 1);
  int shard = h_argi(argc, argv, 3, 0), nshards = h_argi(argc, argv, 4, 1);
  const char *only = getenv("QSEND_FAMILY");   /* debugging aid: run one family only (0 = classic, 1.. = the additional ones) */
  int onlyf = only ? atoi(only) : -1;
  for (int r = 0; r < nrandom; r++) {
    if (onlyf > 0) break;
    if (r % nshards != shard) continue;
    h_seed(seed * 1000003ull + r);
    gen_scenario(line, 4000, r % 4);
    parse_scenario(line); run_scenario();
  }
  /* the additional families; family f has cnt[f] members, member i runs on shard (i + f) % nshards */
  int thorough = nrandom >= 8000;
  int cnt[5] = { nrandom / 16, nrandom / 16, nrandom / 40, nrandom / 50, nrandom / 80 };
  for (int f = 0, r = nrandom; f < 5; f++) for (int i = 0; i < cnt[f]; i++, r++) {
    if ((i + 5 * f) % nshards != shard) continue;
    if (onlyf >= 0 && onlyf != f + 1) continue;
    h_seed(seed * 1000003ull + r);
    switch (f) {
      case 0: gen_bound(line, 1500); run_line(line); break;
      case 1: gen_multipass(line, 1500); run_line(line); break;
      case 2: gen_faultbase(line, 1500); sweep_fault(line, thorough ? 100 : 60, thorough && i % 4 == 0, 0, 0); break;
      case 3: gen_termbase(line, 1500); sweep_term(line, thorough ? 60 : 50, thorough); break;
      case 4: gen_slowbase(line, 1500, i % 2); sweep_fault(line, thorough ? 90 : 48, 0, 1, i % 2); break;
    }
  }
  fflush(h_out);
  return 0;
}
