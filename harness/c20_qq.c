/* C20 helper: stand-in for qmail-queue (run through QMAILQUEUE by the sanitised daemons).
 * Reads the message on fd 0 to EOF, then the envelope on fd 1 to EOF.
 * Exits 0, or 31 (permanent rejection) if the message contains "REJECTME". */
#include <unistd.h>
#include <errno.h>

static int reject;

static void drain(int fd, int scan)
{
  static const char pat[] = "REJECTME";
  char buf[8192];
  unsigned int m = 0; /* number of pattern bytes matched so far */
  for (;;) {
    ssize_t r = read(fd, buf, sizeof buf);
    if (r == 0) return;
    if (r < 0) { if (errno == EINTR) continue; return; }
    if (!scan) continue;
    for (ssize_t i = 0; i < r; i++) {
      if (buf[i] == pat[m]) { if (++m == 8) { reject = 1; m = 0; } }
      else m = (buf[i] == 'R') ? 1 : 0; /* the only proper border of a prefix of the pattern is empty */
    }
  }
}

int main(void)
{
  drain(0, 1);
  drain(1, 0);
  return reject ? 31 : 0;
}
