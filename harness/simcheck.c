/* simcheck — validates qsim (harness/sim.c) against the real kernel: the same seeded script of file-system
 * calls is executed once with the interposed libc active (in-memory world) and once for real in a fresh
 * temporary directory; the observable results are compared line by line.
 *
 * Observables: success / errno of open(O_EXCL | O_APPEND | O_TRUNC | plain, O_CREAT or not), link, unlink, rename,
 * stat (existence, size, st_nlink, and for pairs of names whether they are the same inode), fstat, read (count + bytes),
 * write (count), lseek, ftruncate, fsync, directory listings (sorted), and for a FIFO: open for reading, open for
 * writing with O_NDELAY (ENXIO iff no reader), write (EPIPE iff no reader), readability by select right after a
 * byte was written, buffer dropped when the last descriptor closes.
 * Not compared (out of scope of the model, listed in DESIGN.md 13): permissions, flock between descriptors of one
 * process, mtime/atime values, readdir order, inode *numbers*, readability of a FIFO by hang-up alone.
 *
 * usage: simcheck <ncases> <seed>      prints "SIMCHECK ok cases=.. ops=.." or the first differing lines; exit 1 on a difference
 */
#define _GNU_SOURCE
#include "sim.h"
#include <signal.h>
#include <sys/stat.h>
#include <sys/select.h>
#include <sys/time.h>
#include <dirent.h>
#include <stdarg.h>

static hbuf lg;
static uint64_t cseed;
static int nops_total;

static void L(const char *fmt, ...) {
  char b[600]; va_list ap; va_start(ap, fmt); int n = vsnprintf(b, sizeof b, fmt, ap); va_end(ap);
  int so = sim_on; sim_on = 0; hbuf_add(&lg, b, n); sim_on = so;
}
static uint64_t r64(uint64_t *s) { uint64_t z = (*s += 0x9E3779B97F4A7C15ull); z = (z ^ (z >> 30)) * 0xBF58476D1CE4E5B9ull; z = (z ^ (z >> 27)) * 0x94D049BB133111EBull; return z ^ (z >> 31); }
static int below(uint64_t *s, int n) { return (int)(r64(s) % (uint64_t)n); }

static const char *names[] = { "a/x0", "a/x1", "a/x2", "b/x0", "b/x1", "b/7", "a/7" };
#define NNAMES 7
#define NFD 5

static int cmpstr(const void *a, const void *b) { return strcmp(*(char *const *)a, *(char *const *)b); }
static void listdir(const char *d) {
  DIR *dp = opendir(d); if (!dp) { L("ls %s -> fail e%d\n", d, errno); return; }
  char *v[64]; int n = 0; struct dirent *e;
  while ((e = readdir(dp)) && n < 64) if (e->d_name[0] != '.') v[n++] = strdup(e->d_name);
  closedir(dp);
  qsort(v, n, sizeof v[0], cmpstr);
  L("ls %s ->", d); for (int i = 0; i < n; i++) { L(" %s", v[i]); free(v[i]); } L("\n");
}

static int script(void) {
  uint64_t s = cseed;
  int fd[NFD], fdk[NFD];            /* fdk: 0 free, 1 regular, 2 fifo reader, 3 fifo writer */
  for (int i = 0; i < NFD; i++) { fd[i] = -1; fdk[i] = 0; }
  int fifo_readers = 0, fifo_buf = 0;
  int nops = 30 + below(&s, 60);
  for (int k = 0; k < nops; k++) {
    int op = below(&s, 20);
    const char *a = names[below(&s, NNAMES)], *b = names[below(&s, NNAMES)];
    int slot = below(&s, NFD);
    nops_total++;
    switch (op) {
      case 0: case 1: {   /* open regular, various flag sets */
        if (fdk[slot]) break;
        static const int fl[] = { O_WRONLY | O_CREAT | O_EXCL, O_WRONLY | O_NDELAY | O_APPEND | O_CREAT, O_WRONLY | O_CREAT | O_TRUNC, O_RDONLY | O_NDELAY, O_WRONLY | O_NDELAY, O_RDWR | O_CREAT | O_EXCL };
        int w = below(&s, 6);
        int r = open(a, fl[w], 0644);
        L("open%d %s -> %s e%d\n", w, a, r >= 0 ? "ok" : "fail", r >= 0 ? 0 : errno);
        if (r >= 0) { fd[slot] = r; fdk[slot] = 1; }
        break; }
      case 2: case 3: {   /* write */
        if (fdk[slot] != 1) break;
        char buf[64]; int n = 1 + below(&s, 40); for (int i = 0; i < n; i++) buf[i] = 'a' + (k + i) % 26;
        ssize_t r = write(fd[slot], buf, n);
        L("write s%d n=%d -> %zd e%d\n", slot, n, r, r >= 0 ? 0 : errno);
        break; }
      case 4: {           /* read */
        if (fdk[slot] != 1) break;
        char buf[64]; ssize_t r = read(fd[slot], buf, 1 + below(&s, 50));
        L("read s%d -> %zd e%d ", slot, r, r >= 0 ? 0 : errno); for (ssize_t i = 0; i < r; i++) L("%c", buf[i]); L("\n");
        break; }
      case 5: {           /* lseek */
        if (fdk[slot] != 1) break;
        int wh = below(&s, 3); off_t o = below(&s, 30); if (wh == 1) o = 0;
        off_t r = lseek(fd[slot], o, wh == 0 ? SEEK_SET : wh == 1 ? SEEK_CUR : SEEK_END);
        L("lseek s%d %d %ld -> %ld\n", slot, wh, (long)o, (long)r);
        break; }
      case 6: {           /* ftruncate */
        if (fdk[slot] != 1) break;
        off_t o = below(&s, 50); int r = ftruncate(fd[slot], o);
        L("ftruncate s%d %ld -> %d e%d\n", slot, (long)o, r, r ? errno : 0);
        break; }
      case 7: {           /* fsync + fstat */
        if (fdk[slot] != 1) break;
        int r = fsync(fd[slot]); struct stat st; int r2 = fstat(fd[slot], &st);
        L("fsync s%d -> %d; fstat -> %d size=%ld nlink=%ld\n", slot, r, r2, r2 ? -1L : (long)st.st_size, r2 ? -1L : (long)st.st_nlink);
        break; }
      case 8: {           /* close */
        if (!fdk[slot]) break;
        int r = close(fd[slot]);
        L("close s%d kind=%d -> %d\n", slot, fdk[slot], r);
        if (fdk[slot] == 2) { fifo_readers--; }
        { int others = 0; for (int i = 0; i < NFD; i++) if (i != slot && fdk[i] >= 2) others++; if (!others) fifo_buf = 0; }
        fdk[slot] = 0; fd[slot] = -1;
        break; }
      case 9: case 10: {  /* link */
        int r = link(a, b); L("link %s %s -> %d e%d\n", a, b, r, r ? errno : 0); break; }
      case 11: case 12: { /* unlink */
        int r = unlink(a); L("unlink %s -> %d e%d\n", a, r, r ? errno : 0); break; }
      case 13: {          /* rename */
        int r = rename(a, b); L("rename %s %s -> %d e%d\n", a, b, r, r ? errno : 0); break; }
      case 14: case 15: { /* stat, and same-inode relation */
        struct stat sa, sb; int ra = stat(a, &sa), rb = stat(b, &sb);
        L("stat %s -> %d e%d size=%ld nlink=%ld", a, ra, ra ? errno : 0, ra ? -1L : (long)sa.st_size, ra ? -1L : (long)sa.st_nlink);
        if (!ra && !rb) L(" same(%s)=%d", b, sa.st_ino == sb.st_ino);
        L("\n");
        break; }
      case 16: listdir(below(&s, 2) ? "a" : "b"); break;
      case 17: {          /* fifo: open reader */
        if (fdk[slot]) break;
        int r = open("f", O_RDONLY | O_NDELAY);
        L("fifo-open-r -> %s e%d\n", r >= 0 ? "ok" : "fail", r >= 0 ? 0 : errno);
        if (r >= 0) { fd[slot] = r; fdk[slot] = 2; fifo_readers++; }
        break; }
      case 18: {          /* fifo: open writer non-blocking, write one byte, observe, close */
        if (fdk[slot]) break;
        int r = open("f", O_WRONLY | O_NDELAY);
        L("fifo-open-w readers=%d -> %s e%d\n", fifo_readers, r >= 0 ? "ok" : "fail", r >= 0 ? 0 : errno);
        if (r >= 0) {
          ssize_t w = write(r, "", 1);
          L("fifo-write -> %zd e%d\n", w, w >= 0 ? 0 : errno);
          if (w == 1) fifo_buf++;
          /* readability right after the byte was written */
          for (int i = 0; i < NFD; i++) if (fdk[i] == 2) {
            fd_set rf; FD_ZERO(&rf); FD_SET(fd[i], &rf); struct timeval tv = { 0, 0 };
            int sr = select(fd[i] + 1, &rf, 0, 0, &tv);
            L("fifo-select s%d buffered=%d -> %d\n", i, fifo_buf, sr > 0 && FD_ISSET(fd[i], &rf)); break; }
          close(r);
          { int others = 0; for (int i = 0; i < NFD; i++) if (fdk[i] >= 2) others++; if (!others) fifo_buf = 0; }
        }
        break; }
      case 19: {          /* fifo: readability while bytes are known to be buffered (never by hang-up alone) */
        if (fifo_buf <= 0) break;
        for (int i = 0; i < NFD; i++) if (fdk[i] == 2) {
          fd_set rf; FD_ZERO(&rf); FD_SET(fd[i], &rf); struct timeval tv = { 0, 0 };
          int sr = select(fd[i] + 1, &rf, 0, 0, &tv);
          L("fifo-select2 s%d buffered=%d -> %d\n", i, fifo_buf, sr > 0 && FD_ISSET(fd[i], &rf)); break; }
        break; }
    }
  }
  for (int i = 0; i < NFD; i++) if (fdk[i]) close(fd[i]);
  listdir("a"); listdir("b");
  for (int i = 0; i < NNAMES; i++) { struct stat st; int r = stat(names[i], &st); L("final %s -> %d size=%ld nlink=%ld\n", names[i], r, r ? -1L : (long)st.st_size, r ? -1L : (long)st.st_nlink); }
  return 0;
}

/* default select of sim.c looks at FIFO buffers; nothing to hook */
int main(int argc, char **argv) {
  int ncases = h_argi(argc, argv, 1, 300); uint64_t seed = (uint64_t)h_argi(argc, argv, 2, 1);
  signal(SIGPIPE, SIG_IGN);
  char base[] = "/tmp/simcheck-XXXXXX"; if (!mkdtemp(base)) { perror("mkdtemp"); return 2; }
  char start[300]; if (!getcwd(start, sizeof start)) return 2;
  int bad = 0;
  for (int c = 0; c < ncases && !bad; c++) {
    cseed = seed * 1000003ull + c;
    /* (1) simulated */
    sim_reset(); sim_trace_on = 0;
    sim_mkdir_p("/w/a", 0, 0755); sim_mkdir_p("/w/b", 0, 0755); sim_mkfifo_("/w/f", 0, 0622);
    simproc *p = sim_proc(0, "script", 100, 0, "/w");
    lg.n = 0; sim_run(p, script);
    hbuf simlog = { 0 }; hbuf_add(&simlog, lg.p, lg.n); hbuf_add(&simlog, "", 1);
    if (p->exitcode == -99) { hbuf_add(&simlog, "DEADLOCK\n", 10); }
    /* (2) real kernel */
    char dir[400]; snprintf(dir, sizeof dir, "%s/c%d", base, c);
    mkdir(dir, 0755); if (chdir(dir)) return 2;
    mkdir("a", 0755); mkdir("b", 0755); mkfifo("f", 0622);
    lg.n = 0; script(); hbuf_add(&lg, "", 1);
    if (chdir(start)) return 2;
    if (strcmp((char *)simlog.p, (char *)lg.p)) {
      bad = 1;
      printf("SIMCHECK DIFFERENCE case=%d seed=%llu\n", c, (unsigned long long)seed);
      if (getenv("SIMCHECK_DUMP")) printf("--- qsim\n%s--- kernel\n%s", (char *)simlog.p, (char *)lg.p);
      char *x = (char *)simlog.p, *y = (char *)lg.p; int line = 0;
      while (*x && *y) { char *ex = strchr(x, '\n'), *ey = strchr(y, '\n'); if (!ex || !ey) break;
        if (ex - x != ey - y || memcmp(x, y, ex - x)) { printf(" line %d\n  qsim  : %.*s\n  kernel: %.*s\n", line, (int)(ex - x), x, (int)(ey - y), y); break; }
        x = ex + 1; y = ey + 1; line++; }
    }
    free(simlog.p);
    char cmd[500]; snprintf(cmd, sizeof cmd, "rm -rf %s", dir); if (system(cmd)) {}
  }
  rmdir(base);
  if (!bad) printf("SIMCHECK ok cases=%d ops=%d\n", ncases, nops_total / 2);
  return bad;
}
