/* C02 correspondence harness: the real qmail-queue (up to three instances), the real qmail-send with its
 * qmail-clean, and a second qmail-send instance run as threads of one process under qsim.  A schedule
 * decision is taken before every queue-directory system call (open_excl, link, unlink, stat, open_append,
 * open_read, flock, select), so every interleaving at system-call granularity can be produced; on top of
 * that: stalled injectors (the clock runs on for hours while one sits between two calls), killed injectors,
 * malformed / truncated envelopes (cleanup paths), single failing calls, leftovers of every kind and age
 * already in the queue, clock jumps, world crashes followed by a restart.
 *
 * usage: c02_queuesys <nrandom> <seed> <shard> <nshards>   |   c02_queuesys -   (scenario lines on stdin)
 *
 * scenario (space separated key=value):
 *   inj=<k><k>..      one digit per injector: 0 good/local 1 good/remote 2 envelope ends inside an address (die_read,
 *                     cleanup of intd+mess) 3 wrong record letter (exit 91, leaves S3) 4 message read error (cleanup of mess)
 *                     5 good, two recipients (local+remote) 6 good, sender #@[] (a double bounce: its own bounce is discarded)
 *                     7 good, empty sender (a bounce: its own bounce goes to the postmaster)
 *   pre=<k>:<hours>,..  leftovers present at start: k = 2 (mess) 3 (mess+intd) 4 (queued: mess+intd+todo)
 *                     5 (preprocessed: mess+info+local) p (pid file) q (pid file still linked to mess); age in hours
 *   out=<letters>     delivery outcomes K Z D, cyclic
 *   bf=<digits>       per bounce injection, cyclic: 0 succeeds, 1 fails (the bounce record stays and is retried)
 *   stall=<proc>:<call>:<hours>   injector <proc> (2..4) waits before its <call>-th system call until <hours> have passed
 *   kill=<proc>:<call>            injector killed before its <call>-th call
 *   fault=<proc>:<call>:<errno>   single failing call (any process)
 *   d2=<n>            a second qmail-send is started once the first has made <n> system calls (0 = never)
 *   crash=<k>:<mode>  world crash before global call k (mode 0..4 as in sim.h), then a restart with one fresh injector
 *   skip=<k>          k inode numbers are used up before anything is created (varies the split directories and scan orders)
 *   sched=<seed>      seed of the schedule
 *   hor=<n>           horizon in selects per incarnation
 *   dfs=<c0,c1,..|->  systematic mode: decisions only at calls on queue files, an idle daemon waits for the trigger; the listed
 *                     choices are forced, after them the first candidate is taken (the harness prints the choices made)
 */
#define _GNU_SOURCE
#include "sim.h"
#include "auto_split.h"
#include <signal.h>
#include <stdarg.h>
#include "qmail.h"
SIM_INSTANCE(qs)
SIM_INSTANCE(qc)
SIM_INSTANCE(qa)
SIM_INSTANCE(qb)
SIM_INSTANCE(qd)
SIM_INSTANCE(qt)

#define QROOT "/var/qmail/queue"
#define T0 1000000L

typedef struct {
  char inj[8]; int ninj;
  int npre; struct { char kind; int hours; } pre[8];
  char out[32]; char bf[16];
  int sproc, scall; long ssecs;
  int kproc, kcall;
  int fproc, fcall, ferr;
  int d2; int skip; unsigned long long inooff;
  unsigned long crashk; int crashmode;
  unsigned long long sched;
  int hor;
  char text[600];
} scen;
static scen S;

static uint64_t rng;
static int nselect, incarnation, term_sent, nattempt;
static int dfs_mode, dsched[512], ndsched, dmade[512], dbranch[512], ndmade;   /* systematic mode: forced prefix, then first choice */
static int dfs_idle_after;
static int nselect5_reset;
static unsigned long pick_budget;
static long stall_release;      /* clock at which the stalled injector may go on (0 = not yet stalled) */
static size_t cmdpos[2]; static int sinkid[2], srcid[2];

static void xlog(const char *fmt, ...) { char b[800]; va_list ap; va_start(ap, fmt); int n = vsnprintf(b, sizeof b, fmt, ap); va_end(ap); if (n > (int)sizeof b - 1) n = sizeof b - 1; hbuf_add(&sim_trace, b, n); }

static int interesting(const char *w) {
  return !strcmp(w, "open_excl") || !strcmp(w, "link") || !strcmp(w, "link_todo") || !strcmp(w, "unlink") || !strcmp(w, "stat") ||
         !strcmp(w, "open_append") || !strcmp(w, "open_read") || !strcmp(w, "flock") || !strcmp(w, "select") || !strcmp(w, "start");
}
static int stalled(int pi) {
  if (pi != S.sproc || !S.scall) return 0;
  if (P[pi].ncalls + 1 != S.scall) return 0;
  if (P[pi].alarm_at && W.clock >= P[pi].alarm_at) return 0;   /* a blocked process still gets its SIGALRM: let it run into the gate that delivers it */
  if (!stall_release) { stall_release = W.clock + S.ssecs; xlog("X stall-fired proc=%d call=%d secs=%ld\n", pi, S.scall, S.ssecs); }
  return W.clock < stall_release;
}
static int interesting_dfs(int pi, const char *w) {     /* systematic mode: decisions only at calls on queue files */
  const char *a = sim_pending_arg[pi];
  if (!a || !strstr(a, "/queue/") || strstr(a, "/queue/lock/")) return 0;
  return !strcmp(w, "open_excl") || !strcmp(w, "link") || !strcmp(w, "link_todo") || !strcmp(w, "unlink") || !strcmp(w, "stat") ||
         !strcmp(w, "open_read") || !strcmp(w, "open_append");
}
static int pick(int n, int *idx, const char **what) {
  int cand[SIM_MAXPROC], nc = 0;
  if (++pick_budget == 400000) { xlog("X budget-abort\n"); sim_crash_before = W.ncalls_total + 1; }   /* no scenario needs this many steps */
  if (dfs_mode) {
    for (int i = 0; i < n; i++) if (!interesting_dfs(idx[i], what[i])) return i;
    if (n == 1) return 0;
    int k = ndmade < ndsched ? dsched[ndmade] % n : 0;
    if (ndmade < 512) { dmade[ndmade] = k; dbranch[ndmade] = n; ndmade++; }
    return k;
  }
  for (int i = 0; i < n; i++) if (!stalled(idx[i])) cand[nc++] = i;
  if (nc == 0) return 0;                                 /* only the stalled one is left: let it go on */
  for (int i = 0; i < nc; i++) if (!interesting(what[cand[i]])) return cand[i];
  if (nc == 1) return cand[0];
  rng = rng * 6364136223846793005ull + 1442695040888963407ull;
  return cand[(int)((rng >> 33) % nc)];
}

/* stand-in for qmail.c: bounce injection is one atomic event that succeeds (its atomicity is C01) */
int qmail_open(struct qmail *qq) { qq->flagerr = 0; qq->pid = 9000; return 0; }
unsigned long qmail_qp(struct qmail *qq) { return qq->pid; }
void qmail_fail(struct qmail *qq) { qq->flagerr = 1; }
void qmail_put(struct qmail *qq, char *s, size_t len) {}
void qmail_from(struct qmail *qq, char *s) {}
void qmail_to(struct qmail *qq, char *s) {}
static int nbounce;
char *qmail_close(struct qmail *qq) { int f = S.bf[0] ? S.bf[nbounce % strlen(S.bf)] == '1' : 0; nbounce++; return (qq->flagerr || f) ? "Zfailed" : ""; }

/* scripted spawners: every delivery command is answered at the next select */
static void answer_commands(void) {
  for (int c = 0; c < 2; c++) { hbuf *b = &W.sink[sinkid[c]];
    for (;;) { size_t p = cmdpos[c]; if (p >= b->n) break; size_t q = p + 1; int nul = 0; while (q < b->n && nul < 3) { if (!b->p[q]) nul++; q++; }
      if (nul < 3) break;
      char o = S.out[0] ? S.out[nattempt % strlen(S.out)] : 'K'; nattempt++;
      unsigned char r[16] = { b->p[p], (unsigned char)o, 'x', '\n', 0 }; hbuf_add(&W.src[srcid[c]].data, r, 5); cmdpos[c] = q; } }
}
static int injectors_active(void) { for (int i = 2; i < 5; i++) if (P[i].used && P[i].mainfn && !P[i].finished) return 1; return 0; }
static int todo_entries(void) { int n = 0; for (int i = 0; i < W.ndent; i++) if (W.dent[i].ino >= 0 && strstr(W.dent[i].path, "/queue/todo/")) n++; return n; }
static int fifo_ready(simproc *p) { for (int fd = 0; fd < SIM_MAXFD; fd++) if (p->fd[fd].kind == SFD_FIFO_R && W.ino[p->fd[fd].ino].buffered > 0) return 1; return 0; }
static int dfs_idle(simproc *p) { return !fifo_ready(p) && injectors_active(); }
static int daemon_select(simproc *p, int nfds, fd_set *r, fd_set *w, struct timeval *tv) {
  if (p->idx != 0) {                                     /* the second instance, should it get this far: stop it after a while */
    static int n5; if (nselect5_reset) { n5 = 0; nselect5_reset = 0; }
    if (r) FD_ZERO(r); if (w) FD_ZERO(w);
    if (++n5 == 40) sim_deliver_signal(p, SIGTERM);
    if (n5 > 60) { xlog("X second-instance-abort\n"); sim_crash_before = W.ncalls_total + 1; }
    return 0;
  }
  nselect++;
  answer_commands();
  int n = 0; fd_set ro, wo; FD_ZERO(&ro); FD_ZERO(&wo);
  for (int fd = 0; fd < nfds && fd < SIM_MAXFD; fd++) {
    simfd *f = &p->fd[fd];
    if (r && FD_ISSET(fd, r)) { int ok = 0;
      if (f->kind == SFD_FIFO_R) ok = W.ino[f->ino].buffered > 0;
      else if (f->kind == SFD_SOURCE) ok = W.src[f->aux].pos < W.src[f->aux].data.n;
      else if (f->kind == SFD_PIPE_R) ok = W.pipe[f->aux].data.n > 0 || W.pipe[f->aux].wclosed;
      if (ok) { FD_SET(fd, &ro); n++; } }
    if (w && FD_ISSET(fd, w) && f->kind != SFD_FREE) { FD_SET(fd, &wo); n++; }
  }
  if (dfs_mode && n == 0 && tv && tv->tv_sec > 0 && injectors_active()) {
    /* systematic mode: an idle daemon waits for the trigger (time stands still while injectors are at work) */
    sim_wait(dfs_idle, "select_wait");
    n = 0; FD_ZERO(&ro);
    for (int fd = 0; fd < nfds && fd < SIM_MAXFD; fd++) { simfd *f = &p->fd[fd];
      if (r && FD_ISSET(fd, r) && f->kind == SFD_FIFO_R && W.ino[f->ino].buffered > 0) { FD_SET(fd, &ro); n++; } }
  }
  if (n == 0 && tv && tv->tv_sec > 0) W.clock += tv->tv_sec;          /* nothing to do: time passes */
  if (!term_sent && (nselect >= S.hor || (nselect > 40 && !injectors_active() && !todo_entries() && W.clock > T0 + 60 * 3600L) ||
                     (dfs_mode && n == 0 && tv && tv->tv_sec > 0 && !injectors_active() && !todo_entries() && ++dfs_idle_after > 3))) {   /* systematic mode: stop once everything has settled */
    term_sent = 1; xlog("X term clock=%ld\n", W.clock); sim_deliver_signal(p, SIGTERM);
  }
  if (nselect > S.hor + 80) { xlog("X horizon-abort\n"); sim_crash_before = W.ncalls_total + 1; }
  if (r) *r = ro; if (w) *w = wo;
  return n;
}

static int d2_wait(simproc *p) { return P[0].used && !P[0].finished && P[0].ncalls < S.d2; }

/* ---- world ---- */
static void ctl(const char *name, const char *val) { char p[120]; snprintf(p, sizeof p, "/var/qmail/control/%s", name); sim_mkfile(p, val, strlen(val), 0, 0644); }
static const unsigned char ENV_DBL[] = "F#@[]\0Tu1@h.example\0Tr1@far.example\0", ENV_EMPTY[] = "F\0Tu1@h.example\0";
static const unsigned char ENV_LOCAL[] = "Fs@src.example\0Tu1@h.example\0", ENV_REMOTE[] = "Fs@src.example\0Tr1@far.example\0",
  ENV_TWO[] = "Fs@src.example\0Tu1@h.example\0Tr1@far.example\0", ENV_TRUNC[] = "Fs@src.example\0Tu1@h.exa", ENV_BADLETTER[] = "Fs@src.example\0Xu1@h.example\0";
static void pre_populate(void) {
  for (int i = 0; i < S.skip; i++) { char p[80]; snprintf(p, sizeof p, "/var/qmail/control/.pad%d", i); sim_mkfile(p, "", 0, 0, 0644); }
  for (int i = 0; i < S.npre; i++) {
    char k = S.pre[i].kind; long at = T0 - 3600L * S.pre[i].hours; char p1[120], p2[120];
    if (k == 'p' || k == 'q') {
      snprintf(p1, sizeof p1, QROOT "/pid/%d.%ld.%d", 4000 + i, at, i);
      int ino = sim_mkfile(p1, "old\n", 4, 7794, 0644); W.ino[ino].atime = W.ino[ino].mtime = at;
      xlog("X pre pid ino=%llu atime=%ld path=pid/%d.%ld.%d\n", SIM_RINO(ino), at, 4000 + i, at, i);
      if (k == 'q') { snprintf(p2, sizeof p2, QROOT "/mess/%llu/%llu", SIM_RINO(ino) % auto_split, SIM_RINO(ino)); sim_link_(p1, p2); xlog("X pre file=mess n=%llu ino=%llu atime=%ld\n", SIM_RINO(ino), SIM_RINO(ino), at); }
      continue;
    }
    int ino = sim_mkfile_ino(QROOT "/mess/%d/%d", auto_split, "Subject: old\n\nold\n", 19, 7794, 0644);
    W.ino[ino].atime = W.ino[ino].mtime = at;
    xlog("X pre file=mess n=%llu ino=%llu atime=%ld\n", SIM_RINO(ino), SIM_RINO(ino), at);
    if (k == '3' || k == '4') {
      unsigned char env[200]; size_t n = 0;
      n += sprintf((char *)env + n, "u1000") + 1; n += sprintf((char *)env + n, "p4242") + 1;
      memcpy(env + n, ENV_LOCAL, sizeof ENV_LOCAL - 1); n += sizeof ENV_LOCAL - 1;    /* F..\0T..\0 (sizeof counts the literal's final NUL = T record terminator) */
      snprintf(p1, sizeof p1, QROOT "/intd/%llu", SIM_RINO(ino)); int e = sim_mkfile(p1, env, n, 7794, 0644); W.ino[e].atime = W.ino[e].mtime = at;
      xlog("X pre file=intd n=%llu ino=%llu atime=%ld\n", SIM_RINO(ino), SIM_RINO(e), at);
      if (k == '4') { snprintf(p2, sizeof p2, QROOT "/todo/%llu", SIM_RINO(ino)); sim_link_(p1, p2); xlog("X pre file=todo n=%llu ino=%llu atime=%ld\n", SIM_RINO(ino), SIM_RINO(e), at); }
    }
    if (k == '5') {
      snprintf(p1, sizeof p1, QROOT "/info/%llu/%llu", SIM_RINO(ino) % auto_split, SIM_RINO(ino)); int e = sim_mkfile(p1, "Fs@src.example\0", 15, 7796, 0600); W.ino[e].atime = W.ino[e].mtime = at;
      xlog("X pre file=info n=%llu ino=%llu atime=%ld\n", SIM_RINO(ino), SIM_RINO(e), at);
      snprintf(p1, sizeof p1, QROOT "/local/%llu/%llu", SIM_RINO(ino) % auto_split, SIM_RINO(ino)); e = sim_mkfile(p1, "Tu1@h.example\0", 14, 7796, 0600); W.ino[e].atime = W.ino[e].mtime = at;
      xlog("X pre file=local n=%llu ino=%llu atime=%ld\n", SIM_RINO(ino), SIM_RINO(e), at);
    }
  }
}
static void world_init(void) {
  char b[100];
  sim_reset();
  W.ino_off = S.inooff;
  W.clock = T0;
  sim_user("alias", 7790, 2108); sim_user("qmaild", 7791, 2108); sim_user("qmails", 7796, 2107); sim_user("qmailq", 7794, 2107);
  sim_user("qmailr", 7795, 2107); sim_user("qmaill", 7792, 2108); sim_user("qmailp", 7793, 2108);
  static const char *dirs[] = { "pid", "intd", "todo", "bounce", "lock", 0 };
  for (int i = 0; dirs[i]; i++) { snprintf(b, sizeof b, QROOT "/%s", dirs[i]); sim_mkdir_p(b, 7794, 0700); }
  static const char *sdirs[] = { "mess", "info", "local", "remote", 0 };
  for (int j = 0; sdirs[j]; j++) for (int i = 0; i < auto_split; i++) { snprintf(b, sizeof b, QROOT "/%s/%d", sdirs[j], i); sim_mkdir_p(b, 7794, 0700); }
  sim_mkdir_p("/var/qmail/control", 0, 0755);
  sim_mkfifo_(QROOT "/lock/trigger", 7796, 0622);
  sim_mkfile(QROOT "/lock/sendmutex", "", 0, 7796, 0600);
  ctl("me", "h.example\n"); ctl("locals", "h.example\n"); ctl("concurrencylocal", "3\n"); ctl("concurrencyremote", "3\n");
  pre_populate();
}

static void dump(const char *tag) {
  hbuf d = { 0 }; sim_dump(&d, QROOT "/", 0);
  char *s = (char *)d.p; size_t n = d.n, i = 0;
  while (i < n) { size_t j = i; while (j < n && s[j] != '\n') j++; if (strncmp(s + i, "lock/", 5)) fprintf(h_out, "D %s %.*s\n", tag, (int)(j - i), s + i); i = j + 1; }
  free(d.p);
}
static void flush_trace(void) {
  char *s = (char *)sim_trace.p; size_t n = sim_trace.n, i = 0;
  while (i < n) { size_t j = i; while (j < n && s[j] != '\n') j++;
    char *l = s + i; size_t ll = j - i;
    if (l[0] == 'X') fprintf(h_out, "%.*s\n", (int)ll, l);
    else if (memmem(l, ll, " alarm ", 7) || memmem(l, ll, " exit ", 6) || memmem(l, ll, "CRASH", 5) || memmem(l, ll, "KILLED", 6) || memmem(l, ll, " signal ", 8) ||
             memmem(l, ll, " select ", 8) || memmem(l, ll, " sleep ", 7) || memmem(l, ll, "flock", 5) || memmem(l, ll, "write_pipe", 10) ||
             (memmem(l, ll, " read 6 ", 8) && !memcmp(l, "P0", 2)) || memmem(l, ll, "DEADLOCK", 8) ||
             ((memmem(l, ll, "mess/", 5) || memmem(l, ll, "intd/", 5) || memmem(l, ll, "todo/", 5) || memmem(l, ll, "info/", 5) || memmem(l, ll, "local/", 6) ||
               memmem(l, ll, "remote/", 7) || memmem(l, ll, "bounce/", 7) || memmem(l, ll, "pid/", 4)) &&
              (memmem(l, ll, " open_excl ", 11) || memmem(l, ll, " link ", 6) || memmem(l, ll, " unlink ", 8) || memmem(l, ll, " stat ", 6) ||
               memmem(l, ll, " open_append ", 13) || memmem(l, ll, " open_read ", 11) || memmem(l, ll, " rename ", 8) || memmem(l, ll, " open_trunc ", 12) || memmem(l, ll, " open_write ", 12))))
      fprintf(h_out, "T %.*s\n", (int)ll, l);
    i = j + 1; }
  sim_trace.n = 0;
}

static int (*inj_main[3])(void) = { qa_main, qb_main, qd_main };
static void add_injector(int slot, char kind) {
  simproc *q = sim_proc(2 + slot, slot == 0 ? "qmail-queue-a" : slot == 1 ? "qmail-queue-b" : "qmail-queue-c", 700 + 10 * incarnation + slot, 1000, "/");
  int m = sim_fd_source(q, 0, "hi\n", 3, 0);
  if (kind == '4') { W.src[m].eof_is_error = 1; }
  const unsigned char *e = ENV_LOCAL; size_t el = sizeof ENV_LOCAL;
  if (kind == '1') { e = ENV_REMOTE; el = sizeof ENV_REMOTE; } else if (kind == '5') { e = ENV_TWO; el = sizeof ENV_TWO; }
  else if (kind == '2') { e = ENV_TRUNC; el = sizeof ENV_TRUNC - 1; } else if (kind == '3') { e = ENV_BADLETTER; el = sizeof ENV_BADLETTER; }
  else if (kind == '6') { e = ENV_DBL; el = sizeof ENV_DBL; } else if (kind == '7') { e = ENV_EMPTY; el = sizeof ENV_EMPTY; }
  sim_fd_source(q, 1, e, el, 0);
  sim_fd_sink(q, 2);
  xlog("X injector proc=%d kind=%c\n", 2 + slot, kind);
}

static void run_incarnation(void) {
  incarnation++;
  sim_globals_restore();
  nselect = 0; term_sent = 0; cmdpos[0] = cmdpos[1] = 0; stall_release = 0; nselect5_reset = 1; pick_budget = 0; dfs_idle_after = 0;
  W.nsrc = 0; W.nsink = 0; W.npipe = 0;
  simproc *p0 = sim_proc(0, "qmail-send", 500 + incarnation, 7796, "/");
  simproc *p1 = sim_proc(1, "qmail-clean", 600 + incarnation, 7794, "/");
  sim_fd_sink(p0, 0); sinkid[0] = sim_fd_sink(p0, 1); sinkid[1] = sim_fd_sink(p0, 3);
  unsigned char sb = 5; srcid[0] = sim_fd_source(p0, 2, &sb, 1, 0); srcid[1] = sim_fd_source(p0, 4, &sb, 1, 0);
  int a = sim_pipe_new(), b = sim_pipe_new();
  sim_fd_pipe(p0, 5, a, 1); sim_fd_pipe(p1, 0, a, 0); sim_fd_pipe(p1, 1, b, 1); sim_fd_pipe(p0, 6, b, 0); sim_fd_sink(p1, 2);
  xlog("X start incarnation=%d clock=%ld\n", incarnation, W.clock);
  if (incarnation == 1) for (int i = 0; i < S.ninj; i++) add_injector(i, S.inj[i]);
  else add_injector(0, '5');
  simproc *p5 = 0;
  if (S.d2 > 0 && incarnation == 1) {
    p5 = sim_proc(5, "qmail-send-2", 555, 7796, "/");
    sim_fd_sink(p5, 0); sim_fd_sink(p5, 1); sim_fd_sink(p5, 3);
    sim_fd_source(p5, 2, &sb, 1, 0); sim_fd_source(p5, 4, &sb, 1, 0);
    sim_fd_sink(p5, 5);
    static unsigned char plus[4096]; memset(plus, '+', sizeof plus); sim_fd_source(p5, 6, plus, sizeof plus, 0);
    p5->start_pred = d2_wait;
  }
  sim_nfaults = 0;
  if (incarnation == 1) {
    if (S.kcall > 0) { sim_faults[sim_nfaults].proc = S.kproc; sim_faults[sim_nfaults].callno = S.kcall; sim_faults[sim_nfaults].err = -4; sim_nfaults++; }
    if (S.fcall > 0) { sim_faults[sim_nfaults].proc = S.fproc; sim_faults[sim_nfaults].callno = S.fcall; sim_faults[sim_nfaults].err = S.ferr; sim_nfaults++; }
    if (S.crashk) sim_crash_before = W.ncalls_total + S.crashk;
  }
  sim_threads = 1; sim_select_hook = daemon_select; sim_pick = pick; sim_sink_hook = 0;
  sim_spawn(p0, qs_main); sim_spawn(p1, qc_main);
  for (int i = 0; i < 3; i++) if (P[2 + i].used) sim_spawn(&P[2 + i], inj_main[i]);
  if (p5) sim_spawn(p5, qt_main);
  sim_run_all();
  sim_threads = 0;
  xlog("X end incarnation=%d crashed=%d clock=%ld\n", incarnation, P[0].crashed, W.clock);
}

static void run_scenario(void) {
  fprintf(h_out, "CASE %s\n", S.text);
  if (getenv("C02DBG")) fprintf(stderr, "CASE %s\n", S.text);
  ndmade = 0;
  incarnation = 0; nattempt = 0; nbounce = 0; rng = S.sched * 2654435761ull + 88172645463325252ull;
  world_init();
  flush_trace();
  dump("init");
  for (int inc = 0; inc < 2; inc++) {
    run_incarnation();
    flush_trace();
    int crashed = P[0].crashed && S.crashk && inc == 0;
    if (crashed) { sim_apply_crash(S.crashmode); fprintf(h_out, "X crash-applied mode=%d\n", S.crashmode); }
    char tag[24]; snprintf(tag, sizeof tag, "after%d", inc + 1); dump(tag);
    if (!crashed) break;
  }
  if (dfs_mode) { fprintf(h_out, "X choices"); for (int i = 0; i < ndmade; i++) fprintf(h_out, "%s%d", i ? "," : " ", dmade[i]); fprintf(h_out, "\n"); }
  fprintf(h_out, "END\n");
}

static int next_schedule(void) {     /* depth-first successor of the choices just made; 0 when exhausted */
  int i = ndmade - 1;
  while (i >= 0 && dmade[i] + 1 >= dbranch[i]) i--;
  if (i < 0) return 0;
  for (int k = 0; k < i; k++) dsched[k] = dmade[k];
  dsched[i] = dmade[i] + 1; ndsched = i + 1;
  return 1;
}

static void parse_scenario(const char *line) {
  memset(&S, 0, sizeof S); S.hor = 260; S.sched = 1; dfs_mode = 0;
  snprintf(S.text, sizeof S.text, "%s", line); { char *nl = strchr(S.text, '\n'); if (nl) *nl = 0; }
  char tmp[600]; snprintf(tmp, sizeof tmp, "%s", S.text); char *save = 0;
  for (char *t = strtok_r(tmp, " ", &save); t; t = strtok_r(0, " ", &save)) {
    char *v = strchr(t, '='); if (!v) continue; *v++ = 0;
    if (!strcmp(t, "inj")) { snprintf(S.inj, sizeof S.inj, "%s", !strcmp(v, "-") ? "" : v); S.ninj = strlen(S.inj); if (S.ninj > 3) S.ninj = 3; }
    else if (!strcmp(t, "out")) snprintf(S.out, sizeof S.out, "%s", v);
    else if (!strcmp(t, "bf")) snprintf(S.bf, sizeof S.bf, "%s", v);
    else if (!strcmp(t, "stall")) { int h = 0; sscanf(v, "%d:%d:%d", &S.sproc, &S.scall, &h); S.ssecs = 3600L * h; }
    else if (!strcmp(t, "kill")) sscanf(v, "%d:%d", &S.kproc, &S.kcall);
    else if (!strcmp(t, "fault")) sscanf(v, "%d:%d:%d", &S.fproc, &S.fcall, &S.ferr);
    else if (!strcmp(t, "d2")) S.d2 = atoi(v);
    else if (!strcmp(t, "skip")) S.skip = atoi(v) % 64;
    else if (!strcmp(t, "inooff")) S.inooff = strtoull(v, 0, 10);   /* the file system reports inode numbers starting at this value (>= 2^32: beyond unsigned int) */
    else if (!strcmp(t, "dfs")) { dfs_mode = 1; ndsched = 0; if (strcmp(v, "-")) { char *s3 = 0; for (char *u = strtok_r(v, ",", &s3); u && ndsched < 512; u = strtok_r(0, ",", &s3)) dsched[ndsched++] = atoi(u); } }
    else if (!strcmp(t, "crash")) sscanf(v, "%lu:%d", &S.crashk, &S.crashmode);
    else if (!strcmp(t, "sched")) S.sched = strtoull(v, 0, 10);
    else if (!strcmp(t, "hor")) S.hor = atoi(v);
    else if (!strcmp(t, "pre")) { char *s2 = 0; for (char *u = strtok_r(v, ",", &s2); u && S.npre < 8; u = strtok_r(0, ",", &s2)) { char k; int h; if (sscanf(u, "%c:%d", &k, &h) == 2) { S.pre[S.npre].kind = k; S.pre[S.npre].hours = h; S.npre++; } } }
  }
}

static void gen_scenario(char *o, size_t osz, int r) {
  size_t n = 0;
  static const unsigned long long offs[] = { 4294967296ULL, 12884901895ULL, 1099511627776ULL, 4294967196ULL /* crosses 2^32 during the run */ };
  if (r % 7 == 5) n += snprintf(o + n, osz - n, "inooff=%llu ", offs[(r / 7) % 4]);
  int ninj = 1 + h_below(3);
  n += snprintf(o + n, osz - n, "inj=");
  for (int i = 0; i < ninj; i++) n += snprintf(o + n, osz - n, "%c", "001122345567"[h_below(12)]);
  if (r % 12 == 11) {       /* the daemon was down for days: a backlog of old queued and preprocessed messages, some leftovers among them */
    n += snprintf(o + n, osz - n, " pre=");
    int np = 3 + h_below(4);
    for (int i = 0; i < np; i++) n += snprintf(o + n, osz - n, "%s%c:%d", i ? "," : "", "44445523"[h_below(8)], 37 + (int)h_below(80));
  } else if (h_below(3)) {
    n += snprintf(o + n, osz - n, " pre=");
    int np = 1 + h_below(4);
    static const int ages[] = { 1, 20, 30, 35, 37, 40, 50, 100 };
    for (int i = 0; i < np; i++) n += snprintf(o + n, osz - n, "%s%c:%d", i ? "," : "", "2334455pq"[h_below(9)], ages[h_below(8)]);
  }
  if (h_below(2)) n += snprintf(o + n, osz - n, " skip=%d", (int)h_below(23));
  static const char *outs[] = { "K", "KZ", "D", "KD", "ZZK", "DK", "Z" };
  n += snprintf(o + n, osz - n, " out=%s", outs[h_below(7)]);
  if (h_below(4) == 0) n += snprintf(o + n, osz - n, " bf=%s", (const char *[]){ "1", "10", "110", "01" }[h_below(4)]);
  int stall_h = 0;
  switch (r % 6) {
    case 1: { int sp = 2 + (int)h_below(ninj), sc = 1 + (int)h_below(16); stall_h = (int[]){ 1, 20, 30, 37, 40, 60 }[h_below(6)]; n += snprintf(o + n, osz - n, " stall=%d:%d:%d", sp, sc, stall_h); break; }   /* an injection is 8-15 calls long (was 20..64: never reached; found with round-3 seed m2) */
    case 2: n += snprintf(o + n, osz - n, " kill=%d:%d", 2 + (int)h_below(ninj), 1 + (int)h_below(16)); break;
    case 3: { int fp = (int)h_below(2 + ninj); n += snprintf(o + n, osz - n, " fault=%d:%d:%d", fp, fp >= 2 ? 1 + (int)h_below(16) : fp == 1 ? 1 + (int)h_below(30) /* qmail-clean: a handful of calls per request */ : 15 + (int)h_below(200), (int[]){ EIO, ENOSPC, EIO, ENOMEM }[h_below(4)]); break; }
    case 4: n += snprintf(o + n, osz - n, " crash=%d:%d", 150 + (int)h_below(900), (int)h_below(5)); break;
    default: break;
  }
  if (h_below(4) == 0) n += snprintf(o + n, osz - n, " d2=%d", 25 + (int)h_below(300));   /* after the first instance has the lock (its 19th call) */
  /* a long stall only matters if the daemon lives through it: 36 h of virtual time need about 550 selects (found with round-3 seed m2) */
  n += snprintf(o + n, osz - n, " sched=%u hor=%d", (unsigned)h_below(1000000), stall_h >= 37 ? 650 + (int)h_below(200) : 150 + (int)h_below(150));
}

int main(int argc, char **argv) {
  h_init_out();
  SIM_REGISTER(qs); SIM_REGISTER(qc); SIM_REGISTER(qa); SIM_REGISTER(qb); SIM_REGISTER(qd); SIM_REGISTER(qt); sim_globals_snapshot();
  char *line = malloc(2000);
  if (argc > 1 && !strcmp(argv[1], "-")) {
    while (fgets(line, 2000, stdin)) { if (strlen(line) < 3) continue; parse_scenario(line); run_scenario(); }
    fflush(h_out); return 0;
  }
  if (argc > 1 && !strcmp(argv[1], "D")) {
    /* depth-first enumeration of every interleaving of the queue-file calls for small configurations:
     * c02_queuesys D <config> <limit> <shard> <nshards>; shard k owns the subtree of first choices (k%3, (k/3)%3) */
    static const char *cfgs[] = { "inj=0 pre=3:40 out=K hor=400", "inj=2 pre=4:1 out=K hor=400", "inj=01 out=K hor=400", "inj=6 pre=5:1 out=D hor=400", "inj=0 pre=q:40,2:40 out=Z hor=400" };
    int cfg = h_argi(argc, argv, 2, 0) % 5, limit = h_argi(argc, argv, 3, 100), shard = h_argi(argc, argv, 4, 0);
    if (shard >= 9) return 0;
    int f0 = shard % 3, f1 = (shard / 3) % 3, complete = 0, runs = 0;
    dsched[0] = f0; dsched[1] = f1; ndsched = 2;
    for (; runs < limit; runs++) {
      char txt[300]; size_t n = snprintf(txt, sizeof txt, "%s dfs=", cfgs[cfg]);
      for (int i = 0; i < ndsched; i++) n += snprintf(txt + n, sizeof txt - n, "%s%d", i ? "," : "", dsched[i]);
      int keep[512], nkeep = ndsched; memcpy(keep, dsched, sizeof(int) * ndsched);
      parse_scenario(txt); memcpy(dsched, keep, sizeof(int) * nkeep); ndsched = nkeep; dfs_mode = 1;
      run_scenario();
      if (ndmade >= 1 && dmade[0] != f0) { complete = 1; break; }       /* the forced first choice did not exist: nothing in this shard */
      if (ndmade >= 2 && dmade[1] != f1) { complete = 1; break; }
      if (!next_schedule() || ndsched <= 2) { complete = 1; runs++; break; }
    }
    fprintf(h_out, "X dfs-summary cfg=%d shard=%d schedules=%d complete=%d\n", cfg, shard, runs, complete);
    fflush(h_out); return 0;
  }
  int nrandom = h_argi(argc, argv, 1, 100);
  uint64_t seed = (uint64_t)h_argi(argc, argv, 2, 1);
  int shard = h_argi(argc, argv, 3, 0), nshards = h_argi(argc, argv, 4, 1);
  for (int r = 0; r < nrandom; r++) {
    if (r % nshards != shard) continue;
    h_seed(seed * 1000003ull + r);
    gen_scenario(line, 2000, r);
    parse_scenario(line); run_scenario();
  }
  fflush(h_out);
  return 0;
}
