/* qsim — a deterministic in-memory POSIX subset ("simlibc") under the unmodified notqmail
 * programs.  The program objects are linked into the harness; the libc entry points they call
 * (open, read, write, fsync, link, unlink, stat, select, flock, time, …) are defined in sim.c and
 * therefore win over libc at link time.  While `sim_on` is 0 every entry point passes through to
 * the real libc (dlsym RTLD_NEXT), so the harness itself can do ordinary I/O.
 *
 * Semantics (DESIGN.md §1.4): directory operations are atomic and synchronous; each regular file
 * has `cur` (what read() sees) and `dur` (what survives a machine crash) contents; fsync makes
 * dur := cur; a file whose only changes since its last fsync are in-place single-byte overwrites
 * is `dirty==1`, anything else (append, truncate) is `dirty==2`.
 */
#ifndef SIM_H
#define SIM_H
#include "hcommon.h"
#include <sys/stat.h>
#include <sys/time.h>
#include <sys/select.h>
#include <fcntl.h>
#include <errno.h>
#include <dirent.h>
#include <pthread.h>

#define SIM_MAXFD 24
#define SIM_MAXPROC 8
#define SIM_MAXINO 512
#define SIM_MAXDENT 1024

enum { SFD_FREE = 0, SFD_FILE, SFD_FIFO_R, SFD_FIFO_W, SFD_PIPE_R, SFD_PIPE_W, SFD_SINK, SFD_SOURCE, SFD_NULL };
enum { SI_FREE = 0, SI_FILE, SI_DIR, SI_FIFO };

typedef struct {
  int kind, ino, flags, aux;
  long off;
} simfd;

typedef struct {
  int type, nlink, nopen;
  int mode; uid_t uid; gid_t gid;
  long atime, mtime;
  hbuf cur, dur;
  int dirty;            /* 0 synced, 1 only in-place overwrites since last fsync, 2 appended/truncated */
  int readers, writers, buffered;   /* FIFO */
  int lockproc;         /* flock holder (proc index) or -1 */
} siminode;

typedef struct { char path[200]; int ino; } simdent;

typedef struct { hbuf data; size_t pos; int chunk; int eof_is_error; int closed; } simsource;
typedef struct { hbuf data; int wclosed, rclosed, readers, writers; } simpipe;

typedef struct simproc {
  int used, alive, idx;
  char name[24];
  char cwd[200];
  uid_t uid, euid; gid_t gid;
  long pid;
  simfd fd[SIM_MAXFD];
  long alarm_at;        /* virtual time at which SIGALRM fires, 0 = none */
  int ncalls;           /* interposed calls made so far (fault plan index) */
  int exitcode;         /* valid once !alive */
  int crashed;
  jmp_buf exitjb;       /* _exit / crash unwinding (single-thread mode) */
  /* thread mode */
  pthread_t th; int blocked; int finished;
  int (*mainfn)(void);
  int wait_obj;                          /* pipe / inode the process is blocked on */
  int (*start_pred)(struct simproc *);   /* thread mode: the program starts only once this is false */
} simproc;

typedef struct {
  siminode ino[SIM_MAXINO];
  simdent dent[SIM_MAXDENT]; int ndent;
  simsource src[16]; int nsrc;
  simpipe pipe[8]; int npipe;
  hbuf sink[16]; int nsink;
  long clock;
  int next_ino;         /* inode allocator: lowest free number >= ino_base is reused */
  int ino_base;
  unsigned long long ino_off;   /* reported inode number = internal index + ino_off (0 unless a harness asks for numbers >= 2^32) */
  unsigned long ncalls_total;
} simworld;
#define SIM_RINO(i) ((unsigned long long)(i) + W.ino_off)

extern simworld W;
extern simproc P[SIM_MAXPROC];
extern __thread simproc *sim_cur;
extern __thread int sim_on;           /* 1 while program code runs */

/* trace */
extern hbuf sim_trace;
extern int sim_trace_on;
void sim_tr(const char *fmt, ...);

/* world set-up (call with sim_on == 0) */
void sim_reset(void);
int sim_mkdir_p(const char *path, uid_t uid, int mode);
int sim_mkfile(const char *path, const void *data, size_t n, uid_t uid, int mode);   /* synced */
int sim_mkfifo_(const char *path, uid_t uid, int mode);
int sim_lookup(const char *abspath);       /* inode or -1 */
int sim_mkfile_ino(const char *fmt_with_ino_mod_and_ino, int split, const void *data, size_t n, uid_t uid, int mode);  /* name from inode */
int sim_link_(const char *oldabs, const char *newabs);
void sim_deliver_signal(simproc *p, int sig);
extern int (*sim_idle_hook)(void);
extern int sim_readdir_snapshot;
extern void (*sim_sink_hook)(simproc *, int fd);   /* after a write to a sink descriptor */
simproc *sim_proc(int idx, const char *name, long pid, uid_t uid, const char *cwd);
int sim_fd_source(simproc *p, int fd, const void *data, size_t n, int chunk);   /* returns source id */
int sim_fd_sink(simproc *p, int fd);                                           /* returns sink id */
int sim_fd_null(simproc *p, int fd);
int sim_pipe_new(void);
void sim_fd_pipe(simproc *p, int fd, int pipeid, int writer);

/* passwd database */
void sim_user(const char *name, uid_t uid, gid_t gid);

/* faults: the `callno`-th interposed call (1-based) of process idx fails with `err`
 * (err == -1: short write of half the bytes; err == -2: crash the world before the call) */
typedef struct { int proc, callno, err; } simfault;
extern simfault sim_faults[8]; extern int sim_nfaults;
extern int sim_fault_fired;
extern unsigned long sim_crash_before;     /* world crash before global call number N (0 = never) */
extern int sim_gate_close;                 /* opt-in (C12): close() of a regular file is a gated, faultable call; default 0 */
/* opt-in fault kind err == -3 (C12): the clock jumps 100000 s ahead before the call (a pending alarm fires) */
/* opt-in fault kind err == -4 (C02): this process alone is killed before the call (SIGKILL); the others go on */

/* program globals: the data sections of a program instance built by nqlib.Scratch.prog_object().
 * SIM_INSTANCE(inst) declares the section bounds; sim_globals_add registers them; snapshot once at
 * harness start, restore before every run so that each run starts with pristine globals. */
#define SIM_INSTANCE(inst) \
  extern char __start_pd_##inst[] __attribute__((weak)), __stop_pd_##inst[] __attribute__((weak)); \
  extern char __start_pdl_##inst[] __attribute__((weak)), __stop_pdl_##inst[] __attribute__((weak)); \
  extern char __start_pdr_##inst[] __attribute__((weak)), __stop_pdr_##inst[] __attribute__((weak)); \
  extern char __start_pb_##inst[] __attribute__((weak)), __stop_pb_##inst[] __attribute__((weak)); \
  extern int inst##_main(void);
#define SIM_REGISTER(inst) do { \
  sim_globals_add(__start_pd_##inst, __stop_pd_##inst); sim_globals_add(__start_pdl_##inst, __stop_pdl_##inst); \
  sim_globals_add(__start_pdr_##inst, __stop_pdr_##inst); sim_globals_add(__start_pb_##inst, __stop_pb_##inst); } while (0)
void sim_globals_add(char *start, char *stop);
void sim_globals_snapshot(void);
void sim_globals_restore(void);

/* run a program's main in process p until it returns / _exits / crashes (single-thread mode) */
int sim_run(simproc *p, int (*mainfn)(void));

/* crash relation: how un-fsynced data is resolved */
enum { CR_KEEP = 0,   /* process crash: cur survives */
       CR_LOSE,       /* machine crash: dirty files revert to dur (dirty==1: old bytes) */
       CR_EMPTY,      /* machine crash: dirty==2 files come back empty */
       CR_GARBAGE,    /* machine crash: dirty==2 files come back as garbage of cur's length */
       CR_HALF };     /* machine crash: dirty==2 files keep the first half of what was added */
void sim_apply_crash(int mode);

/* dump the tree under `prefix` (sorted): one line per entry */
void sim_dump(hbuf *out, const char *prefix, int with_content);

/* select hook: returns number ready; default implementation in sim.c */
extern int (*sim_select_hook)(simproc *p, int nfds, fd_set *r, fd_set *w, struct timeval *tv);
extern int sim_select_writeback;    /* 1 (default): select() writes the remaining time back into *timeout, as Linux does */
extern void (*sim_gate_hook)(simproc *p, const char *what);   /* optional observer of every gated call (default: none) */

/* scheduling (thread mode) */
extern int sim_threads;              /* 1 = baton scheduling active */
void sim_spawn(simproc *p, int (*mainfn)(void));
void sim_wait(int (*pred)(simproc *), const char *what);   /* block the calling process while pred holds */
void sim_run_all(void);              /* run until every process finished or blocked forever */
extern int (*sim_pick)(int n, int *idx, const char **what);   /* choose among n runnable procs */
extern const char *sim_pending_call[SIM_MAXPROC];
extern const char *sim_pending_arg[SIM_MAXPROC];   /* path argument of the pending open/link/unlink/stat/rename, else 0 */

#endif
