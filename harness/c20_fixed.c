/* C20 correspondence harness (c): the real fixed-buffer code, in-process, compared with Nq.FixedBuf on the DISAGREE
 * channel.  Four builds of this file (one per program, their globals collide):
 *   -DFX_QMQPD  qmail-qmqpd.c getbuf()                         link like qmail-qmqpd
 *   -DFX_QMTPD  qmail-qmtpd.c main(): sender + one recipient   link like qmail-qmtpd minus qmail.o auto_qmail.o
 *   -DFX_GETPW  qmail-getpw.c userext()                        link like qmail-getpw
 *   -DFX_QQ     qmail.c qmail_errstr(), quote.c quote_need()   link like qmail-inject minus qmail.o
 * Which bytes of a buffer the code stored to is observed by filling the buffer with a sentinel that the input never
 * contains and looking afterwards; a store outside the array is ASan's business (global / stack / heap redzones;
 * "X <case> sanitizer" from the death callback).
 *
 * usage: c20_fixed <workdir> <level> <seed> <shard> <nshards>   |   c20_fixed <workdir> -   (cases = text before " : ")
 * output lines ("set" = sorted ranges a-b,c  or - for none):
 *   F qmqpd <len> <avail> : <r> <set>        stream "<len>:" + first <avail> bytes of (<len> data bytes ++ ","); r = getbuf()'s value or E<code>
 *   F qmtpd <relay> <rcl> <ls> <lr> : <sender-set> <rcpt-set>     RELAYCLIENT unset (relay 0) or rcl bytes; sender of ls, one recipient of lr bytes
 *   F getpw <local-hex> : <r> <k,k,…> <ok>   lengths of the names handed to getpwnam, in order; ok=1 iff each name was lower(local[0..k))
 *   F qq <avail> : <len> <set>               qmail_errstr() with avail bytes on the error descriptor, into malloc(sizeof errstr)
 *   F qn <n> : <r> <set>                     quote_need() on n bytes 'a' (exact-size block): r, and the offsets whose content it demonstrably
 *                                            reads (making that byte / that pair of bytes offending changes the answer) */
#include "c20_death.h"
#include <errno.h>
#include <sys/stat.h>
#include <fcntl.h>

static void print_set(const unsigned char *mark, size_t n) {
  int first = 1;
  for (size_t i = 0; i < n;) {
    if (!mark[i]) { i++; continue; }
    size_t j = i; while (j + 1 < n && mark[j + 1]) j++;
    if (j > i) fprintf(h_out, "%s%zu-%zu", first ? "" : ",", i, j); else fprintf(h_out, "%s%zu", first ? "" : ",", i);
    first = 0; i = j + 1;
  }
  if (first) fputc('-', h_out);
}
#define SENT 0xAA
static uint64_t gid; static int gshard, gnshards = 1;
static int mine(void) { return (int)(gid++ % gnshards) == gshard; }

/* scripted descriptor 0 */
static const unsigned char *in_p; static size_t in_n, in_pos;
static ssize_t h_read(int fd, void *b, size_t n) {
  size_t k = in_n - in_pos; if (k > n) k = n; if (k > 97) k = 97;
  memcpy(b, in_p + in_pos, k); in_pos += k; return k;
}
static ssize_t h_write(int fd, const void *b, size_t n) { return n; }

/* ================================================================= qmail-qmqpd getbuf() */
#ifdef FX_QMQPD
#define _exit(x) h_exit(x)
#define main qmqpd_main
#define read h_read
#define write h_write
#include "qmail-qmqpd.c"
#undef read
#undef write
#undef main
#undef _exit
static void one(unsigned long len, unsigned long avail) {
  snprintf(c20_cur, sizeof c20_cur, "F qmqpd %lu %lu", len, avail);
  static unsigned char st[4096]; int o = sprintf((char *)st, "%lu:", len);
  unsigned long tot = len < 3000 ? len + 1 : 3001;
  if (avail > tot) avail = tot;
  for (unsigned long i = 0; i < avail; i++) st[o + i] = (i == len) ? ',' : 'a' + i % 26;
  unsigned char *x = malloc(o + avail ? o + avail : 1); memcpy(x, st, o + avail);
  in_p = x; in_n = o + avail; in_pos = 0;
  ssin.p = 0; ssin.n = sizeof ssinbuf; bytesleft = 1ul << 40;
  memset(buf, SENT, sizeof buf);
  int r = -1; h_exit_armed = 1;
  if (setjmp(h_jb) == 0) { r = getbuf(); fprintf(h_out, "%s : %d ", c20_cur, r); }
  else fprintf(h_out, "%s : E%d ", c20_cur, h_exitcode);
  h_exit_armed = 0;
  unsigned char mark[sizeof buf]; for (size_t i = 0; i < sizeof buf; i++) mark[i] = (unsigned char)buf[i] != SENT;
  print_set(mark, sizeof buf); fputc('\n', h_out);
  free(x);
}
static void gen(int level) {
  for (unsigned long len = 0; len <= 1100; len++) {
    if (!mine()) continue;
    one(len, len + 1);
    if (len % 7 == 0 || (len >= 990 && len <= 1010)) { one(len, 0); one(len, 1); one(len, len / 2); one(len, len); if (len) one(len, len - 1); }
  }
  static const unsigned long BIG[] = { 1500, 2000, 2999, 3000, 65536, 200000000, 200000001, 2000000009ul };
  for (unsigned i = 0; i < 8; i++) { if (!mine()) continue; one(BIG[i], 0); one(BIG[i], 5); one(BIG[i], 3001); }
}
static void stdin_case(char *l) { unsigned long a, b; if (sscanf(l, "F qmqpd %lu %lu", &a, &b) == 2) one(a, b); }
#endif

/* ================================================================= qmail-qmtpd main(): sender and recipient */
#ifdef FX_QMTPD
char auto_qmail[4096];
#include "qmail.h"
static unsigned char m_sender[1000], m_rcpt[1000]; static int phase;
static char *fx_buf(void);
static void snap(void) {
  char *b = fx_buf(); unsigned char *m = phase ? m_rcpt : m_sender;
  for (size_t i = 0; i < 1000; i++) if ((unsigned char)b[i] != SENT) m[i] = 1;
  memset(b, SENT, 1000);
}
int qmail_open(struct qmail *qq) { qq->flagerr = 0; qq->pid = 4242; return 0; }
unsigned long qmail_qp(struct qmail *qq) { return 4242; }
void qmail_fail(struct qmail *qq) { qq->flagerr = 1; }
void qmail_put(struct qmail *qq, char *s, size_t n) {}
void qmail_from(struct qmail *qq, char *s) { snap(); phase = 1; }
void qmail_to(struct qmail *qq, char *s) { snap(); }
char *qmail_close(struct qmail *qq) { snap(); phase = 2; return ""; }
#define _exit(x) h_exit(x)
#define main qmtpd_main
#define read h_read
#define write h_write
#include "qmail-qmtpd.c"
#undef read
#undef write
#undef main
#undef _exit
static char *fx_buf(void) { return buf; }
static void one(int relay, unsigned rcl, unsigned ls, unsigned lr) {
  snprintf(c20_cur, sizeof c20_cur, "F qmtpd %d %u %u %u", relay, rcl, ls, lr);
  static char rc[4000];
  if (relay) { if (rcl > 3990) rcl = 3990; memset(rc, 'r', rcl); rc[rcl] = 0; if (rcl) rc[0] = '@'; setenv("RELAYCLIENT", rc, 1); } else unsetenv("RELAYCLIENT");
  hbuf s = { 0 }; char num[64]; unsigned char *d;
  hbuf_add(&s, "3:\nhi,", 6);
  hbuf_add(&s, num, sprintf(num, "%u:", ls)); d = malloc(ls + 1); for (unsigned i = 0; i < ls; i++) d[i] = 'a' + i % 26; hbuf_add(&s, d, ls); free(d); hbuf_add(&s, ",", 1);
  int il = sprintf(num, "%u:", lr);
  char big[64]; hbuf_add(&s, big, sprintf(big, "%u:", il + lr + 1));
  hbuf_add(&s, num, il); d = malloc(lr + 1); for (unsigned i = 0; i < lr; i++) d[i] = 'b' + i % 24; hbuf_add(&s, d, lr); free(d); hbuf_add(&s, ",,", 2);
  unsigned char *x = malloc(s.n); memcpy(x, s.p, s.n); in_p = x; in_n = s.n; in_pos = 0; free(s.p);
  ssin.p = 0; ssin.n = sizeof ssinbuf; ssout.p = 0;
  memset(m_sender, 0, sizeof m_sender); memset(m_rcpt, 0, sizeof m_rcpt); phase = 0;
  memset(buf, SENT, sizeof buf);
  h_exit_armed = 1;
  if (setjmp(h_jb) == 0) qmtpd_main();
  h_exit_armed = 0;
  fprintf(h_out, "%s : ", c20_cur); print_set(m_sender, 1000); fputc(' ', h_out); print_set(m_rcpt, 1000); fputc('\n', h_out);
  free(x);
}
static void gen(int level) {
  static const int RCL[] = { -1, 0, 1, 14, 100, 500, 998, 999, 1000, 1001, 1500 };
  static const unsigned LS[] = { 0, 1, 2, 500, 997, 998, 999, 1000, 1001, 1002, 1500 };
  for (unsigned r = 0; r < 11; r++) {
    int relay = RCL[r] >= 0; unsigned rcl = relay ? RCL[r] : 0;
    for (unsigned lr = 0; lr <= 1012; lr++) {
      long edge = 1000 - (long)rcl;
      int near = (lr <= 3) || (lr >= 994) || ((long)lr >= edge - 4 && (long)lr <= edge + 4) || lr % (level > 1 ? 5 : 37) == 0;
      if (!near) continue;
      if (!mine()) continue;
      one(relay, rcl, LS[(lr + r) % 11], lr);
    }
  }
}
static void stdin_case(char *l) { int a; unsigned b, c, d; if (sscanf(l, "F qmtpd %d %u %u %u", &a, &b, &c, &d) == 4 && c <= 100000 && d <= 100000) one(a, b, c, d); }
static void setup(const char *work) {
  char p[4200]; snprintf(auto_qmail, sizeof auto_qmail, "%s/fxhome%ld", work, (long)getpid());
  mkdir(work, 0755); mkdir(auto_qmail, 0755); snprintf(p, sizeof p, "%s/control", auto_qmail); mkdir(p, 0755);
  snprintf(p, sizeof p, "%s/control/me", auto_qmail); FILE *f = fopen(p, "w"); if (f) { fputs("me.example\n", f); fclose(f); }
  snprintf(p, sizeof p, "%s/control/rcpthosts", auto_qmail); f = fopen(p, "w"); if (f) { fputs("me.example\n", f); fclose(f); }
}
#define HAVE_SETUP 1
#endif

/* ================================================================= qmail-getpw userext() */
#ifdef FX_GETPW
#include <pwd.h>
static int probes[4096], nprobes, names_ok;
static struct passwd *h_getpwnam(const char *name) {
  size_t k = strlen(name);
  extern char *local;
  if (nprobes < 4096) probes[nprobes++] = (int)k;
  for (size_t i = 0; i < k; i++) { unsigned char c = local[i]; if (c >= 'A' && c <= 'Z') c += 32; if ((unsigned char)name[i] != c) names_ok = 0; }
  errno = 0;
  return 0;
}
#define _exit(x) h_exit(x)
#define main getpw_main
#define getpwnam h_getpwnam
#include "qmail-getpw.c"
#undef getpwnam
#undef main
#undef _exit
static void one(const unsigned char *loc, size_t n) {
  int o = snprintf(c20_cur, sizeof c20_cur, "F getpw ");
  if (!n) c20_cur[o++] = '-';
  for (size_t i = 0; i < n && o + 3 < (int)sizeof c20_cur; i++) o += sprintf(c20_cur + o, "%02x", loc[i]);
  c20_cur[o] = 0;
  char *x = malloc(n + 1); memcpy(x, loc, n); x[n] = 0;
  local = x; nprobes = 0; names_ok = 1;
  int r = -1; h_exit_armed = 1;
  if (setjmp(h_jb) == 0) { r = userext(); fprintf(h_out, "%s : %d ", c20_cur, r); } else fprintf(h_out, "%s : E%d ", c20_cur, h_exitcode);
  h_exit_armed = 0;
  if (!nprobes) fputc('-', h_out);
  for (int i = 0; i < nprobes; i++) fprintf(h_out, "%s%d", i ? "," : "", probes[i]);
  fprintf(h_out, " %d\n", names_ok);
  free(x);
}
static void gen(int level) {
  unsigned char m[200];
  /* every string over {a, -, B} up to length 6; then long names with dashes at chosen places around the 32-byte buffer */
  static const unsigned char al[3] = { 'a', '-', 'B' };
  for (int len = 0; len <= (level > 1 ? 8 : 6); len++) {
    long total = 1; for (int i = 0; i < len; i++) total *= 3;
    for (long k = 0; k < total; k++) { if (!mine()) continue; long v = k; for (int i = 0; i < len; i++) { m[i] = al[v % 3]; v /= 3; } one(m, len); }
  }
  for (int len = 25; len <= 70; len++)
    for (int d1 = -1; d1 <= len; d1 += (d1 >= 27 && d1 <= 35) ? 1 : 4)
      for (int d2 = 28; d2 <= 36; d2 += 2) {
        if (!mine()) continue;
        for (int i = 0; i < len; i++) m[i] = 'A' + i % 26;
        if (d1 >= 0 && d1 < len) m[d1] = '-'; if (d2 < len) m[d2] = '-';
        one(m, len);
      }
}
static void stdin_case(char *l) {
  static char hx[1 << 16]; static unsigned char b[1 << 15];
  if (sscanf(l, "F getpw %65000s", hx) != 1) return;
  size_t n = 0; if (hx[0] != '-') for (char *h = hx; h[0] && h[1]; h += 2) { unsigned v; sscanf(h, "%2x", &v); if (v) b[n++] = v; }
  one(b, n);
}
#endif

/* ================================================================= qmail.c qmail_errstr(), quote.c quote_need() */
#ifdef FX_QQ
#include "qmail.c"
#include "quote.h"
static void one_qq(unsigned avail) {
  snprintf(c20_cur, sizeof c20_cur, "F qq %u", avail);
  int pi[2]; if (pipe(pi) == -1) return;
  static unsigned char d[70000]; if (avail > 60000) avail = 60000;
  for (unsigned i = 0; i < avail; i++) d[i] = 'e' + i % 20;
  if (avail && write(pi[1], d, avail) != (ssize_t)avail) { close(pi[0]); close(pi[1]); return; }
  close(pi[1]);
  struct qmail qq; memset(&qq, 0, sizeof qq); qq.fderr = pi[0];
  size_t sz = 256;                             /* sizeof errstr in qmail_close(); the model gets the size from the translator */
  unsigned char *s = malloc(sz); memset(s, SENT, sz);
  size_t len = qmail_errstr(&qq, (char *)s);
  close(pi[0]);
  unsigned char mark[256]; for (size_t i = 0; i < sz; i++) mark[i] = s[i] != SENT;
  fprintf(h_out, "%s : %zu ", c20_cur, len); print_set(mark, sz); fputc('\n', h_out);
  free(s);
}
static void one_qn(unsigned n) {
  snprintf(c20_cur, sizeof c20_cur, "F qn %u", n);
  char *s = malloc(n ? n : 1); if (!n) __asan_poison_memory_region(s, 1);
  unsigned char *mark = calloc(n + 1, 1);
  memset(s, 'a', n);
  int r = quote_need(s, n);
  if (n && r == 0) {
    for (unsigned k = 0; k < n; k++) { s[k] = (char)0x80; if (quote_need(s, n) == 1) mark[k] = 1; s[k] = 'a'; }
    s[0] = '.'; if (quote_need(s, n) == 1) mark[0] = 1; s[0] = 'a';
    s[n - 1] = '.'; if (quote_need(s, n) == 1) mark[n - 1] = 1; s[n - 1] = 'a';
    for (unsigned k = 1; k + 2 < n; k++) { s[k] = '.'; s[k + 1] = '.'; if (quote_need(s, n) == 1) { mark[k] = 1; mark[k + 1] = 1; } s[k] = 'a'; s[k + 1] = 'a'; }
  }
  fprintf(h_out, "%s : %d ", c20_cur, r); print_set(mark, n); fputc('\n', h_out);
  if (!n) __asan_unpoison_memory_region(s, 1);
  free(mark); free(s);
}
static void gen(int level) {
  for (unsigned a = 0; a <= 300; a++) { if (!mine()) continue; one_qq(a); }
  static const unsigned BIGA[] = { 511, 512, 1000, 8191, 8192, 8193, 60000 };
  for (unsigned i = 0; i < 7; i++) { if (!mine()) continue; one_qq(BIGA[i]); }
  for (unsigned n = 0; n <= (level > 1 ? 400u : 120u); n++) { if (!mine()) continue; one_qn(n); }
  if (mine()) one_qn(1000);
}
static void stdin_case(char *l) { unsigned a; if (sscanf(l, "F qq %u", &a) == 1) one_qq(a); else if (sscanf(l, "F qn %u", &a) == 1 && a <= 100000) one_qn(a); }
#endif

int main(int argc, char **argv) {
  h_init_out();
  c20_install_death();
  if (argc < 3) { fprintf(stderr, "usage: %s <workdir> <level|-> <seed> <shard> <nshards>\n", argv[0]); return 2; }
#ifdef HAVE_SETUP
  setup(argv[1]);
#endif
  if (!strcmp(argv[2], "-")) {
    static char line[1 << 17];
    while (fgets(line, sizeof line, stdin)) { char *c = strstr(line, " : "); if (c) *c = 0; if (line[0] == 'F' && line[1] == ' ') stdin_case(line); }
  } else {
    gshard = h_argi(argc, argv, 4, 0); gnshards = h_argi(argc, argv, 5, 1);
    gen(atoi(argv[2]));
  }
  c20_cur[0] = 0;
  fflush(h_out);
#ifdef HAVE_SETUP
  { char p[4300]; snprintf(p, sizeof p, "rm -rf '%s'", auto_qmail); if (system(p)) {} }
#endif
  return 0;
}
