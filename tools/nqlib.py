"""Shared machinery of the /verif checks.

Every check:
  1. regenerates Nq/Gen/*.lean from /repo (translator, tools/extract.py),
  2. builds the Lean property module and the model driver (lake),
     greps for forbidden tokens and audits `#print axioms`,
  3. builds a sanitised scratch copy of /repo's *working tree*, compiles the correspondence
     harness against it, runs implementation and model on the same cases and diffs them,
     evaluating the property oracle on the implementation's outputs,
  4. writes evidence/<id>.json and prints VIOLATION / KNOWN-FINDING lines.
"""
import json, os, re, shutil, subprocess, sys, tempfile, time, hashlib, glob

VERIF = os.path.dirname(os.path.dirname(os.path.abspath(__file__)))
REPO = os.environ.get("NQ_REPO", "/repo")
LEAN = os.path.join(VERIF, "lean")
NCPU = min(16, os.cpu_count() or 4)

SAN_CC = "-g -O1 -fsanitize=address,undefined -fno-sanitize-recover=all -fno-omit-frame-pointer"
SAN_LD = "-fsanitize=address,undefined"
ALLOWED_AXIOMS = {"propext", "Classical.choice", "Quot.sound"}
FORBIDDEN = re.compile(r"\b(sorry|admit|native_decide|bv_decide|implemented_by|unsafe)\b|^\s*axiom\s|maxHeartbeats\s+0")

TRUSTED_BASE = [
    "Lean 4.33 kernel (lake build re-elaborates and kernel-checks every theorem on each run); axioms limited to propext, Classical.choice, Quot.sound (audited by #print axioms on every property theorem); no native_decide/bv_decide/sorry",
    "Lean compiler for the executable side of the correspondence (compiled model = same definitions the theorems are about)",
    "tools/extract.py (translator for constants/tables) and the C correspondence harness under harness/ (not verified; they are the tie between model and /repo)",
    "gcc/glibc; -O1 -fsanitize=address,undefined build of the working tree behaves like the production build on defined behaviour",
]


def sh(cmd, cwd=None, env=None, timeout=None, check=False, inp=None):
    e = dict(os.environ)
    e.setdefault("ASAN_OPTIONS", "detect_leaks=0")
    if env:
        e.update(env)
    p = subprocess.run(cmd, shell=isinstance(cmd, str), cwd=cwd, env=e, stdout=subprocess.PIPE,
                       stderr=subprocess.STDOUT, timeout=timeout, input=inp)
    out = p.stdout.decode("utf-8", "replace")
    if check and p.returncode != 0:
        raise RuntimeError("command failed (%d): %s\n%s" % (p.returncode, cmd, out[-4000:]))
    return p.returncode, out


# ---------------------------------------------------------------- scratch copy of /repo

class Scratch:
    """A sanitised build of /repo's current working tree in a private temp dir."""

    def __init__(self, sanitize=True, targets="it"):
        self.dir = tempfile.mkdtemp(prefix="nq-build-")
        self.sanitize = sanitize
        self.ok = False
        self.log = ""
        try:
            self._copy()
            self._build(targets)
        except Exception as ex:  # build failure is reported by the caller
            self.log += "\n" + str(ex)

    def _copy(self):
        rc, out = sh("git -C %s ls-files -co --exclude-standard" % REPO)
        if rc == 0 and out.strip():
            files = [f for f in out.split("\n") if f and os.path.lexists(os.path.join(REPO, f))]
            p = subprocess.run(["rsync", "-a", "--files-from=-", REPO + "/", self.dir + "/"],
                               input="\n".join(files).encode(), stdout=subprocess.PIPE, stderr=subprocess.STDOUT)
            if p.returncode != 0:
                raise RuntimeError("rsync failed: " + p.stdout.decode())
        else:
            sh("rsync -a --exclude='*.o' --exclude='*.a' --exclude=.git %s/ %s/" % (REPO, self.dir), check=True)
        # drop stale generated test files
        for f in glob.glob(os.path.join(self.dir, "tests", "*-without-main.c")):
            os.unlink(f)

    def _build(self, targets):
        if self.sanitize:
            for fn, add in (("conf-cc", SAN_CC), ("conf-ld", SAN_LD)):
                p = os.path.join(self.dir, fn)
                lines = open(p).read().split("\n")
                lines[0] = lines[0].replace(" -s", "") + " " + add
                open(p, "w").write("\n".join(lines))
        rc, out = sh("make -j%d %s" % (NCPU, targets), cwd=self.dir)
        self.log = out
        self.ok = rc == 0

    def load_args(self, target):
        """objects/libraries the Makefile links `target` with (text after `./load target`)."""
        mk = open(os.path.join(self.dir, "Makefile")).read()
        m = re.search(r"^\t\./load %s ((?:.*\\\n)*.*)$" % re.escape(target), mk, re.M)
        if not m:
            raise RuntimeError("no ./load rule for " + target)
        return m.group(1).replace("\\\n", " ")

    def cc(self, src, out, link_like=None, extra="", defines="", objs_exclude=()):
        """compile a harness (which #includes repo sources) and link it like `link_like`."""
        largs = ""
        if link_like:
            largs = self.load_args(link_like)
            for o in objs_exclude:
                largs = re.sub(r"(^|\s)%s(\s|$)" % re.escape(o), " ", largs)
        cmd = "cc %s %s -w -I. -I%s/harness %s -o %s %s %s %s" % (
            SAN_CC if self.sanitize else "-O1 -g", SAN_LD if self.sanitize else "", VERIF, defines, out, src, largs, extra)
        rc, o = sh(cmd, cwd=self.dir)
        if rc != 0:
            raise RuntimeError("harness compile failed:\n" + cmd + "\n" + o[-6000:])
        return out

    def prog_object(self, inst, src, link_like, keep_globals=(), defines="", objs_exclude=()):
        """Build one *instance* of a program for qsim: compile `src` with main renamed to <inst>_main,
        partially link it with everything the Makefile links the program with, move its writable data
        into sections pd_<inst>* / pb_<inst> (so the harness can snapshot/restore the program's globals)
        and localise every global symbol except <inst>_main and `keep_globals`.  Returns
        (object path, extra link flags)."""
        largs = self.load_args(link_like)
        libs = " ".join(re.findall(r"`cat\s+([^`]+)`", largs.replace("\t", " ")))
        largs = re.sub(r"`[^`]*`", " ", largs)
        for o in objs_exclude:
            largs = re.sub(r"(^|\s)%s(\s|$)" % re.escape(o), " ", largs)
        d = self.dir
        sh("./compile -Dmain=%s_main %s %s -o %s_i.o" % (inst, defines, src, inst), cwd=d, check=True)
        sh("ld -r -o %s_p.o %s_i.o %s" % (inst, inst, largs), cwd=d, check=True)
        ren = " ".join("--rename-section %s=%s" % (a, b) for a, b in (
            (".data", "pd_%s" % inst), (".data.rel.local", "pdl_%s" % inst), (".data.rel", "pdr_%s" % inst), (".bss", "pb_%s" % inst)))
        keep = " ".join("-G %s" % g for g in ["%s_main" % inst] + list(keep_globals))
        sh("objcopy %s %s %s_p.o" % (ren, keep, inst), cwd=d, check=True)
        extra = ""
        if libs:
            rc, o = sh("cat %s" % libs, cwd=d)
            extra = " ".join(o.split())
        return os.path.join(d, "%s_p.o" % inst), extra

    def cleanup(self):
        shutil.rmtree(self.dir, ignore_errors=True)


# ---------------------------------------------------------------- Lean side

def lake_build(targets):
    rc, out = sh("lake build " + " ".join(targets), cwd=LEAN, timeout=3000)
    return rc == 0, out


def lean_files_for(modules):
    return [os.path.join(LEAN, m.replace(".", "/") + ".lean") for m in modules]


def forbidden_scan(paths):
    """forbidden tokens outside comments"""
    hits = []
    for p in paths:
        if not os.path.exists(p):
            continue
        txt = open(p).read()
        txt = re.sub(r"/-.*?-/", lambda m: "\n" * m.group(0).count("\n"), txt, flags=re.S)
        txt = re.sub(r'"(?:[^"\\\n]|\\.)*"', '""', txt)      # string literals cannot hide a proof hole
        for i, line in enumerate(txt.split("\n"), 1):
            code = line.split("--")[0]
            if FORBIDDEN.search(code):
                hits.append("%s:%d: %s" % (p, i, line.strip()))
    return hits


def import_closure(module):
    """source files of `module` and of every Nq.* module it (transitively) imports"""
    seen, todo = [], [module]
    while todo:
        m = todo.pop()
        f = os.path.join(LEAN, m.replace(".", "/") + ".lean")
        if f in seen or not os.path.exists(f):
            continue
        seen.append(f)
        for mm in re.finditer(r"^import\s+((?:Nq|Drv)\.[A-Za-z0-9_.]+)", open(f).read(), re.M):
            todo.append(mm.group(1))
    return sorted(seen)


def all_lean_sources():
    res = []
    for root, _, files in os.walk(os.path.join(LEAN, "Nq")):
        for f in files:
            if f.endswith(".lean"):
                res.append(os.path.join(root, f))
    return sorted(res)


def theorem_names(prop_module):
    """names of theorems declared in the property file (namespace-qualified)"""
    p = lean_files_for([prop_module])[0]
    txt = open(p).read()
    ns = re.search(r"^namespace\s+(\S+)", txt, re.M)
    prefix = (ns.group(1) + ".") if ns else ""
    return [prefix + m.group(1) for m in re.finditer(r"^theorem\s+([A-Za-z0-9_'.]+)", txt, re.M)]


def axiom_audit(prop_module, names):
    """returns {theorem: [axioms]} via #print axioms; missing theorem => ['<unknown>']"""
    src = "import %s\n" % prop_module + "".join("#print axioms %s\n" % n for n in names)
    tf = os.path.join(LEAN, ".audit_%s_%d.lean" % (prop_module.replace(".", "_"), os.getpid()))
    open(tf, "w").write(src)
    try:
        rc, out = sh("lake env lean %s" % tf, cwd=LEAN, timeout=1200)
    finally:
        os.unlink(tf)
    res = {}
    # output blocks: "'name' depends on axioms: [a, b]" or "'name' does not depend on any axioms"
    flat = re.sub(r"\s+", " ", out)
    for n in names:
        m = re.search(r"'%s' depends on axioms: \[([^\]]*)\]" % re.escape(n), flat)
        if m:
            res[n] = [a.strip() for a in m.group(1).split(",") if a.strip()]
        elif re.search(r"'%s' does not depend on any axioms" % re.escape(n), flat):
            res[n] = []
        else:
            res[n] = ["<unknown>"]
    return res, out


# ---------------------------------------------------------------- running shards

PIPE_TIMEOUT = 3000      # seconds for all harness|driver pipelines of one call together; Check.__init__ lowers it for the quick tier


def run_pipeline(harness_cmds, driver_cmd, cwd=None, timeout=None, env=None):
    """run each harness command piped into its own driver process (at most 2*NCPU pipelines at a time); return list of
    driver outputs.  A pipeline that has not finished when the deadline passes (a change to the code under test can make
    the real code loop) is killed and reported as a harness error, never waited for indefinitely."""
    e = dict(os.environ)
    e.setdefault("ASAN_OPTIONS", "detect_leaks=0")
    if env:
        e.update(env)
    deadline = time.time() + (timeout or PIPE_TIMEOUT)
    pending = list(enumerate(harness_cmds))
    running, outs = [], [None] * len(harness_cmds)

    def start(i, hc):
        fh = tempfile.TemporaryFile()
        h = subprocess.Popen(hc, shell=True, cwd=cwd, env=e, stdout=subprocess.PIPE, stderr=fh, start_new_session=True)
        h.errfile = fh
        fo, fe = tempfile.TemporaryFile(), tempfile.TemporaryFile()
        d = subprocess.Popen(driver_cmd, shell=True, cwd=cwd, env=e, stdin=h.stdout, stdout=fo, stderr=fe, start_new_session=True)
        h.stdout.close()
        running.append((i, hc, h, d, fo, fe))

    def finish(i, hc, h, d, fo, fe, timed_out):
        if timed_out:
            for pr in (h, d):
                try:
                    os.killpg(pr.pid, 9)
                except OSError:
                    pass
        d.wait()
        h.wait()
        fo.seek(0)
        fe.seek(0)
        h.errfile.seek(0)
        herr = h.errfile.read()[-20000:].decode("utf-8", "replace")
        h.errfile.close()
        if timed_out:
            herr = "TIMEOUT: the pipeline did not finish within the deadline and was killed: " + hc[-300:] + "\n" + herr[-1500:]
        outs[i] = {"out": fo.read().decode("utf-8", "replace"), "derr": fe.read().decode("utf-8", "replace"),
                   "herr": herr, "hrc": (-9 if timed_out else h.returncode), "drc": (0 if timed_out else d.returncode)}
        fo.close()
        fe.close()

    maxpar = 2 * NCPU
    while pending or running:
        while pending and len(running) < maxpar:
            start(*pending.pop(0))
        still = []
        for r in running:
            i, hc, h, d, fo, fe = r
            if d.poll() is not None and h.poll() is not None:
                finish(*r, False)
            elif time.time() > deadline:
                finish(*r, True)
            else:
                still.append(r)
        running[:] = still
        if running:
            time.sleep(0.05)
    return outs


def driver_path(name):
    return os.path.join(LEAN, ".lake", "build", "bin", name)


# ---------------------------------------------------------------- known findings

def known_findings(prop):
    p = os.path.join(VERIF, "known_findings.json")
    if not os.path.exists(p):
        return []
    data = json.load(open(p))
    return [f for f in data.get("findings", []) if f.get("property") == prop and f.get("status") == "open"]


# ---------------------------------------------------------------- the Check object

class Check:
    def __init__(self, prop, argv=None):
        import argparse
        ap = argparse.ArgumentParser()
        ap.add_argument("--tier", default=os.environ.get("VERIF_TIER", "quick"))
        ap.add_argument("--seed", type=int, default=int(os.environ.get("VERIF_SEED", "1")))
        ap.add_argument("--replay", default=None)
        a = ap.parse_args(argv)
        self.prop = prop
        self.tier = "thorough" if a.tier.startswith("t") else "quick"
        global PIPE_TIMEOUT
        PIPE_TIMEOUT = 900 if self.tier == "quick" else 3600
        self.seed = a.seed
        self.replay = a.replay
        self.t0 = time.time()
        self.violations = []      # (replay_path, found_input: bool)
        self.known_printed = []
        self.cov = {"obligations": 0, "discharged": 0, "checker_cmd": "", "trusted_base": list(TRUSTED_BASE),
                    "evaluations": 0, "distinct_nontrivial": 0, "rule": "", "samples": [],
                    "traces_validated_against_impl": 0}
        self.assumptions = []
        self.notes = []
        self.scratch = None
        self._nreplay = 0

    # -- proofs
    def proofs(self, prop_module, drivers=(), extra_modules=()):
        """build property theorems + drivers; audit. Returns True iff all obligations discharged.
        The translator output (lean/Nq/Gen) and the lake build directory are shared by all checks, so the
        whole step runs under an exclusive lock: concurrent checks (possibly with different NQ_REPO) cannot
        see each other's generated files."""
        import fcntl
        lockf = open(os.path.join(LEAN, ".buildlock"), "w")
        fcntl.flock(lockf, fcntl.LOCK_EX)
        try:
            return self._proofs(prop_module, drivers, extra_modules)
        finally:
            fcntl.flock(lockf, fcntl.LOCK_UN)
            lockf.close()

    def _proofs(self, prop_module, drivers=(), extra_modules=()):
        names_before = theorem_names(prop_module)
        self.cov["obligations"] = len(names_before)
        # (T) translator: regenerate Nq/Gen/*.lean from the current sources
        sys.path.insert(0, os.path.join(VERIF, "tools"))
        import extract
        xok, xmsgs = extract.run(REPO)
        if not xok:
            # An extractor that no longer recognises its source concerns only the properties whose Lean modules import what it
            # generates; for the others the tie is intact (their generated modules were regenerated successfully).
            reg = extract.produces()
            used = set()
            for m in [prop_module] + list(extra_modules) + ["Drv." + d[4:].upper() for d in drivers if d.startswith("drv_")]:
                for f in import_closure(m):
                    if os.sep + "Gen" + os.sep in f:
                        used.add(os.path.basename(f)[:-5])
            relevant = [e for e in extract.FAILED if e not in reg or used & set(reg[e])]
            if not relevant:
                self.cov["translator_unrelated_failures"] = xmsgs
                xok, xmsgs = True, []
            else:
                xmsgs = [m for m in xmsgs if any(m.startswith("extractor %s" % e) for e in relevant)]
        self.cov["translator"] = "ok" if xok else xmsgs
        self.cov["checker_cmd"] = "cd lean && lake build %s && lake env lean <#print axioms of each theorem>" % prop_module
        okd, outd = lake_build(list(drivers)) if drivers else (True, "")
        self.driver_ok = okd
        if not okd:
            self.notes.append("driver build failed:\n" + outd[-3000:])
        ok, out = lake_build([prop_module] + list(extra_modules))
        self.proof_log = out
        broken = []
        if not xok:
            self.cov["discharged"] = 0
            self.broken = ["translator failed (source reshaped): " + m for m in xmsgs]
            return False
        if not ok:
            # which theorem failed? parse "error: file:line" against theorem line ranges
            broken = self._broken_theorems(prop_module, out)
            self.cov["discharged"] = max(0, len(names_before) - max(1, len(broken)))
            self.broken = broken or ["<build of %s failed>" % prop_module]
            return False
        hits = forbidden_scan(import_closure(prop_module))
        if hits:
            self.cov["discharged"] = 0
            self.broken = ["forbidden token: " + h for h in hits]
            return False
        aud, raw = axiom_audit(prop_module, names_before)
        bad = {n: ax for n, ax in aud.items() if not set(ax) <= ALLOWED_AXIOMS}
        self.cov["axioms"] = {n: ax for n, ax in aud.items()}
        self.cov["discharged"] = len(names_before) - len(bad)
        if self.tier == "thorough":
            rc, o = sh("lake env leanchecker %s" % prop_module, cwd=LEAN, timeout=3000)
            self.cov["leanchecker"] = "ok" if rc == 0 else "FAILED: " + o[-500:]
            if rc != 0:
                bad["<leanchecker>"] = [o[-300:]]
        if bad:
            self.broken = ["axiom audit failed: %s %s" % (n, ax) for n, ax in bad.items()]
            return False
        self.broken = []
        return True

    def _broken_theorems(self, prop_module, out):
        res = []
        for m in re.finditer(r"error: (\S+\.lean):(\d+):\d+", out):
            f, ln = m.group(1), int(m.group(2))
            p = f if os.path.isabs(f) else os.path.join(LEAN, f)
            try:
                lines = open(p).read().split("\n")
            except OSError:
                continue
            name = None
            for i in range(min(ln, len(lines)) - 1, -1, -1):
                mm = re.match(r"^(?:theorem|lemma|def|example|instance)\s+([A-Za-z0-9_'.]+)?", lines[i])
                if mm:
                    name = (mm.group(1) or "example") + " (%s:%d)" % (os.path.relpath(p, LEAN), ln)
                    break
            if name and name not in res:
                res.append(name)
        return res

    # -- implementation side
    def build_repo(self, sanitize=True, targets="it"):
        self.scratch = Scratch(sanitize=sanitize, targets=targets)
        if not self.scratch.ok:
            self.notes.append("scratch build of /repo failed:\n" + self.scratch.log[-3000:])
        return self.scratch

    # -- verdicts
    def simcheck(self, s, ncases=400):
        """validate qsim against the real kernel (harness/simcheck.c): same seeded scripts of file-system calls on both,
        observable results compared.  The outcome is recorded in the evidence; a difference is reported as a NOTE (it
        concerns the trusted base on this platform, not the property)."""
        try:
            exe = os.path.join(s.dir, "simcheck")
            rc, o = sh("cc -O1 -g -w -I%s/harness -o %s %s/harness/simcheck.c %s/harness/sim.c -lpthread -ldl" % (VERIF, exe, VERIF, VERIF), cwd=s.dir)
            if rc != 0:
                self.cov["simcheck"] = "not built: " + o[-300:]
                return
            rc, o = sh("%s %d %d" % (exe, ncases, self.seed), cwd=s.dir, timeout=600)
            self.cov["simcheck"] = o.strip()[-600:]
            if rc != 0:
                print("NOTE qsim differs from the kernel on this platform: " + o.strip()[:300])
        except Exception as ex:
            self.cov["simcheck"] = "error: %r" % (ex,)

    def replay_path(self):
        self._nreplay += 1
        d = os.path.join(VERIF, "replays")
        os.makedirs(d, exist_ok=True)
        return os.path.join(d, "%s-%s-%d-%d.json" % (self.prop, self.tier, self.seed, self._nreplay))

    def violation(self, what, replay_obj, found_input=True):
        """report a violation unless it is a listed known finding"""
        for kf in known_findings(self.prop):
            if kf.get("match") and kf["match"] in json.dumps(replay_obj, sort_keys=True):
                if kf["id"] not in self.known_printed:
                    self.known_printed.append(kf["id"])
                    print("KNOWN-FINDING: property=%s %s" % (self.prop, kf["what"]))
                return
        p = self.replay_path()
        replay_obj = dict(replay_obj)
        replay_obj.update({"property": self.prop, "what": what, "tier": self.tier, "seed": self.seed})
        json.dump(replay_obj, open(p, "w"), indent=1)
        self.violations.append((p, found_input))
        print("VIOLATION property=%s replay=%s%s" % (self.prop, p, "" if found_input else " no-failing-input-found"))
        sys.stdout.flush()

    def finish(self):
        if self.scratch:
            self.scratch.cleanup()
        ev = {
            "property_id": self.prop, "tier": self.tier, "seed": self.seed, "level": "proof",
            "coverage": self.cov, "assumptions": self.assumptions, "wall_s": round(time.time() - self.t0, 2),
            "violations": len(self.violations),
        }
        if self.notes:
            ev["coverage"]["notes"] = [n[-1500:] for n in self.notes]
        if self.known_printed:
            ev["coverage"]["known_findings_reproduced"] = self.known_printed
        os.makedirs(os.path.join(VERIF, "evidence"), exist_ok=True)
        json.dump(ev, open(os.path.join(VERIF, "evidence", self.prop + ".json"), "w"), indent=1)
        print("%s %s: obligations=%d discharged=%d evaluations=%d nontrivial=%d violations=%d wall=%.1fs" % (
            self.prop, self.tier, self.cov["obligations"], self.cov["discharged"], self.cov["evaluations"],
            self.cov["distinct_nontrivial"], len(self.violations), time.time() - self.t0))
        sys.exit(1 if self.violations else 0)


def parse_driver_output(outs):
    """merge driver outputs: lines 'STATS {json}', 'SAMPLE ...', 'DISAGREE ...', 'ORACLE ...'"""
    stats = {}
    samples, disagree, oracle, errors = [], [], [], []
    for o in outs:
        if o["hrc"] != 0:
            errors.append("harness exit %s: %s" % (o["hrc"], o["herr"][-2000:]))
        if o["drc"] != 0:
            errors.append("driver exit %s: %s" % (o["drc"], o["derr"][-2000:]))
        for line in o["out"].split("\n"):
            if line.startswith("STATS "):
                for k, v in json.loads(line[6:]).items():
                    if isinstance(v, (int, float)):
                        stats[k] = stats.get(k, 0) + v
                    else:
                        stats.setdefault(k, v)
            elif line.startswith("SAMPLE "):
                samples.append(line[7:])
            elif line.startswith("DISAGREE "):
                disagree.append(line[9:])
            elif line.startswith("ORACLE "):
                oracle.append(line[7:])
    return stats, samples, disagree, oracle, errors


def shortest(items, key="in="):
    """pick the report line with the shortest hex input"""
    def ln(s):
        m = re.search(key + r"(\S+)", s)
        return len(m.group(1)) if m else 10 ** 9
    return sorted(items, key=ln)[0]


def kv(line):
    """'a=b c=d rest' -> dict"""
    d = {}
    for tok in line.split():
        if "=" in tok:
            k, v = tok.split("=", 1)
            d[k] = v
    return d


def standard_verdict(chk, proofs_ok, stats, disagree, oracle, errors, correspondence_name,
                     neighbourhood=None, replay_hint=""):
    """§1.5 step 4 of DESIGN.md."""
    if oracle:
        first = shortest(oracle)
        chk.violation("property oracle fails on the implementation's output",
                      {"failing_case": kv(first), "raw": first[:4000], "how_to_replay": replay_hint,
                       "oracle_failures": len(oracle)}, found_input=True)
        return
    if proofs_ok and not disagree and not errors:
        return
    # something no longer checks: search for a failing input around the disagreements
    found = None
    if neighbourhood and disagree:
        found = neighbourhood(disagree)
    if found:
        chk.violation("property oracle fails on the implementation's output (found by the focused search)",
                      {"failing_case": kv(found), "raw": found[:4000], "how_to_replay": replay_hint}, found_input=True)
        return
    what = []
    if not proofs_ok:
        what.append({"theorems_no_longer_checked": getattr(chk, "broken", []),
                     "lake_output_tail": getattr(chk, "proof_log", "")[-2500:]})
    if disagree:
        what.append({"correspondence_no_longer_checks": correspondence_name,
                     "first_disagreements": [d[:1500] for d in disagree[:5]], "count": len(disagree)})
    if errors:
        what.append({"harness_or_driver_errors": [e[:3000] for e in errors[:3]],
                     "correspondence_no_longer_checks": correspondence_name})
    chk.violation("proof obligation or correspondence broken; the oracle found no failing input",
                  {"broken": what, "how_to_replay": replay_hint}, found_input=False)


def byte_mutations(dis, seed, alphabet, per=400, prefix_variants=("0", "1", "2", "3")):
    """mutations of the `in=` field of disagreement lines, as '<chunk> <hex>' stdin cases"""
    import random
    rnd = random.Random(seed)
    cases = set()
    for d in dis[:50]:
        hx = kv(d).get("in", "-")
        try:
            b = bytearray.fromhex("" if hx == "-" else hx)
        except ValueError:
            continue
        cases.update("%s %s" % (ck, bytes(b).hex() or "-") for ck in prefix_variants)
        for _ in range(per):
            m = bytearray(b)
            for _ in range(rnd.randint(1, 3)):
                op = rnd.randint(0, 2)
                pos = rnd.randint(0, len(m))
                ch = rnd.choice(alphabet)
                if op == 0:
                    m.insert(pos, ch)
                elif op == 1 and m:
                    del m[min(pos, len(m) - 1)]
                elif m:
                    m[min(pos, len(m) - 1)] = ch
            for ck in prefix_variants:
                cases.add("%s %s" % (ck, bytes(m).hex() or "-"))
    return sorted(cases)


def run_standard(prop, prop_module, driver, harness_src, link_like, objs_exclude, args_quick, args_thorough,
                 rule, correspondence_name, alphabet=b"\r\n.a", assumptions=(), extra_cc="", stdin_prefixes=("0", "1", "2", "3"),
                 harness_name=None, post=None, builder=None, mutate=None, oracle_filter=None):
    """The common shape of a check: proofs + sharded harness|driver + verdict + evidence."""
    c = Check(prop)
    ok = c.proofs(prop_module, drivers=[driver])
    s = c.build_repo()
    stats, samples, disagree, oracle, errors = {}, [], [], [], []
    neighbourhood = None
    if s.ok and c.driver_ok:
        try:
            if prop in ("C01", "C03", "C04", "C12"):      # these run the real programs under qsim: validate qsim against the kernel too
                c.simcheck(s, 400 if c.tier == "quick" else 4000)
            if builder:
                h = builder(s)
            else:
                h = s.cc(os.path.join(VERIF, harness_src), os.path.join(s.dir, harness_name or ("h_" + prop.lower())),
                         link_like=link_like, objs_exclude=objs_exclude, extra=extra_cc)
            drv = driver_path(driver)
            args = args_quick if c.tier == "quick" else args_thorough
            cmds = []
            corpus = os.path.join(VERIF, "corpus", prop + ".txt")
            if c.replay:
                cmds.append("%s - < %s" % (h, c.replay))
            else:
                if os.path.exists(corpus):
                    cmds.append("%s - < %s" % (h, corpus))
                cmds += ["%s %s %d %d %d" % (h, args, c.seed, i, NCPU) for i in range(NCPU)]
            outs = run_pipeline(cmds, drv)
            stats, samples, disagree, oracle, errors = parse_driver_output(outs)
            if oracle_filter:
                oracle = [o for o in oracle if oracle_filter in o]

            def neighbourhood(dis):
                cases = mutate(dis, c.seed) if mutate else byte_mutations(dis, c.seed, alphabet, prefix_variants=stdin_prefixes)
                if not cases:
                    return None
                tf = os.path.join(s.dir, "nb.txt")
                open(tf, "w").write("\n".join(cases) + "\n")
                o2 = run_pipeline(["%s - < %s" % (h, tf)], drv)
                st2, _, _, or2, _ = parse_driver_output(o2)
                if oracle_filter:
                    or2 = [o for o in or2 if oracle_filter in o]
                c.cov["search_cases"] = st2.get("cases", 0)
                return shortest(or2) if or2 else None
        except Exception as ex:
            errors.append(str(ex))
    else:
        errors.append("build failed: " + "\n".join(c.notes)[-3000:])
    c.cov["evaluations"] = int(stats.get("cases", 0))
    c.cov["distinct_nontrivial"] = int(stats.get("distinct_nontrivial", 0))
    c.cov["traces_validated_against_impl"] = max(0, int(stats.get("cases", 0)) - int(stats.get("disagree", 0)))
    c.cov["rule"] = rule[c.tier] if isinstance(rule, dict) else rule
    c.cov["exhaustive"] = False
    c.cov["samples"] = samples[:6] or ["(no sample emitted)"]
    c.cov["input_distribution"] = {k: v for k, v in stats.items()
                                   if k not in ("cases", "distinct_nontrivial", "disagree", "oracle_fail")}
    c.assumptions += list(assumptions)
    if post:
        post(c, s, stats)
    standard_verdict(c, ok, stats, disagree, oracle, errors, correspondence_name, neighbourhood,
                     replay_hint="./check %s --replay <file of stdin cases for %s>" % (prop, harness_src))
    c.finish()
