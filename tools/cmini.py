"""C -> Nq.CMini translator: turns the clang AST of a byte loop
      <init assignments>  for (;;) { <get>(&ss,&ch,1); <statements> }
into a Lean value of Nq.CMini.Stmt (lean/Nq/CMini.lean gives it its meaning).  Anything outside the fragment
(see CMini.lean) raises ExtractError: a reshaped source is a broken tie, never a silent pass."""
import json, os, re, subprocess
from extract import ExtractError, c_string_unescape


def clang_function(repo, fname, fn):
    cmd = ["clang-14", "-fsyntax-only", "-w", "-I", repo, "-Xclang", "-ast-dump=json", "-Xclang", "-ast-dump-filter=" + fn,
           os.path.join(repo, fname)]
    try:
        p = subprocess.run(cmd, cwd=repo, stdout=subprocess.PIPE, stderr=subprocess.PIPE, timeout=120)
    except (OSError, subprocess.TimeoutExpired) as e:
        raise ExtractError("clang-14 could not be run on %s: %r" % (fname, e))
    s = p.stdout.decode("latin-1")
    dec, i, docs = json.JSONDecoder(), 0, []
    while i < len(s):
        while i < len(s) and s[i].isspace():
            i += 1
        if i >= len(s):
            break
        try:
            d, i = dec.raw_decode(s, i)
        except ValueError:
            raise ExtractError("%s: clang AST of %s() is not valid JSON" % (fname, fn))
        docs.append(d)
    docs = [d for d in docs if d.get("kind") == "FunctionDecl" and d.get("name") == fn and
            any(c.get("kind") == "CompoundStmt" for c in d.get("inner", []))]
    if len(docs) != 1:
        raise ExtractError("%s: expected exactly one definition of %s(), clang shows %d (%s)" %
                           (fname, fn, len(docs), p.stderr.decode("latin-1")[:200]))
    return docs[0]


def strip(n):
    while n.get("kind") in ("ImplicitCastExpr", "ParenExpr", "ConstantExpr", "CStyleCastExpr") and len(n.get("inner", [])) == 1:
        n = n["inner"][0]
    return n


class Translator:
    def __init__(self, fname, fn, byte_var, out_param, put_fn, noret_fns):
        self.where = "%s: %s()" % (fname, fn)
        self.byte_var, self.out_param, self.put_fn, self.noret = byte_var, out_param, put_fn, list(noret_fns)
        self.vars = []

    def err(self, msg, n=None):
        loc = ""
        if n is not None:
            b = n.get("range", {}).get("begin", {})
            line = b.get("line") or b.get("spellingLoc", {}).get("line") or b.get("expansionLoc", {}).get("line")
            loc = " (line %s)" % line if line else ""
        raise ExtractError("%s: %s%s - outside the fragment Nq.CMini gives a meaning to" % (self.where, msg, loc))

    # ---- expressions
    def name_of(self, n):
        n = strip(n)
        if n.get("kind") == "DeclRefExpr":
            return n["referencedDecl"]["name"]
        return None

    def lit_bytes(self, n):
        n = strip(n)
        if n.get("kind") != "StringLiteral":
            return None
        v = n["value"]
        if not (v.startswith('"') and v.endswith('"')):
            self.err("string literal spelling %r" % v, n)
        return list(c_string_unescape(v[1:-1]))

    def expr(self, n):
        n = strip(n)
        k = n.get("kind")
        if k == "DeclRefExpr":
            nm = n["referencedDecl"]["name"]
            if nm == self.byte_var:
                return ".ch"
            if nm in self.vars:
                return "(.var %d)" % self.vars.index(nm)
            self.err("reference to %s, which is not a local of the loop" % nm, n)
        if k == "IntegerLiteral":
            v = int(n["value"])
            if v < 0:
                self.err("negative constant", n)
            return "(.lit %d)" % v
        if k == "CharacterLiteral":
            v = int(n["value"])
            if not 0 <= v < 128:
                self.err("character constant outside ASCII", n)
            return "(.lit %d)" % v
        if k == "ArraySubscriptExpr":
            base, idx = n["inner"]
            bs = self.lit_bytes(base)
            if bs is None:
                self.err("subscript of something that is not a string literal", n)
            if any(b >= 128 for b in bs):
                self.err("string literal with a non-ASCII byte", n)
            return "(.strAt [%s] %s)" % (", ".join(str(b) for b in bs + [0]), self.expr(idx))
        if k == "BinaryOperator":
            op = {"==": "eq", "!=": "ne", "<": "lt", "&&": "land", "||": "lor"}.get(n["opcode"])
            if op is None:
                self.err("operator %s in an expression" % n["opcode"], n)
            a, b = n["inner"]
            if op in ("eq", "ne") or True:
                pass
            if op == "lt" and (".ch" in (self.expr(a), self.expr(b))):
                self.err("ordered comparison of the byte (signedness of char would matter)", n)
            return "(.%s %s %s)" % (op, self.expr(a), self.expr(b))
        if k == "UnaryOperator" and n["opcode"] == "!":
            return "(.lnot %s)" % self.expr(n["inner"][0])
        self.err("expression of kind %s" % k, n)

    # ---- statements
    def seq(self, items):
        if not items:
            return ".skip"
        out = items[-1]
        for s in reversed(items[:-1]):
            out = "(.seq %s %s)" % (s, out)
        return out

    def assign_chain(self, n):
        """v1 = v2 = ... = constant  ->  list of assignments (right to left, as C evaluates)"""
        targets = []
        while strip(n).get("kind") == "BinaryOperator" and strip(n)["opcode"] == "=":
            lhs, rhs = strip(n)["inner"]
            targets.append(lhs)
            n = rhs
        rhs = strip(n)
        if rhs.get("kind") not in ("IntegerLiteral", "CharacterLiteral"):
            self.err("assignment of something other than a constant", rhs)
        e = self.expr(rhs)
        out = []
        for t in reversed(targets):
            nm = self.name_of(t)
            if nm is None or nm not in self.vars:
                self.err("assignment to something that is not an int local of the loop", t)
            out.append(".assign %d %s" % (self.vars.index(nm), e))
        return out

    def is_out_param_deref(self, n):
        n = strip(n)
        return n.get("kind") == "UnaryOperator" and n.get("opcode") == "*" and self.name_of(n["inner"][0]) == self.out_param

    def stmt(self, n, in_switch, top_of_switch=False):
        k = n.get("kind")
        if k == "CompoundStmt":
            return self.seq([x for c in n.get("inner", []) for x in self.stmts(c, in_switch, False)])
        r = self.stmts(n, in_switch, top_of_switch)
        return self.seq(r)

    def stmts(self, n, in_switch, top_of_switch):
        k = n.get("kind")
        if k == "NullStmt":
            return []
        if k == "CompoundStmt":
            return [self.stmt(n, in_switch)]
        if k == "IfStmt":
            inner = n["inner"]
            if len(inner) not in (2, 3):
                self.err("if statement with a declaration", n)
            c = self.expr(inner[0])
            t = self.stmt(inner[1], in_switch)
            e = self.stmt(inner[2], in_switch) if len(inner) == 3 else ".skip"
            return ["(.ite %s %s %s)" % (c, t, e)]
        if k == "BinaryOperator" and n["opcode"] == "=":
            return ["(%s)" % a for a in self.assign_chain(n)]
        if k == "UnaryOperator" and n["opcode"] == "++":
            tgt = n["inner"][0]
            if self.is_out_param_deref(tgt):
                return [".hop"]
            nm = self.name_of(tgt)
            if nm is None or nm not in self.vars:
                self.err("++ of something that is not an int local of the loop", n)
            return ["(.incr %d)" % self.vars.index(nm)]
        if k == "CallExpr":
            callee = self.name_of(n["inner"][0])
            args = n["inner"][1:]
            if callee == self.put_fn:
                if len(args) != 1:
                    self.err("%s() with %d arguments" % (callee, len(args)), n)
                a = strip(args[0])
                if a.get("kind") == "UnaryOperator" and a.get("opcode") == "&" and self.name_of(a["inner"][0]) == self.byte_var:
                    return ["(.put .ch)"]
                bs = self.lit_bytes(a)
                if bs is None or len(bs) != 1 or bs[0] >= 128:
                    self.err("%s() of something other than &%s or a one-character ASCII literal" % (callee, self.byte_var), n)
                return ["(.put (.lit %d))" % bs[0]]
            if callee in self.noret:
                if args:
                    self.err("%s() with arguments" % callee, n)
                return ["(.noret %d)" % self.noret.index(callee)]
            self.err("call of %s()" % callee, n)
        if k == "SwitchStmt":
            inner = n["inner"]
            if len(inner) != 2 or inner[1].get("kind") != "CompoundStmt":
                self.err("switch whose body is not a block", n)
            items = []
            for c in inner[1].get("inner", []):
                items += self.stmts(c, True, True)
            return ["(.switch %s %s)" % (self.expr(inner[0]), self.seq(items))]
        if k == "CaseStmt":
            if not top_of_switch:
                self.err("case label nested inside another statement", n)
            inner = n["inner"]
            v = strip(inner[0])
            if v.get("kind") != "IntegerLiteral" or len(inner) != 2:
                self.err("case label that is not an integer constant", n)
            return [("(.label %d)" % int(v["value"]))] + self.stmts(inner[1], True, True)
        if k == "DefaultStmt":
            self.err("default label", n)
        if k == "BreakStmt":
            if not in_switch:
                self.err("break outside a switch", n)
            return [".brk"]
        if k == "ContinueStmt":
            return [".cont"]
        if k == "ReturnStmt":
            if n.get("inner"):
                self.err("return with a value", n)
            return [".ret"]
        self.err("statement of kind %s" % k, n)

    # ---- the function
    def function(self, fdecl, get_fn, get_stream):
        body = [c for c in fdecl["inner"] if c.get("kind") == "CompoundStmt"][0]
        items = body.get("inner", [])
        i = 0
        while i < len(items) and items[i].get("kind") == "DeclStmt":
            for v in items[i].get("inner", []):
                if v.get("kind") != "VarDecl" or v.get("inner"):
                    self.err("local declaration with an initialiser or of unexpected kind", v)
                ty = v.get("type", {}).get("qualType")
                if v["name"] == self.byte_var:
                    if ty != "char":
                        self.err("%s is not a char" % self.byte_var, v)
                else:
                    if ty != "int":
                        self.err("local %s is not an int" % v["name"], v)
                    self.vars.append(v["name"])
            i += 1
        init, out_zero = {}, False
        while i < len(items) and items[i].get("kind") == "BinaryOperator" and items[i].get("opcode") == "=":
            n = items[i]
            lhs = n["inner"][0]
            if self.is_out_param_deref(lhs):
                r = strip(n["inner"][1])
                if r.get("kind") != "IntegerLiteral" or int(r["value"]) != 0:
                    self.err("*%s initialised to something other than 0" % self.out_param, n)
                out_zero = True
            else:
                for a in self.assign_chain(n):
                    m = re.match(r"\.assign (\d+) \(\.lit (\d+)\)$", a)
                    init[int(m.group(1))] = int(m.group(2))
            i += 1
        if i != len(items) - 1 or items[i].get("kind") != "ForStmt":
            self.err("the function is not `declarations; constant assignments; for (;;) {...}`")
        f = items[i]["inner"]
        if len(f) != 5 or any(x for x in f[:4]) or f[4].get("kind") != "CompoundStmt":
            self.err("the loop is not `for (;;) { ... }`", items[i])
        if sorted(init) != list(range(len(self.vars))):
            self.err("not every local is given a constant before the loop")
        lb = f[4].get("inner", [])
        g = lb[0] if lb else {}
        ok = g.get("kind") == "CallExpr" and self.name_of(g["inner"][0]) == get_fn and len(g["inner"]) == 4
        if ok:
            a1, a2, a3 = [strip(x) for x in g["inner"][1:]]
            ok = (a1.get("kind") == "UnaryOperator" and a1.get("opcode") == "&" and self.name_of(a1["inner"][0]) == get_stream and
                  a2.get("kind") == "UnaryOperator" and a2.get("opcode") == "&" and self.name_of(a2["inner"][0]) == self.byte_var and
                  a3.get("kind") == "IntegerLiteral" and int(a3["value"]) == 1)
        if not ok:
            self.err("the loop does not start with %s(&%s,&%s,1)" % (get_fn, get_stream, self.byte_var))
        tops = [self.stmt(c, False) for c in lb[1:]]
        return dict(vars=list(self.vars), init=[init[j] for j in range(len(self.vars))], out_zero=out_zero, tops=tops)
