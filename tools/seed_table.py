#!/usr/bin/env python3
"""Regenerate seeded/INDEX.md and the seed table inside DESIGN.md (between the SEED-TABLE markers) from seeded/*/meta.json."""
import glob, json, os, re
VERIF = os.path.dirname(os.path.dirname(os.path.abspath(__file__)))
rows = []
for mp in sorted(glob.glob(os.path.join(VERIF, "seeded", "*", "meta.json"))):
    m = json.load(open(mp))
    d = os.path.basename(os.path.dirname(mp))
    readme = os.path.join(os.path.dirname(mp), "README.md")
    title = ""
    if os.path.exists(readme):
        for l in open(readme):
            if l.strip():
                title = re.sub(r"^[#\s]*", "", l.strip())[:150]
                break
    pd = os.path.join(os.path.dirname(mp), "patch.diff")
    files = sorted(set(re.findall(r"^\+\+\+ b/(\S+)", open(pd).read(), re.M))) if os.path.exists(pd) else []
    det = []
    for cid, v in sorted(m["detection"].items()):
        if v["violation_line"]:
            det.append("%s: VIOLATION%s" % (cid, "" if v["concrete_failing_input"] else " (no-failing-input-found)"))
        else:
            det.append("%s: not detected" % cid)
    hist = ""
    for h in m.get("history", []):
        e = h.get("earlier_detection", {})
        for cid, v in e.items():
            if not v.get("violation_line"):
                hist = " (missed before the check was strengthened)"
    rows.append("| %s | %s | %s | %s%s |" % (d, ", ".join(files), title.replace("|", "/"), "; ".join(det), hist))
hdr = "| seed | files changed | what (seeder's title) | quick tier result |\n|---|---|---|---|\n"
table = hdr + "\n".join(rows) + "\n"
open(os.path.join(VERIF, "seeded", "INDEX.md"), "w").write(
    "# Independently seeded property-breaking changes (confirmed)\n\nEach directory: patch.diff, demo.sh (+ helpers), README.md (the seeder's description), meta.json.\n\n" + table)
p = os.path.join(VERIF, "DESIGN.md")
s = open(p).read()
a, b = "<!-- SEED-TABLE-BEGIN -->", "<!-- SEED-TABLE-END -->"
if a in s and b in s:
    s = s[:s.index(a) + len(a)] + "\n" + table + s[s.index(b):]
    open(p, "w").write(s)
print(len(rows), "seeds")
