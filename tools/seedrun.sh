#!/bin/bash
# Evaluate independently seeded changes against the checks, without touching /repo or /verif:
#   seedrun.sh <ID> <worktree> <outdir-with-m1..m3> [tier] [extra check ids...]
# For each m<k>: confirm (clean: build+tests+demo ok; patched: build+tests ok, demo fails), then run the
# property's check from a private copy of /verif (/tmp/vseed-<ID>) with NQ_REPO=<worktree>.
# Results: <outdir>/m<k>/confirm.log, check-<ID>.log, and a summary line on stdout.
id=$1; wt=$2; out=$3; tier=${4:-quick}; shift 4 2>/dev/null
extra="$@"
vc=/tmp/vseed-$id
rsync -a --delete --exclude replays --exclude .git ${VSRC:-/verif}/ $vc/; rc=$?; [ $rc -eq 0 -o $rc -eq 24 ] || exit 2
clean() { git -C $wt checkout -- . && git -C $wt clean -fdxq; }
for m in $out/m*; do
  [ -f $m/patch.diff ] || continue
  k=$(basename $m)
  clean
  {
    echo "== clean tree"; (cd $wt && make -j8 it >/dev/null 2>&1 && echo build-ok || echo build-FAIL)
    (cd $wt && make -C tests test 2>&1 | grep -E "^[0-9]+%|Checks" | tr '\n' ' '); echo
    (cd $m && timeout 300 ./demo.sh $wt >/dev/null 2>&1); echo "demo-clean-exit=$?"
    clean
    echo "== patched"; (git -C $wt apply $m/patch.diff 2>/dev/null || (cd $wt && patch -p1 -s < $m/patch.diff)) && echo apply-ok || echo apply-FAIL   # later fix: commits shift lines: fall back to patch(1) with fuzz
    (cd $wt && make -j8 it >/dev/null 2>&1 && echo build-ok || echo build-FAIL)
    (cd $wt && make -C tests test 2>&1 | grep -E "^[0-9]+%|Checks" | tr '\n' ' '); echo
    (cd $m && timeout 300 ./demo.sh $wt >/dev/null 2>&1); echo "demo-patched-exit=$?"
  } > $m/confirm.log 2>&1
  # leave the patch applied but drop build output, then run the checks
  git -C $wt clean -fdxq
  for c in $id $extra; do
    (cd $vc && NQ_REPO=$wt timeout 3000 ./check $c --tier $tier > $m/check-$c.log 2>&1; echo "exit=$?" >> $m/check-$c.log)
  done
  clean
  conf=$(grep -c "demo-clean-exit=0" $m/confirm.log):$(grep "demo-patched-exit" $m/confirm.log | sed 's/.*=//')
  res=""
  for c in $id $extra; do
    v=$(grep -m1 "^VIOLATION" $m/check-$c.log | cut -c1-160); e=$(tail -1 $m/check-$c.log)
    res="$res [$c $e ${v:-no-violation}]"
  done
  echo "SEED $id/$k confirm(clean-ok:patched-exit)=$conf $res"
done
rm -rf $vc
