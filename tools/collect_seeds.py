#!/usr/bin/env python3
"""Copy independently seeded, confirmed property-breaking changes from /tmp/mut/<ID>-out/m<k>/ to /verif/seeded/<ID>-m<k>/.
A seed is kept only if confirm.log (written by tools/seedrun.sh) shows: clean tree builds, unit tests pass, demo exits 0;
patched tree builds, unit tests pass, demo exits non-zero.  meta.json records what it breaks, what it needs to manifest
(from the seeder's README), what was run, and what the checks reported (check-<ID>.log of the latest seedrun)."""
import json, os, re, shutil, sys, glob, subprocess

VERIF = os.path.dirname(os.path.dirname(os.path.abspath(__file__)))
SRC = "/tmp/mut"


def confirmed(log):
    t = open(log).read()
    clean, patched = t.split("== patched")
    ok = ("build-ok" in clean and "demo-clean-exit=0" in clean and "Failures: 0" in clean and "apply-ok" in patched
          and "build-ok" in patched and "Failures: 0" in patched)
    m = re.search(r"demo-patched-exit=(\d+)", patched)
    return ok and m and m.group(1) != "0", t


def needs_from_readme(txt):
    # the seeder's own words: lines mentioning the trigger
    out = []
    for line in txt.split("\n"):
        if re.search(r"trigger|needs|manifest", line, re.I) and len(line) > 20:
            out.append(line.strip(" -*#"))
        if len(out) >= 6:
            break
    return out or [l for l in txt.split("\n") if l.strip()][:4]


def main():
    rnd = ""
    args = sys.argv[1:]
    if args and args[0].startswith("--round="):
        rnd = args[0].split("=")[1]
        args = args[1:]
    suffix = "-out" + (rnd if rnd and rnd != "1" else "")
    ids = args or sorted({os.path.basename(d)[:3] for d in glob.glob(SRC + "/C??" + suffix)})
    kept = 0
    for pid in ids:
        wt = os.path.join(SRC, pid)
        base = subprocess.run(["git", "-C", wt, "rev-parse", "--short", "HEAD"], capture_output=True, text=True).stdout.strip()
        for m in sorted(glob.glob("%s/%s%s/m*" % (SRC, pid, suffix))):
            k = os.path.basename(m)
            log = os.path.join(m, "confirm.log")
            if not os.path.exists(log) or not os.path.exists(os.path.join(m, "patch.diff")):
                continue
            ok, conf = confirmed(log)
            if not ok:
                print("NOT CONFIRMED", pid, k)
                continue
            dst = os.path.join(VERIF, "seeded", "%s-%s%s" % (pid, ("r%s" % rnd) if rnd and rnd != "1" else "", k))
            os.makedirs(dst, exist_ok=True)
            for f in os.listdir(m):
                p = os.path.join(m, f)
                if not os.path.isfile(p) or os.path.getsize(p) > 400000 or f.startswith("check-") or f == "confirm.log" or f.endswith((".o", ".so", ".log", ".out")):
                    continue
                if open(p, "rb").read(4) == b"\x7fELF":
                    continue
                shutil.copy2(p, os.path.join(dst, f))
            readme = open(os.path.join(m, "README.md")).read() if os.path.exists(os.path.join(m, "README.md")) else ""
            det = {}
            for cl in sorted(glob.glob(os.path.join(m, "check-*.log"))):
                cid = os.path.basename(cl)[6:-4]
                t = open(cl).read()
                v = re.search(r"^VIOLATION.*$", t, re.M)
                det[cid] = {"tier": "quick", "exit": (re.findall(r"exit=(\d+)", t) or ["?"])[-1],
                            "violation_line": re.sub(r"/tmp/vseed-C\d\d", "/verif", v.group(0)) if v else None,
                            "concrete_failing_input": bool(v) and "no-failing-input-found" not in v.group(0)}
            meta_p = os.path.join(dst, "meta.json")
            old = json.load(open(meta_p)) if os.path.exists(meta_p) else {}
            meta = {
                "property": pid, "seed": k, "round": int(rnd or 1), "base_commit": base,
                "origin": "independent sub-agent given only the property text and a scratch worktree (tools/seed_prompt.py); nothing from /verif",
                "needs_to_manifest": needs_from_readme(readme),
                "confirmed_by": {"what_ran": "tools/seedrun.sh: clean checkout -> make -j8 it, make -C tests test, demo.sh <tree>; git apply patch.diff -> same three steps",
                                 "clean_tree": "build ok, 22 unit tests pass, demo exit 0",
                                 "patched_tree": "build ok, 22 unit tests pass, demo exit " + re.search(r"demo-patched-exit=(\d+)", conf).group(1)},
                "checks_run": "NQ_REPO=<patched worktree> ./check <ID> --tier quick, from a private copy of /verif (tools/seedrun.sh)",
                "detection": det,
            }
            if old.get("history"):
                meta["history"] = old["history"]
            if old.get("detection") and old["detection"] != det:
                meta.setdefault("history", []).append({"earlier_detection": old["detection"]})
            json.dump(meta, open(meta_p, "w"), indent=1)
            kept += 1
    print("kept", kept)


if __name__ == "__main__":
    main()
