"""C16 translator: the start-up facts of qmail-send.c the trigger model rests on, and a shape check of the statements that
Nq/SelPrep.lean transcribes -> lean/Nq/Gen/SendLoop.lean.

* todo_init(): `nexttodorun = now() [+ K];` -> TODO_INIT_DELAY (0 when nothing is added: the first loop iteration scans todo/
  unconditionally; C16_first_scan_unconditional is proved from this value) and whether it calls trigger_set() -> TODO_INIT_ARMS.
* main(): the statements from the head of the select loop to the select() call must be exactly the sequence SelPrep models
  (clock read first, signal flags, wakeup initialisation, the five *_selprep calls in order, both halves of the timeval).  Anything
  else is a source reshaped under the model: ExtractError (a broken correspondence, never a pass)."""
from extract import read, ExtractError, define_int
import re


def _body(src, head_re, what):
    m = re.search(head_re, src, re.M)
    if not m:
        raise ExtractError("qmail-send.c: %s not found" % what)
    i = src.index("{", m.end() - 1) if src[m.end() - 1] != "{" else m.end() - 1
    depth, j = 0, i
    while j < len(src):
        if src[j] == "{":
            depth += 1
        elif src[j] == "}":
            depth -= 1
            if depth == 0:
                return src[i + 1:j]
        j += 1
    raise ExtractError("qmail-send.c: %s: unbalanced braces" % what)


def _norm(txt):
    txt = re.sub(r"/\*.*?\*/", "", txt, flags=re.S)
    return re.sub(r"\s+", "", txt)


LOOP_PRE_SELECT = ("recent=now();"
                   "if(flagrunasap){flagrunasap=0;pqrun();}"
                   "if(flagreadasap){flagreadasap=0;reread();}"
                   "wakeup=recent+SLEEP_FOREVER;"
                   "FD_ZERO(&rfds);FD_ZERO(&wfds);nfds=1;"
                   "comm_selprep(&nfds,&wfds);del_selprep(&nfds,&rfds);pass_selprep(&wakeup);"
                   "todo_selprep(&nfds,&rfds,&wakeup);cleanup_selprep(&wakeup);"
                   "if(wakeup<=recent)tv.tv_sec=0;elsetv.tv_sec=wakeup-recent+SLEEP_FUZZ;tv.tv_usec=0;")


def generate(repo):
    src = read(repo, "qmail-send.c")
    ti = _norm(_body(src, r"^void\s+todo_init\s*\(\s*\)\s*\{", "todo_init()"))
    m = re.search(r"nexttodorun=now\(\)(?:\+(\w+))?;", ti)
    if not m:
        raise ExtractError("qmail-send.c: todo_init(): `nexttodorun = now() [+ K];` not found")
    if m.group(1) is None:
        delay = 0
    elif m.group(1).isdigit():
        delay = int(m.group(1))
    else:
        delay = define_int(repo, "qmail-send.c", m.group(1))
    arms = "trigger_set();" in ti
    if "tododir=0;" not in ti:
        raise ExtractError("qmail-send.c: todo_init(): `tododir = 0;` not found")
    main = _body(src, r"^int\s+main\s*\([^)]*\)\s*\{", "main()")
    m = re.search(r"while\s*\(\s*!flagexitasap\s*\|\|\s*!del_canexit\(\)\s*\)\s*\{", main)
    if not m:
        raise ExtractError("qmail-send.c: main(): `while (!flagexitasap || !del_canexit())` not found")
    rest = main[m.end():]
    k = rest.find("if (select(")
    if k < 0:
        k = rest.find("if(select(")
    if k < 0:
        raise ExtractError("qmail-send.c: main(): select() call not found in the loop")
    pre = _norm(rest[:k])
    if pre != LOOP_PRE_SELECT:
        raise ExtractError("qmail-send.c: main(): the statements between the head of the select loop and select() are not the sequence "
                           "Nq.SelPrep transcribes (clock read first, flags, wakeup, five *_selprep calls, tv_sec and tv_usec): got %r" % pre[:400])
    lean = ("namespace Nq.Gen.SendLoop\n\n"
            "/-- qmail-send.c todo_init(): `nexttodorun = now() + TODO_INIT_DELAY` -/\n"
            "def TODO_INIT_DELAY : Nat := %d\n\n"
            "/-- qmail-send.c todo_init() opens the trigger FIFO (`trigger_set()`) before the loop starts -/\n"
            "def TODO_INIT_ARMS : Bool := %s\n\n"
            "/-- main(): the statements from the loop head to select() are the sequence Nq.SelPrep transcribes (checked by the translator) -/\n"
            "def LOOP_PRE_SELECT_TRANSCRIBED : Bool := true\n\n"
            "end Nq.Gen.SendLoop\n") % (delay, "true" if arms else "false")
    return {"SendLoop": lean}
