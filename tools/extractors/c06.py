"""C06 translator: qmail-remote.c blast() -> lean/Nq/Gen/RemoteBlast.lean (a Nq.CFlow.Stmt: the whole function body).

Nq/Lemmas/RemoteSrc.lean proves by exhaustive kernel evaluation over (control point, read result) that the meaning of the extracted
text is the hand-written automaton `Nq.SmtpOut.rstep / rfinish` (three read points = the states top / mid / cr), so the C06 theorems
are re-checked against the function as it is now.  Checked here, textually: temp_read() and perm_partialline() end in zerodie(), and
zerodie() ends in _exit(0) (they do not return)."""
import re
from extract import read, ExtractError
import cmini, cflow


def _norm(t):
    return re.sub(r"\s+", "", re.sub(r"/\*.*?\*/", "", t, flags=re.S))


def _body(src, name):
    m = re.search(r"^void\s+(?:_noreturn_\s+)?%s\s*\(\s*(?:void)?\s*\)\s*\{(.*?)\}" % name, src, re.M | re.S)
    if not m:
        raise ExtractError("qmail-remote.c: definition of %s() not found" % name)
    return _norm(m.group(1))


def generate(repo):
    src = read(repo, "qmail-remote.c")
    if not _body(src, "zerodie").endswith("_exit(0);"):
        raise ExtractError("qmail-remote.c: zerodie() does not end with `_exit(0);`")
    for f in ("temp_read", "perm_partialline"):
        if not _body(src, f).endswith("zerodie();"):
            raise ExtractError("qmail-remote.c: %s() does not end with `zerodie();` (it must not return)" % f)
    fd = cmini.clang_function(repo, "qmail-remote.c", "blast")
    tr = cflow.Flow("qmail-remote.c: blast()", byte_var="ch", res_var="r", get_fn="substdio_get", get_stream="ssin",
                    put_fn="substdio_put", put_stream="smtpto", flush_fn="substdio_flush", crit_var="flagcritical",
                    noret_fns=["temp_read", "perm_partialline"])
    prog = tr.function(fd)
    lean = ["import Nq.CFlow", "namespace Nq.Gen.RemoteBlast", "open Nq.CFlow", "",
            "/-- routines that do not return, by index: `.noret k` -/",
            'def noretNames : List String := ["temp_read", "perm_partialline"]', "",
            "/-- the body of qmail-remote.c blast() -/",
            "def prog : Stmt :=", "  " + prog, "", "end Nq.Gen.RemoteBlast", ""]
    return {"RemoteBlast": "\n".join(lean)}
