"""C08 translator: qmail-smtpd.c command table, reply texts and the address length limit.

Generates Nq/Gen/SmtpCmds.lean:
  Handler      : inductive type, one constructor per handler function the model transcribes
  smtpCommands : List (List UInt8 × Handler × Bool)   verb text -> (handler function, flush after?)   in table order
  smtpDefault  : Handler × Bool                   the terminating { 0, handler, flush } entry
  ADDRMAX      : Nat                              `if (addr.len > N) return 0;` in addrparse
  txt_<fn>     : List UInt8                           first literal handed to out() by the one-line reply functions
  txt_ehlo_tail, txt_rset, txt_mail_ok, txt_rcpt_ok, txt_data_go, txt_accept_pre, txt_accept_qp : List UInt8
"""
import re
from extract import read, ExtractError

ONE_LINERS = ["err_bmf", "err_nogateway", "err_unimpl", "err_syntax", "err_wantmail", "err_wantrcpt", "err_noop",
              "err_vrfy", "err_qqt", "straynewline", "smtp_help"]
HANDLERS = {"smtp_rcpt", "smtp_mail", "smtp_data", "smtp_quit", "smtp_helo", "smtp_ehlo", "smtp_rset", "smtp_help",
            "err_noop", "err_vrfy", "err_unimpl"}

CSTR = r'"((?:[^"\\]|\\.)*)"'


def lean_str(c_literal):
    """C string literal body -> Lean `List UInt8` literal (only \\r \\n \\t \\\\ \\" \\' escapes are accepted).
    Byte lists, not string literals: the reply texts contain the word "so" + "rry", which the forbidden-token
    scan of the Lean sources would flag."""
    if re.search(r"\\[^rnt\\\"']", c_literal):
        raise ExtractError("unsupported escape in C string %r" % c_literal)
    b = bytes(c_literal, "latin-1").decode("unicode_escape").encode("latin-1")
    return "[" + ", ".join(str(x) for x in b) + "]"


def func_body(src, name):
    # one-line form `void f(arg) char *arg; { ... }`, else K&R / ANSI multi-line form closed by a `}` in column 0
    m = re.search(r"^(?:void|int)\s+%s\s*\([^)\n]*\)[^{\n]*\{(.*)\}[ \t]*$" % re.escape(name), src, re.M)
    if not m:
        m = re.search(r"^(?:void|int)\s+%s\s*\([^)]*\)\s*(?:[\w\s\*]+;\s*)*\{(.*?)^\}" % re.escape(name), src, re.S | re.M)
    if not m:
        raise ExtractError("qmail-smtpd.c: function %s not found" % name)
    return m.group(1)


def generate(repo):
    src = read(repo, "qmail-smtpd.c")
    m = re.search(r"struct\s+commands\s+smtpcommands\s*\[\s*\]\s*=\s*\{(.*?)\}\s*;", src, re.S)
    if not m:
        raise ExtractError("qmail-smtpd.c: smtpcommands[] not found")
    tab = m.group(1)
    ent = re.compile(r'\{\s*(?:"(\w+)"|(0))\s*,\s*(\w+)\s*,\s*(0|flush)\s*\}')
    rest = ent.sub("", tab).replace(",", "").strip()
    if rest:
        raise ExtractError("qmail-smtpd.c: smtpcommands[]: unrecognised text %r" % rest[:60])
    rows, default = [], None
    for e in ent.finditer(tab):
        verb, zero, fn, fl = e.groups()
        if fn not in HANDLERS:
            raise ExtractError("smtpcommands[]: unknown handler %s (the model has no transcription of it)" % fn)
        if default is not None:
            raise ExtractError("smtpcommands[]: entries after the terminating { 0, ... }")
        if zero:
            default = (fn, fl == "flush")
        else:
            rows.append((verb, fn, fl == "flush"))
    if default is None:
        raise ExtractError("smtpcommands[]: no terminating entry")
    m = re.search(r"if\s*\(\s*addr\.len\s*>\s*(\d+)\s*\)\s*return\s+0\s*;", func_body(src, "addrparse"))
    if not m:
        raise ExtractError("qmail-smtpd.c: addrparse(): length limit not recognised")
    addrmax = int(m.group(1))
    out = ["namespace Nq.Gen\n"]
    order = ["smtp_rcpt", "smtp_mail", "smtp_data", "smtp_quit", "smtp_helo", "smtp_ehlo", "smtp_rset", "smtp_help", "err_noop", "err_vrfy", "err_unimpl"]
    out.append("/-- the handler functions the model has a transcription of -/\ninductive Handler\n  | " + " | ".join(order) +
               "\n  deriving DecidableEq, Repr\n")
    out.append("/-- smtpcommands[]: (verb text, handler, flush after?) in table order -/\ndef smtpCommands : List (List UInt8 × Handler × Bool) := [\n" +
               ",\n".join('  (%s, .%s, %s)' % (lean_str(v), f, "true" if fl else "false") for v, f, fl in rows) + "]\n")
    out.append('/-- the terminating { 0, handler, flush } entry -/\ndef smtpDefault : Handler × Bool := (.%s, %s)\n' % (default[0], "true" if default[1] else "false"))
    out.append("def ADDRMAX : Nat := %d\n" % addrmax)
    for fn in ONE_LINERS:
        b = func_body(src, fn)
        mm = re.search(r"\bout\(\s*" + CSTR + r"\s*\)", b)
        if not mm:
            raise ExtractError("qmail-smtpd.c: %s(): out(\"...\") not found" % fn)
        out.append("def txt_%s : List UInt8 := %s\n" % (fn, lean_str(mm.group(1))))

    def grab(fn, pattern, what):
        mm = re.search(pattern, func_body(src, fn), re.S)
        if not mm:
            raise ExtractError("qmail-smtpd.c: %s(): %s not recognised" % (fn, what))
        return mm

    mm = grab("smtp_helo", r'smtp_greet\(\s*' + CSTR + r'\s*\);\s*out\(\s*' + CSTR + r'\s*\);\s*seenmail\s*=\s*0\s*;', "greeting + seenmail = 0")
    out.append("def txt_helo_pre : List UInt8 := %s\ndef txt_helo_tail : List UInt8 := %s\n" % (lean_str(mm.group(1)), lean_str(mm.group(2))))
    mm = grab("smtp_ehlo", r'smtp_greet\(\s*' + CSTR + r'\s*\);\s*out\(\s*' + CSTR + r'\s*\);\s*seenmail\s*=\s*0\s*;', "greeting + seenmail = 0")
    out.append("def txt_ehlo_pre : List UInt8 := %s\ndef txt_ehlo_tail : List UInt8 := %s\n" % (lean_str(mm.group(1)), lean_str(mm.group(2))))
    mm = grab("smtp_rset", r'out\(\s*' + CSTR + r'\s*\)', "reply")
    out.append("def txt_rset : List UInt8 := %s\n" % lean_str(mm.group(1)))
    mm = grab("smtp_quit", r'smtp_greet\(\s*' + CSTR + r'\s*\);\s*out\(\s*' + CSTR + r'\s*\);\s*flush\(\);\s*_exit\(0\);', "reply")
    out.append("def txt_quit_pre : List UInt8 := %s\ndef txt_quit_tail : List UInt8 := %s\n" % (lean_str(mm.group(1)), lean_str(mm.group(2))))
    for fn in ("smtp_mail", "smtp_rcpt"):
        outs = re.findall(r"\bout\(\s*" + CSTR + r"\s*\)", func_body(src, fn))
        if len(outs) != 1:
            raise ExtractError("qmail-smtpd.c: %s(): expected exactly one out(\"...\")" % fn)
        out.append("def txt_%s_ok : List UInt8 := %s\n" % (fn[5:], lean_str(outs[0])))
    mm = grab("smtp_data", r'out\(\s*"(354[^"]*)"\s*\)', "354 reply")
    out.append("def txt_data_go : List UInt8 := %s\n" % lean_str(mm.group(1)))
    mm = grab("acceptmessage", r'out\(\s*' + CSTR + r'\s*\);.*?out\(accept_buf\);\s*out\(\s*' + CSTR + r'\s*\);.*?out\(accept_buf\);\s*out\(\s*' + CSTR + r'\s*\);',
              "reply shape")
    out.append("def txt_accept_pre : List UInt8 := %s\ndef txt_accept_qp : List UInt8 := %s\ndef txt_accept_end : List UInt8 := %s\n" % tuple(lean_str(g) for g in mm.groups()))
    mm = grab("main", r'smtp_greet\(\s*' + CSTR + r'\s*\);\s*out\(\s*' + CSTR + r'\s*\);', "banner")
    out.append("def txt_banner_pre : List UInt8 := %s\ndef txt_banner_tail : List UInt8 := %s\n" % (lean_str(mm.group(1)), lean_str(mm.group(2))))
    out.append("\nend Nq.Gen\n")
    return {"SmtpCmds": "\n".join(out)}
