"""C18 translator: the fixed report texts and tables of spawn.c, qmail-lspawn.c, qmail-rspawn.c and the
report-reader texts of qmail-send.c  ->  lean/Nq/Gen/SpawnTexts.lean (explicit byte lists, so that the
theorems about them — first byte is a status letter, no NUL inside — are re-checked against the
current sources on every run)."""
import re
from extract import read, ExtractError, c_string_unescape, lean_bytes, define_int


def cstr(s):
    return lean_bytes(c_string_unescape(s))


def func_body(src, name, fname):
    m = re.search(r"^(?:void|int)\s+%s\s*\([^)]*\)[^{]*\{" % re.escape(name), src, re.M)
    if not m:
        raise ExtractError("%s: function %s not found" % (fname, name))
    i = m.end()
    depth = 1
    while depth and i < len(src):
        ch = src[i]
        if ch == '"':
            i += 1
            while src[i] != '"':
                i += 2 if src[i] == "\\" else 1
        elif ch == "{":
            depth += 1
        elif ch == "}":
            depth -= 1
        i += 1
    return src[m.end():i - 1]


DOCMD_ERRS = [  # (lean name, a phrase the text must contain)
    ("E_NOMEM0", "out of memory"), ("E_NEGATIVE", "delnum negative"), ("E_TOOBIG", "delnum too big"),
    ("E_INUSE", "delnum in use"), ("E_NONNUM", "nonnumerics"), ("E_TOOLONG", "too long"), ("E_TOOSHORT", "too short"),
    ("E_NOMEM1", "out of memory"), ("E_NOHOST", "host name"), ("E_OPEN", "unable to open"), ("E_FSTAT", "unable to fstat"),
    ("E_TYPE", "wrong type"), ("E_OWNER", "wrong owner"), ("E_PIPE", "create pipe"), ("E_FORK", "unable to fork"),
]


def generate(repo):
    out = ["namespace Nq.Gen.SpawnTexts\n"]
    # ---- spawn.c docmd(): the err("...") texts, in source order
    sp = read(repo, "spawn.c")
    body = func_body(sp, "docmd", "spawn.c")
    errs = re.findall(r'\berr\(\s*"((?:[^"\\]|\\.)*)"\s*\)', body)
    if len(errs) != len(DOCMD_ERRS):
        raise ExtractError("spawn.c docmd: expected %d err() texts, found %d" % (len(DOCMD_ERRS), len(errs)))
    for (name, phrase), txt in zip(DOCMD_ERRS, errs):
        if phrase not in txt:
            raise ExtractError("spawn.c docmd: err() text %r does not mention %r (source reshaped)" % (txt, phrase))
        out.append("def %s : List UInt8 := %s  -- %s" % (name, cstr(txt), txt.replace("\\n", "")))
    m = re.search(r"messid\.len\s*>\s*(\d+)", body)
    if not m:
        raise ExtractError("spawn.c docmd: messid length limit not found")
    out.append("def MESSID_MAX : Nat := %s" % m.group(1))
    m = re.search(r'char\s*\*truncmess\s*=\s*"((?:[^"\\]|\\.)*)"', sp)
    if not m:
        raise ExtractError("spawn.c: truncmess not found")
    out.append("def TRUNCMESS : List UInt8 := %s" % cstr(m.group(1)))
    m = re.search(r"if\s*\(truncreport\s*>\s*(\d+)\)", sp)
    m2 = re.search(r"truncreport\s*-\s*str_len\(truncmess\)\s*-\s*(\d+)", sp)
    if not m or not m2:
        raise ExtractError("spawn.c: truncreport logic not found")
    out.append("def TRUNC_MIN : Nat := %s" % m.group(1))
    out.append("def TRUNC_SLACK : Nat := %s" % m2.group(1))
    # ---- truncreport values
    for f, nm in (("qmail-lspawn.c", "truncreport_l"), ("qmail-rspawn.c", "truncreport_r")):
        m = re.search(r"^int\s+truncreport\s*=\s*(\d+)\s*;", read(repo, f), re.M)
        if not m:
            raise ExtractError(f + ": truncreport not found")
        out.append("def %s : Nat := %s" % (nm, m.group(1)))
    # ---- qmail-lspawn.c report(): crash text + switch table
    ls = read(repo, "qmail-lspawn.c")
    rb = func_body(ls, "report", "qmail-lspawn.c")
    m = re.search(r'wait_crashed\(wstat\)\)\s*\{\s*substdio_puts\(ss,"((?:[^"\\]|\\.)*)"\);\s*return;', rb)
    if not m:
        raise ExtractError("qmail-lspawn.c report: crash branch not found")
    out.append("def L_CRASHED : List UInt8 := %s" % cstr(m.group(1)))
    sw = re.search(r"switch\s*\(wait_exitcode\(wstat\)\)\s*\{(.*?)\n\s*\}\s*\n", rb, re.S)
    if not sw:
        raise ExtractError("qmail-lspawn.c report: switch not found")
    qlx = dict(re.findall(r"#define\s+(QLX_\w+)\s+(\d+)", read(repo, "qlx.h")))
    toks = re.findall(r'case\s+(\w+)\s*:|(default)\s*:|substdio_puts\(ss,"((?:[^"\\]|\\.)*)"\);\s*return;|substdio_put\(ss,"(.)",1\);\s*break;', sw.group(1))
    texts, letters, default, labels = [], [], None, []
    for case, dflt, text, letter in toks:
        if case:
            if case in qlx:
                labels.append(int(qlx[case]))
            elif case.isdigit():
                labels.append(int(case))
            else:
                raise ExtractError("qmail-lspawn.c report: unknown case label " + case)
        elif dflt:
            labels.append("default")
        elif text:
            if "default" in labels:
                raise ExtractError("qmail-lspawn.c report: default with fixed text not supported")
            texts += [(l, text) for l in labels]
            labels = []
        elif letter:
            for l in labels:
                if l == "default":
                    default = letter
                else:
                    letters.append((l, letter))
            labels = []
    if labels or default is None or not texts or not letters:
        raise ExtractError("qmail-lspawn.c report: switch shape not recognised")
    out.append("def lspawnTexts : List (Nat × List UInt8) := [%s]" % ", ".join("(%d, %s)" % (c, cstr(t)) for c, t in texts))
    out.append("def lspawnLetters : List (Nat × UInt8) := [%s]" % ", ".join("(%d, %d)" % (c, ord(l)) for c, l in letters))
    out.append("def lspawnDefault : UInt8 := %d" % ord(default))
    # ---- qmail-rspawn.c report(): fixed texts
    rs = read(repo, "qmail-rspawn.c")
    rb = func_body(rs, "report", "qmail-rspawn.c")
    fixed = re.findall(r'substdio_puts\(ss,"((?:[^"\\]|\\.)*)"\);\s*return;', rb)
    if len(fixed) != 4 or "crashed" not in fixed[0] or "produced no output" not in fixed[3]:
        raise ExtractError("qmail-rspawn.c report: fixed texts not recognised")
    m = re.search(r"case 0: break;\s*case (\d+): substdio_puts", rb)
    if not m:
        raise ExtractError("qmail-rspawn.c report: exit-code switch not recognised")
    # the two copies of child output: the first is a C string that starts at s+1 and ends at the NUL the loop just found;
    # the second must be bounded by the end of the child's output (commit 9e1dfcc) — an unbounded substdio_puts there reads past it
    flat = re.sub(r"\s+", "", rb)
    if "substdio_puts(ss,s+1);" not in flat:
        raise ExtractError("qmail-rspawn.c report: first copy of the child's output not recognised")
    if "substdio_put(ss,s+k+1,byte_chr(s+k+1,len-k-1,0));" not in flat or "substdio_puts(ss,s+k+1)" in flat:
        raise ExtractError("qmail-rspawn.c report: the second copy of the child's output is not bounded by len "
                           "(expected substdio_put(ss,s + k + 1,byte_chr(s + k + 1,len - k - 1,0)))")
    out.append("def R_CRASHED : List UInt8 := %s" % cstr(fixed[0]))
    out.append("def R_SOFTCODE : Nat := %s" % m.group(1))
    out.append("def R_SOFT : List UInt8 := %s" % cstr(fixed[1]))
    out.append("def R_HARD : List UInt8 := %s" % cstr(fixed[2]))
    out.append("def R_NOOUTPUT : List UInt8 := %s" % cstr(fixed[3]))
    # ---- qmail-send.c del_dochan(): the text appended to a deferral of a dying job
    qs = read(repo, "qmail-send.c")
    m = re.search(r'stralloc_cats\(&dline\[c\],"((?:[^"\\]|\\.)*)"\)', qs)
    if not m:
        raise ExtractError("qmail-send.c del_dochan: dying text not found")
    out.append("def DYINGMSG : List UInt8 := %s" % cstr(m.group(1)))
    return {"SpawnTexts": "\n".join(out) + "\n\nend Nq.Gen.SpawnTexts\n"}
