"""C19 translator: the POP3 command tables and two source facts the model depends on.

Generates Nq/Gen/Pop3Tab.lean:
  pop3dCmds / popupCmds : List (List UInt8 × String)   verb bytes -> handler, in table order
  pop3dDefault / popupDefault : String                  handler of the terminating {0, f, 0} entry
  scanSaturates : Bool      msgno()/pop3_top() read numbers with a saturating scanner (scan_ulong_sat)
                            instead of scan_ulong (which wraps modulo 2^64)
  msgnoStrict : Bool        msgno() refuses a number that is followed by anything but the end of the argument or a space
                            (`if (!len || (arg[len] && arg[len] != ' '))`) instead of ignoring what follows the digits
  retrWhole : Bool          RETR has its own handler that never applies a line limit (dotop(arg,0)) instead of sharing
                            pop3_top() with TOP (then "RETR n k" behaved as "TOP n k")
  tmpMaxAge : Nat           maildir_clean(): seconds after which an unaccessed tmp/ file is removed
"""
import re
from extract import read, ExtractError


def table(src, fname):
    m = re.search(r"struct commands pop3commands\[\]\s*=\s*\{(.*?)\}\s*;", src, re.S)
    if not m:
        raise ExtractError("%s: pop3commands[] not found" % fname)
    body = m.group(1)
    ent = re.compile(r"\{\s*(\"([a-z]+)\"|0)\s*,\s*([A-Za-z_0-9]+)\s*,\s*0\s*\}")
    rest = ent.sub("", body).replace(",", "").strip()
    if rest:
        raise ExtractError("%s: pop3commands[]: unrecognised text %r" % (fname, rest[:60]))
    cmds, default = [], None
    for e in ent.finditer(body):
        if default is not None:
            raise ExtractError("%s: pop3commands[]: entry after the terminator" % fname)
        if e.group(2):
            cmds.append((e.group(2), e.group(3)))
        else:
            default = e.group(3)
    if default is None or not cmds:
        raise ExtractError("%s: pop3commands[]: no terminator or no commands" % fname)
    if len(set(v for v, _ in cmds)) != len(cmds):
        raise ExtractError("%s: pop3commands[]: duplicate verb" % fname)
    return cmds, default


def lean_table(name, cmds):
    return "def %s : List (List UInt8 × String) :=\n  [%s]\n" % (
        name, ",\n   ".join("([%s], \"%s\")" % (", ".join(str(b) for b in v.encode()), h) for v, h in cmds))


def generate(repo):
    p3 = read(repo, "qmail-pop3d.c")
    pu = read(repo, "qmail-popup.c")
    c3, d3 = table(p3, "qmail-pop3d.c")
    cu, du = table(pu, "qmail-popup.c")

    m = re.search(r"\nint msgno\(arg\) char \*arg;\n\{(.*?)\n\}\n", p3, re.S)
    if not m:
        raise ExtractError("qmail-pop3d.c: msgno() not found")
    handlers = dict(c3)
    # the handler of RETR/TOP: either one shared pop3_top(arg), or dotop(arg,flagtop) with two one-line wrappers
    t = re.search(r"\nvoid pop3_top\(arg\) char \*arg;\n\{(.*?)\n\}\n", p3, re.S)
    d = re.search(r"\nvoid dotop\(arg,flagtop\) char \*arg; int flagtop;\n\{(.*?)\n\}\n", p3, re.S)
    if t and not d:
        body = t.group(1)
        if handlers.get("retr") != "pop3_top" or handlers.get("top") != "pop3_top":
            raise ExtractError("qmail-pop3d.c: RETR/TOP handlers not recognised: %r %r" % (handlers.get("retr"), handlers.get("top")))
        if not re.search(r"if \(scan_ulong(_sat)?\(arg,&limit\)\) \+\+limit; else limit = 0;", body):
            raise ExtractError("qmail-pop3d.c: pop3_top(): limit computation not recognised")
        retr_whole = False
    elif d and not t:
        body = d.group(1)
        if handlers.get("retr") != "pop3_retr" or handlers.get("top") != "pop3_top" \
                or not re.search(r"\nvoid pop3_retr\(arg\) char \*arg; \{ dotop\(arg,0\); \}\n", p3) \
                or not re.search(r"\nvoid pop3_top\(arg\) char \*arg; \{ dotop\(arg,1\); \}\n", p3):
            raise ExtractError("qmail-pop3d.c: RETR/TOP handlers not recognised: %r %r" % (handlers.get("retr"), handlers.get("top")))
        if not re.search(r"if \(flagtop && scan_ulong(_sat)?\(arg,&limit\)\) \+\+limit; else limit = 0;", body):
            raise ExtractError("qmail-pop3d.c: dotop(): limit computation not recognised")
        retr_whole = True
    else:
        raise ExtractError("qmail-pop3d.c: pop3_top()/dotop() not found")
    mb = m.group(1)
    if re.search(r"\n  if \(!scan_ulong(_sat)?\(arg,&u\)\) \{ err_syntax\(\); return -1; \}\n", mb):
        strict = False
    elif re.search(r"\n  len = scan_ulong(_sat)?\(arg,&u\);\n  if \(!len \|\| \(arg\[len\] && arg\[len\] != ' '\)\) \{ err_syntax\(\); return -1; \}\n", mb):
        strict = True
    else:
        raise ExtractError("qmail-pop3d.c: msgno(): syntax test not recognised")
    calls = re.findall(r"\b(scan_[a-z0-9_]+)\s*\(", mb + body)
    if len(calls) != 3 or len(set(calls)) != 1 or calls[0] not in ("scan_ulong", "scan_ulong_sat"):
        raise ExtractError("qmail-pop3d.c: msgno()/pop3_top(): number scanning not recognised: %r" % calls)
    sat = calls[0] == "scan_ulong_sat"
    if sat:
        s = re.search(r"unsigned int scan_ulong_sat\(s,u\).*?\n\{(.*?)\n\}\n", p3, re.S)
        if not s or "if (result > (ULONG_MAX - c) / 10) result = ULONG_MAX;" not in s.group(1) \
                or "else result = result * 10 + c;" not in s.group(1):
            raise ExtractError("qmail-pop3d.c: scan_ulong_sat() does not have the recognised saturating shape")

    md = read(repo, "maildir.c")
    a = re.search(r"if \(time > st\.st_atime \+ (\d+)\)\s*\n\s*unlink\(tmpname->s\);", md)
    if not a:
        raise ExtractError("maildir.c: maildir_clean(): age test not recognised")

    out = "namespace Nq.Gen.Pop3Tab\n\n"
    out += lean_table("pop3dCmds", c3) + "def pop3dDefault : String := \"%s\"\n\n" % d3
    out += lean_table("popupCmds", cu) + "def popupDefault : String := \"%s\"\n\n" % du
    out += "def scanSaturates : Bool := %s\n" % ("true" if sat else "false")
    out += "def msgnoStrict : Bool := %s\n" % ("true" if strict else "false")
    out += "def retrWhole : Bool := %s\n" % ("true" if retr_whole else "false")
    out += "def tmpMaxAge : Nat := %s\n" % a.group(1)
    out += "\nend Nq.Gen.Pop3Tab\n"
    return {"Pop3Tab": out}
