"""C13 translator: qmail-local.c `mailprogram` exit-code switch, `maildir` exit-code switch, the
fixed diagnostic texts of the delivery agent, and quote.c `ok[128]` -> lean/Nq/Gen/LocalExit.lean."""
from extract import read, ExtractError, conf_first_line
import re


def _func_body(src, name):
    m = re.search(r"^void\s+%s\s*\([^)]*\)\s*(?:char\s*\*\s*\w+\s*;\s*)?\{" % re.escape(name), src, re.M)
    if not m:
        raise ExtractError("qmail-local.c: function %s not found" % name)
    i = m.end()
    depth = 1
    while depth and i < len(src):
        if src[i] == "{":
            depth += 1
        elif src[i] == "}":
            depth -= 1
        i += 1
    return src[m.end():i - 1]


def _switch_on_exitcode(body, fname):
    m = re.search(r"switch\s*\(\s*wait_exitcode\s*\(\s*wstat\s*\)\s*\)\s*\{(.*?)\n\s*\}", body, re.S)
    if not m:
        raise ExtractError("qmail-local.c: %s: switch(wait_exitcode(wstat)) not found" % fname)
    return m.group(1)


def _prog_action(txt, where):
    t = re.sub(r"\s+", "", txt)
    if t == "break;":
        return ".ok"
    if t == "flag99=1;break;":
        return ".stop99"
    m = re.fullmatch(r"_exit\((\d+)\);", t)
    if m:
        return "(.exit %d)" % int(m.group(1))
    raise ExtractError("qmail-local.c: mailprogram: unrecognised action %r for %s" % (txt.strip(), where))


def _parse_prog_switch(sw):
    """[(labels, action)] in source order; fall-through labels share the next action"""
    toks = re.split(r"(case\s+\d+\s*:|default\s*:)", sw)
    if toks[0].strip():
        raise ExtractError("qmail-local.c: mailprogram: text before first case label")
    cases, default, pending = [], None, []
    for k in range(1, len(toks), 2):
        lab, act = toks[k], toks[k + 1]
        if lab.startswith("default"):
            pending.append("default")
        else:
            pending.append(int(re.search(r"\d+", lab).group(0)))
        if act.strip():
            a = _prog_action(act, pending)
            for p in pending:
                if p == "default":
                    default = a
                else:
                    cases.append((p, a))
            pending = []
    if pending:
        raise ExtractError("qmail-local.c: mailprogram: labels without action at end of switch")
    if default is None:
        raise ExtractError("qmail-local.c: mailprogram: no default")
    if len(set(c for c, _ in cases)) != len(cases):
        raise ExtractError("qmail-local.c: mailprogram: duplicate case")
    return cases, default


def _parse_maildir_switch(sw):
    cases, default = [], None
    for m in re.finditer(r"(case\s+(\d+)|default)\s*:\s*(break\s*;|strerr_die1x\s*\(\s*(\d+)\s*,\s*\"([^\"]*)\"\s*\)\s*;)", sw):
        if m.group(3).startswith("break"):
            act = "none"
        else:
            act = "(some (%d, \"%s\"))" % (int(m.group(4)), m.group(5))
        if m.group(1) == "default":
            default = act
        else:
            cases.append((int(m.group(2)), act))
    n_labels = len(re.findall(r"case\s+\d+\s*:|default\s*:", sw))
    if n_labels != len(cases) + (1 if default else 0) or default is None:
        raise ExtractError("qmail-local.c: maildir: exit-code switch has an unrecognised shape")
    return cases, default


def _die_text(src, pattern, what):
    m = re.search(pattern, src, re.S)
    if not m:
        raise ExtractError("qmail-local.c: %s not found" % what)
    return int(m.group(1)), m.group(2)


def generate(repo):
    src = read(repo, "qmail-local.c")
    pcases, pdefault = _parse_prog_switch(_switch_on_exitcode(_func_body(src, "mailprogram"), "mailprogram"))
    mcases, mdefault = _parse_maildir_switch(_switch_on_exitcode(_func_body(src, "maildir"), "maildir"))

    texts = {}
    for key, pat in [
        ("homeWritable", r"if\s*\(\s*st\.st_mode\s*&\s*auto_patrn\s*\)\s*strerr_die1x\((\d+),\"(Uh-oh: home[^\"]*)\"\)"),
        ("homeSticky", r"if\s*\(\s*st\.st_mode\s*&\s*01000\s*\)\s*\{\s*if\s*\(\s*flagdoit\s*\)\s*strerr_die1x\((\d+),\"([^\"]*)\"\)"),
        ("qmailWritable", r"if\s*\(\s*st\.st_mode\s*&\s*auto_patrn\s*\)\s*strerr_die1x\((\d+),\"(Uh-oh: \.qmail file[^\"]*)\"\)"),
        ("looping", r"strerr_die1x\((\d+),\"(This message is looping[^\"]*)\"\)"),
        ("noMailbox", r"if\s*\(\s*fd\s*==\s*-1\s*\)\s*if\s*\(\s*\*dash\s*\)\s*strerr_die1x\((\d+),\"([^\"]*)\"\)"),
        ("blankFirst", r"case\s+0\s*:[^\n]*\n\s*if\s*\(i\)\s*break;\s*strerr_die1x\((\d+),\"([^\"]*)\"\)"),
        ("xbitFile", r"if\s*\(\s*flagforwardonly\s*\)\s*strerr_die1x\((\d+),\"(Uh-oh: \.qmail has file[^\"]*)\"\)"),
        ("xbitProg", r"if\s*\(\s*flagforwardonly\s*\)\s*strerr_die1x\((\d+),\"(Uh-oh: \.qmail has prog[^\"]*)\"\)"),
        ("childCrashed", r"temp_childcrashed\(\)\s*\{\s*strerr_die1x\((\d+),\"([^\"]*)\"\)"),
    ]:
        texts[key] = _die_text(src, pat, key)
    m = re.search(r"if\s*\(\s*st\.st_mode\s*&\s*(0[0-7]+)\s*\)\s*\{\s*if\s*\(\s*flagdoit\s*\)", src)
    if not m:
        raise ExtractError("qmail-local.c: sticky-bit test not found")
    sticky = int(m.group(1), 8)
    m = re.search(r"\*cutable\s*=\s*!!\s*\(\s*st\.st_mode\s*&\s*(0[0-7]+)\s*\)", src)
    if not m:
        raise ExtractError("qmail-local.c: cutable x-bit test not found")
    xbit = int(m.group(1), 8)
    m = re.search(r"strerr_die3x\(\s*\*qqx\s*==\s*'D'\s*\?\s*(\d+)\s*:\s*(\d+)\s*,", src)
    if not m:
        raise ExtractError("qmail-local.c: mailforward verdict not found")
    fwd_hard, fwd_soft = int(m.group(1)), int(m.group(2))
    patrn = int(conf_first_line(repo, "conf-patrn"), 8)

    q = read(repo, "quote.c")
    m = re.search(r"static\s+char\s+ok\s*\[\s*128\s*\]\s*=\s*\{([^}]*)\}", q)
    if not m:
        raise ExtractError("quote.c: ok[128] not found")
    ok = [int(x) for x in re.findall(r"\d+", m.group(1))]
    if len(ok) != 128:
        raise ExtractError("quote.c: ok[] does not have 128 entries")

    out = ["namespace Nq.Gen.LocalExit\n",
           "/-- what `mailprogram` does with the exit code of the command -/",
           "inductive PClass | ok | stop99 | exit (code : Nat)\n  deriving DecidableEq, Repr\n",
           "def progCases : List (Nat × PClass) := [" + ", ".join("(%d, %s)" % (c, a.strip("()") if a.startswith(".") else a) for c, a in pcases) + "]",
           "def progDefault : PClass := " + pdefault.strip("()"),
           "\n/-- what `maildir` does with the exit code of its child: `none` = success -/",
           "def maildirCases : List (Nat × Option (Nat × String)) := [" + ", ".join("(%d, %s)" % (c, a) for c, a in mcases) + "]",
           "def maildirDefault : Option (Nat × String) := " + mdefault.strip("()") if mdefault == "none" else
           "def maildirDefault : Option (Nat × String) := " + mdefault[1:-1],
           ""]
    for k, (code, txt) in sorted(texts.items()):
        out.append("def %sCode : Nat := %d" % (k, code))
        out.append("def %sText : String := \"%s\"" % (k, txt))
    out += ["def stickyBit : Nat := %d" % sticky, "def xBit : Nat := %d" % xbit, "def patrn : Nat := %d" % patrn,
            "def fwdHardCode : Nat := %d" % fwd_hard, "def fwdSoftCode : Nat := %d" % fwd_soft,
            "\n/-- quote.c `ok[128]` -/",
            "def quoteOk : List Nat := [" + ", ".join(str(x) for x in ok) + "]",
            "\nend Nq.Gen.LocalExit\n"]
    return {"LocalExit": "\n".join(out)}
