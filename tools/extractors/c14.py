"""C14 translator: which lookups qmail-send.c `stripvdomprepend()` performs before its two loops
-> lean/Nq/Gen/StripVdom.lean.

One fact is read from the source: does the function look the WHOLE recipient up in `mapvdoms` and
return it unchanged on an empty prepend (an exception entry `user@domain:`), between the `locals`
test and the virtual-user loop?  That statement is the repair of finding C14-strip-exception
(notes/C14-fix-3.diff); the model `Nq.Bounce.stripvdom` is `stripvdomW stripWholeFirst`, every
theorem is proved for both values, and the oracle is the same (strict) for both.  Everything else
about the function is tied to the model by the differential harness, not by this reader."""
import re
from extract import read, ExtractError


def _body(src):
    m = re.search(r"^char\s*\*\s*stripvdomprepend\s*\([^)]*\)[^{]*\{", src, re.M)
    if not m:
        raise ExtractError("qmail-send.c: function stripvdomprepend not found")
    i, depth = m.end(), 1
    while depth and i < len(src):
        if src[i] == "{":
            depth += 1
        elif src[i] == "}":
            depth -= 1
        i += 1
    if depth:
        raise ExtractError("qmail-send.c: stripvdomprepend: unbalanced braces")
    return src[m.end():i - 1]


WHOLE = "if((prepend=constmap(&mapvdoms,recip,str_len(recip))))if(!*prepend)returnrecip;"
LOCALS = "if(constmap(&maplocals,domain,domainlen))returnrecip;"
USERLOOP = "for(i=0;recip[i];++i)"


def generate(repo):
    body = _body(read(repo, "qmail-send.c"))
    t = re.sub(r"/\*.*?\*/", "", body, flags=re.S)
    t = re.sub(r"\s+", "", t)
    whole = False
    k = t.find(WHOLE)
    if k >= 0:
        lo, us = t.find(LOCALS), t.find(USERLOOP)
        # counted only where the repair puts it: after the locals test (if any), before the virtual-user loop (if any)
        whole = (lo < 0 or lo < k) and (us < 0 or k < us)
    src = ("namespace Nq.Gen\n\n"
           "/-- `stripvdomprepend()` returns a recipient that has an exception entry (`recipient:` with an empty\n"
           "prepend) of its own unchanged, before the virtual-user and domain loops -/\n"
           "def stripWholeFirst : Bool := %s\n\nend Nq.Gen\n" % ("true" if whole else "false"))
    return {"StripVdom": src}
