"""C17 translator: quote.c ok[128], token822.c atomok()/atomcheck(), the TOKEN822_* numbering,
hfield.c hname[] and qmail-inject.c LINELEN  ->  Nq/Gen/QuoteOk.lean, AtomOk.lean, Hfield.lean."""
import re
from extract import read, ExtractError, c_string_unescape, lean_bytes


def _chars(txt):
    """all C character literals in txt, as byte values"""
    res = []
    for m in re.finditer(r"'((?:\\.|[^'\\])+)'", txt):
        b = c_string_unescape(m.group(1))
        if len(b) != 1:
            raise ExtractError("character literal %r is not one byte" % m.group(0))
        res.append(b[0])
    return res


def gen_quote(repo):
    src = read(repo, "quote.c")
    m = re.search(r"static\s+char\s+ok\s*\[\s*128\s*\]\s*=\s*\{([^}]*)\}", src)
    if not m:
        raise ExtractError("quote.c: ok[128] table not found")
    vals = [int(x) for x in re.findall(r"-?\d+", m.group(1))]
    if len(vals) != 128:
        raise ExtractError("quote.c: ok[] has %d entries, expected 128" % len(vals))
    # the escaping set of doit()
    d = re.search(r"static\s+int\s+doit\s*\(.*?\n\}", src, re.S)
    if not d:
        raise ExtractError("quote.c: doit() not found")
    mm = re.search(r"if\s*\(((?:\s*\(ch\s*==\s*'(?:\\.|[^'\\])'\)\s*\|\|)*\s*\(ch\s*==\s*'(?:\\.|[^'\\])'\))\s*\)\s*saout->s\[j\+\+\]\s*=\s*'\\\\'\s*;", d.group(0))
    if not mm:
        raise ExtractError("quote.c: doit() escaping condition not recognised")
    esc = _chars(mm.group(1))
    # quote_need: shape check only (the model transcribes it; the harness ties it)
    qn = re.search(r"int\s+quote_need\s*\(.*?\n\}", src, re.S)
    if not qn or "uch >= 128" not in qn.group(0) or "!ok[uch]" not in qn.group(0):
        raise ExtractError("quote.c: quote_need() shape not recognised")
    body = ("namespace Nq.Gen\n\n/-- quote.c `ok[128]` -/\ndef quoteOk : List Nat := %s\n\n"
            "/-- bytes that quote.c `doit()` precedes by a backslash -/\ndef quoteEsc : List UInt8 := %s\n\nend Nq.Gen\n"
            % (lean_bytes(vals), lean_bytes(esc)))
    return body


def gen_atom(repo):
    src = read(repo, "token822.c")
    m = re.search(r"static\s+int\s+atomok\s*\(ch\)\s*char\s+ch;\s*\{\s*switch\s*\(ch\)\s*\{((?:\s*case\s+'(?:\\.|[^'\\])'\s*:)+)\s*return\s+0;\s*\}\s*return\s+1;\s*\}", src)
    if not m:
        raise ExtractError("token822.c: atomok() shape not recognised")
    notok = _chars(m.group(1))
    m = re.search(r"if\s*\(\(ch\s*<\s*(\d+)\)\s*\|\|\s*\(ch\s*>\s*(\d+)\)((?:\s*\|\|\s*\(ch\s*==\s*'(?:\\.|[^'\\])'\))*)\)\s*\{\s*t->type\s*=\s*TOKEN822_QUOTE;", src)
    if not m:
        raise ExtractError("token822.c: atomcheck() shape not recognised")
    lo, hi, bad = int(m.group(1)), int(m.group(2)), _chars(m.group(3))
    hdr = read(repo, "token822.h")
    names = ["ATOM", "QUOTE", "LITERAL", "COMMENT", "LEFT", "RIGHT", "AT", "COMMA", "SEMI", "COLON", "DOT"]
    nums = []
    for n in names:
        mm = re.search(r"^#define\s+TOKEN822_%s\s+(\d+)" % n, hdr, re.M)
        if not mm:
            raise ExtractError("token822.h: TOKEN822_%s not found" % n)
        nums.append(int(mm.group(1)))
    if sorted(nums) != list(range(1, 12)):
        raise ExtractError("token822.h: token numbers are not a permutation of 1..11")
    # the single-character tokens of token822_parse (second pass)
    sp = re.findall(r"case\s+'((?:\\.|[^'\\]))'\s*:\s*t->type\s*=\s*TOKEN822_([A-Z]+)\s*;\s*\+\+t;\s*break;", src)
    if len(sp) != 7:
        raise ExtractError("token822.c: expected 7 single-character token cases, found %d" % len(sp))
    specials = [(c_string_unescape(c)[0], n) for c, n in sp]
    # the escaping set of token822_unparse (second pass)
    mm = re.search(r"switch\s*\(ch\s*=\s*t->s\[j\]\)\s*\{((?:\s*case\s+'(?:\\.|[^'\\])'\s*:)+)\s*\*s\+\+\s*=\s*'\\\\'\s*;", src)
    if not mm:
        raise ExtractError("token822.c: token822_unparse escaping switch not recognised")
    uesc = _chars(mm.group(1))
    inj = read(repo, "qmail-inject.c")
    ml = re.search(r"^#define\s+LINELEN\s+(\d+)", inj, re.M)
    if not ml:
        raise ExtractError("qmail-inject.c: LINELEN not found")
    body = "namespace Nq.Gen\n\n"
    body += "/-- bytes for which token822.c `atomok()` returns 0 -/\ndef atomNotOk : List UInt8 := %s\n" % lean_bytes(notok)
    body += "/-- token822.c `atomcheck()`: an atom containing a byte < lo, > hi or in `atomcheckBad` becomes a quoted string -/\n"
    body += "def atomcheckLo : Nat := %d\ndef atomcheckHi : Nat := %d\ndef atomcheckBad : List UInt8 := %s\n" % (lo, hi, lean_bytes(bad))
    body += "/-- bytes that `token822_unparse` precedes by a backslash -/\ndef unparseEsc : List UInt8 := %s\n" % lean_bytes(uesc)
    body += "/-- single-character tokens of `token822_parse`: (byte, TOKEN822_* number) -/\n"
    body += "def specials : List (UInt8 × Nat) := [%s]\n" % ", ".join("(%d, %d)" % (c, nums[names.index(n)]) for c, n in specials)
    for n, v in zip(names, nums):
        body += "def T_%s : Nat := %d\n" % (n, v)
    body += "/-- qmail-inject.c LINELEN -/\ndef LINELEN : Nat := %d\n" % int(ml.group(1))
    body += "\nend Nq.Gen\n"
    return body


def gen_hfield(repo):
    src = read(repo, "hfield.c")
    m = re.search(r"static\s+char\s*\*\s*\(\s*hname\s*\[\s*\]\s*\)\s*=\s*\{(.*?)\}\s*;", src, re.S)
    if not m:
        raise ExtractError("hfield.c: hname[] not found")
    items = re.findall(r'"((?:\\.|[^"\\])*)"|\b(0)\b', m.group(1))
    names = [a for a, z in items if not z]
    if not items or items[-1][1] != "0" or any(z for _, z in items[:-1]):
        raise ExtractError("hfield.c: hname[] is not a 0-terminated list of strings")
    hdr = read(repo, "hfield.h")
    defs = dict((k, int(v)) for k, v in re.findall(r"^#define\s+(H_[A-Z_]+)\s+(\d+)", hdr, re.M))
    if defs.get("H_NUM") != len(names):
        raise ExtractError("hfield.h: H_NUM does not match the length of hname[]")
    body = "namespace Nq.Gen\n\n/-- hfield.c `hname[]` (index = H_* number; entry 0 is the placeholder) -/\n"
    body += "def hname : List (List UInt8) := [\n  %s]\n\n" % ",\n  ".join(lean_bytes(c_string_unescape(n)) for n in names)
    for k, v in sorted(defs.items(), key=lambda kv: kv[1]):
        body += "def %s : Nat := %d\n" % (k, v)
    body += "\nend Nq.Gen\n"
    return body


def generate(repo):
    return {"QuoteOk": gen_quote(repo), "AtomOk": gen_atom(repo), "Hfield": gen_hfield(repo)}
