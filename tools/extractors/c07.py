"""C07 translator: received.c issafe() -> Gen/Safe.lean ; qmail.c qmail_close() switch -> Gen/QQClose.lean ;
buffer sizes / limits used by the C07 models -> Gen/C07Consts.lean."""
import re
from extract import read, ExtractError, lean_bytes, c_string_unescape, define_int


def _strip_comments(s):
    return re.sub(r"/\*.*?\*/", " ", s, flags=re.S)


def _char(tok):
    b = c_string_unescape(tok)
    if len(b) != 1:
        raise ExtractError("issafe: unexpected character literal '%s'" % tok)
    return b[0]


def gen_safe(repo):
    src = _strip_comments(read(repo, "received.c"))
    m = re.search(r"static\s+int\s+issafe\s*\(\s*ch\s*\)\s*char\s+ch\s*;\s*\{(.*?)\n\}", src, re.S)
    if not m:
        raise ExtractError("received.c: issafe() not found in the expected K&R shape")
    safe = set()
    stmts = [x.strip() for x in m.group(1).split(";") if x.strip()]
    if not stmts or stmts[-1] != "return 0":
        raise ExtractError("received.c: issafe() does not end in 'return 0'")
    for st in stmts[:-1]:
        a = re.fullmatch(r"if\s*\(\s*ch\s*==\s*'((?:\\.|[^'\\])+)'\s*\)\s*return\s+1", st)
        b = re.fullmatch(r"if\s*\(\s*\(\s*ch\s*>=\s*'((?:\\.|[^'\\])+)'\s*\)\s*&&\s*\(\s*ch\s*<=\s*'((?:\\.|[^'\\])+)'\s*\)\s*\)\s*return\s+1", st)
        if a:
            safe.add(_char(a.group(1)))
        elif b:
            lo, hi = _char(b.group(1)), _char(b.group(2))
            if lo > 127 or hi > 127:
                raise ExtractError("issafe: range beyond ASCII (char is signed)")
            safe.update(range(lo, hi + 1))
        else:
            raise ExtractError("received.c: issafe(): statement not understood: " + st)
    # safeput must replace by '?' exactly
    if not re.search(r"if\s*\(\s*!issafe\(ch\)\s*\)\s*ch\s*=\s*'\?'\s*;\s*qmail_put\(qqt,&ch,1\)", src):
        raise ExtractError("received.c: safeput() shape not recognised")
    body = ("namespace Nq.Gen.Safe\n\n/-- bytes for which received.c issafe() returns 1 -/\n"
            "def safeList : List Nat := [%s]\n\nend Nq.Gen.Safe\n" % ", ".join(str(x) for x in sorted(safe)))
    return body


def gen_qqclose(repo):
    src = _strip_comments(read(repo, "qmail.c"))
    m = re.search(r"char\s*\*\s*qmail_close\s*\(qq\)(.*?)\n\}", src, re.S)
    if not m:
        raise ExtractError("qmail.c: qmail_close() not found")
    fn = m.group(1)
    for need, what in ((r'qmail_put\(qq,"",1\);\s*if\s*\(!qq->flagerr\)\s*if\s*\(substdio_flush\(&qq->ss\)\s*==\s*-1\)\s*qq->flagerr\s*=\s*1;', "terminator+flush prologue"),
                       (r'if\s*\(wait_pid\(&wstat,qq->pid\)\s*!=\s*qq->pid\)\s*return\s*"(Z[^"]*)";', "waitpid surprise"),
                       (r'if\s*\(wait_crashed\(wstat\)\)\s*return\s*"(Z[^"]*)";', "crash verdict")):
        if not re.search(need, fn):
            raise ExtractError("qmail.c: qmail_close(): %s not in the expected shape" % what)
    crashed = re.search(r'if\s*\(wait_crashed\(wstat\)\)\s*return\s*"([^"]*)";', fn).group(1)
    sw = re.search(r"switch\s*\(\s*exitcode\s*\)\s*\{(.*)\}\s*$", fn, re.S)
    if not sw:
        raise ExtractError("qmail.c: switch(exitcode) not found")
    body = sw.group(1)
    dm = re.search(r"default\s*:(.*)$", body, re.S)
    if not dm:
        raise ExtractError("qmail.c: switch has no default")
    cases_txt, default_txt = body[:dm.start()], dm.group(1)
    table, pending, zero_guarded = [], [], None
    pos = 0
    tok = re.compile(r'\s*(?:case\s+(\d+)\s*:|if\s*\(\s*!qq->flagerr\s*\)\s*return\s*""\s*;|return\s*"((?:[^"\\]|\\.)*)"\s*;)')
    while pos < len(cases_txt):
        if not cases_txt[pos:].strip():
            break
        t = tok.match(cases_txt, pos)
        if not t:
            raise ExtractError("qmail.c: switch(exitcode): cannot parse near: " + cases_txt[pos:pos + 60].strip())
        pos = t.end()
        if t.group(1) is not None:
            pending.append(int(t.group(1)))
        elif t.group(2) is not None:
            if not pending:
                raise ExtractError("qmail.c: return without case label")
            s = c_string_unescape(t.group(2))
            if 0 in pending and zero_guarded is None:
                # "case 0: return <string>" : success is not guarded by flagerr
                if s == b"":
                    zero_guarded = False
                    pending.remove(0)
                    if pending:
                        raise ExtractError("qmail.c: other cases share the unguarded case 0")
                    continue
                raise ExtractError("qmail.c: case 0 does not return \"\"")
            for cde in pending:
                table.append((cde, s))
            pending = []
        else:  # the guarded success return
            if pending != [0]:
                raise ExtractError("qmail.c: 'if (!qq->flagerr) return \"\"' not directly under case 0")
            zero_guarded = True   # case 0 stays pending: falls through to the next return
    if pending:
        raise ExtractError("qmail.c: case labels fall into default")
    if zero_guarded is None:
        raise ExtractError("qmail.c: no case 0 in switch(exitcode)")
    d = re.fullmatch(r'\s*if\s*\(\s*exitcode\s*==\s*(\d+)\s*&&\s*errlen\s*>\s*(\d+)\s*\)\s*return\s+errstr\s*;\s*'
                     r'if\s*\(\s*\(\s*exitcode\s*>=\s*(\d+)\s*\)\s*&&\s*\(\s*exitcode\s*<=\s*(\d+)\s*\)\s*\)\s*return\s*"((?:[^"\\]|\\.)*)"\s*;\s*'
                     r'return\s*"((?:[^"\\]|\\.)*)"\s*;\s*', default_txt)
    if not d:
        raise ExtractError("qmail.c: default branch of switch(exitcode) not in the expected shape")
    em = re.search(r"while\s*\(substdio_get\(&qq->ss,s\+len,1\)\s*>\s*0\s*&&\s*len\s*<\s*(\d+)\)", src)
    if not em:
        raise ExtractError("qmail.c: qmail_errstr() loop not recognised")
    seen = set()
    for cde, _ in table:
        if cde in seen:
            raise ExtractError("duplicate case %d" % cde)
        seen.add(cde)
    rows = ",\n  ".join("(%d, %s)" % (cde, lean_bytes(s)) for cde, s in table)
    out = ("namespace Nq.Gen.QQClose\n\n"
           "/-- explicit `case` labels of qmail_close()'s switch with the string each one returns (fall-through resolved);\n"
           "    the entry for 0 is what `case 0` falls through to when `flagerr` is set -/\n"
           "def table : List (Nat × List UInt8) := [\n  %s]\n\n" % rows +
           "/-- `case 0: if (!qq->flagerr) return \"\";` -/\ndef zeroGuarded : Bool := %s\n" % ("true" if zero_guarded else "false") +
           "def customCode : Nat := %s\ndef customMinLen : Nat := %s\ndef permLo : Nat := %s\ndef permHi : Nat := %s\n" % d.group(1, 2, 3, 4) +
           "def permText : List UInt8 := %s\ndef tempText : List UInt8 := %s\n" % (lean_bytes(c_string_unescape(d.group(5))), lean_bytes(c_string_unescape(d.group(6)))) +
           "def crashedText : List UInt8 := %s\ndef errMax : Nat := %s\n\nend Nq.Gen.QQClose\n" % (lean_bytes(c_string_unescape(crashed)), em.group(1)))
    return out


def gen_consts(repo):
    c = {}
    q = read(repo, "qmail.h")
    m = re.search(r"struct\s+qmail\s*\{.*?char\s+buf\s*\[\s*(\d+)\s*\]\s*;", q, re.S)
    if not m:
        raise ExtractError("qmail.h: struct qmail buf[] not found")
    c["qqBuf"] = int(m.group(1))
    c["substdioOutsize"] = define_int(repo, "substdio.h", "SUBSTDIO_OUTSIZE")
    t = read(repo, "qmail-qmtpd.c")
    for name, pat in (("qmtpInBuf", r"char\s+ssinbuf\s*\[\s*(\d+)\s*\]"), ("qmtpOutBuf", r"char\s+ssoutbuf\s*\[\s*(\d+)\s*\]"),
                      ("qmtpBuf", r"^char\s+buf\s*\[\s*(\d+)\s*\]"), ("qmtpLenMax", r"if\s*\(len\s*>\s*(\d+)\)\s*resources\(\)")):
        m = re.search(pat, t, re.M)
        if not m:
            raise ExtractError("qmail-qmtpd.c: %s not found" % name)
        c[name] = int(m.group(1))
    lim = set(re.findall(r"if\s*\(len(?:\s*\+\s*relayclientlen)?\s*>=\s*(\d+)\)", t))
    if len(lim) != 1:
        raise ExtractError("qmail-qmtpd.c: address length limits not uniform: %s" % sorted(lim))
    c["qmtpAddrMax"] = int(lim.pop())
    # the inner length loop of the recipient list: is there a digit check (as in getlen) or not?
    m = re.search(r"if\s*\(!biglen\)\s*badproto\(\);\s*substdio_get\(&ssin,&ch,1\);\s*--biglen;\s*if\s*\(ch\s*==\s*':'\)\s*break;\s*"
                  r"if\s*\(len\s*>\s*(\d+)\)\s*resources\(\);\s*(if\s*\(\s*ch\s*<\s*'0'\s*\|\|\s*ch\s*>\s*'9'\s*\)\s*badproto\(\);\s*)?"
                  r"len\s*=\s*10\s*\*\s*len\s*\+\s*\(ch\s*-\s*'0'\);", _strip_comments(t))
    if not m:
        raise ExtractError("qmail-qmtpd.c: inner recipient length loop not in the expected shape")
    if int(m.group(1)) != c["qmtpLenMax"]:
        raise ExtractError("qmail-qmtpd.c: different length limits in getlen() and the recipient loop")
    c["qmtpRcptDigitCheck"] = 1 if m.group(2) else 0
    p = read(repo, "qmail-qmqpd.c")
    for name, pat in (("qmqpBuf", r"^char\s+buf\s*\[\s*(\d+)\s*\]"), ("qmqpAddrMax", r"if\s*\(len\s*>=\s*(\d+)\)"),
                      ("qmqpLenMax", r"if\s*\(len\s*>\s*(\d+)\)\s*resources\(\)"), ("qmqpOuterDigits", r"unsigned\s+long\s+bytesleft\s*=\s*(\d+)\s*;")):
        m = re.search(pat, p, re.M)
        if not m:
            raise ExtractError("qmail-qmqpd.c: %s not found" % name)
        c[name] = int(m.group(1))
    s = read(repo, "qmail-smtpd.c")
    m = re.search(r"if\s*\(addr\.len\s*>\s*(\d+)\)\s*return\s+0", s)
    if not m:
        raise ExtractError("qmail-smtpd.c: addr.len limit not found")
    c["smtpAddrMax"] = int(m.group(1))
    m = re.search(r"char\s+ssoutbuf\s*\[\s*(\d+)\s*\]", s)
    if not m:
        raise ExtractError("qmail-smtpd.c: ssoutbuf not found")
    c["smtpOutBuf"] = int(m.group(1))
    return "namespace Nq.Gen.C07\n\n" + "".join("def %s : Nat := %d\n" % kv for kv in sorted(c.items())) + "\nend Nq.Gen.C07\n"


def generate(repo):
    return {"Safe": gen_safe(repo), "QQClose": gen_qqclose(repo), "C07Consts": gen_consts(repo)}
