"""C20 translator: fixed-buffer sizes and the guards that protect them, plus the presence of the overflow /
bounds checks the C20 theorems are stated about.  Generates Nq/Gen/C20Bounds.lean.

Unlike the other extractors this one never raises: a fact whose source shape is not recognised is given a
value that makes the corresponding theorem of Nq/Props/C20.lean false (buffer size 0 / guard 2^32-1 / flag
false) and its name is listed in `unrecognised`, whose emptiness is itself a theorem of Props/C20.lean.  So a
reshaped source breaks only C20's obligations, not the other properties' builds."""
import os, re

BIG = 4294967295


def generate(repo):
    un = []
    cache = {}

    def src(fname):
        if fname not in cache:
            p = os.path.join(repo, fname)
            cache[fname] = open(p, encoding="latin-1").read() if os.path.exists(p) else ""
        return cache[fname]

    def num(name, fname, pattern, bad, flags=re.S):
        m = re.search(pattern, src(fname), flags)
        if not m:
            un.append(name)
            return bad
        return int(m.group(1))

    def flag(name, fname, pattern, count=1, flags=re.S):
        ok = len(re.findall(pattern, src(fname), flags)) == count
        if not ok:
            un.append(name)
        return ok

    ws = r"\s*"
    f = {}
    # qmail-qmqpd.c getbuf()
    f["qmqpdBuf"] = num("qmqpdBuf", "qmail-qmqpd.c", r"\nchar buf\[(\d+)\];", 0)
    f["qmqpdGuard"] = num(
        "qmqpdGuard", "qmail-qmqpd.c",
        r"len = getlen\(\);" + ws + r"if \(len >= (\d+)\) \{" + ws + r"for \(i = 0;i < len;\+\+i\) getbyte\(buf\);" + ws +
        r"getcomma\(\);" + ws + r"buf\[0\] = 0;" + ws + r"return 0;" + ws + r"\}" + ws +
        r"for \(i = 0;i < len;\+\+i\) getbyte\(buf \+ i\);" + ws + r"getcomma\(\);" + ws + r"buf\[len\] = 0;", BIG)
    f["qmqpdLenCap"] = num("qmqpdLenCap", "qmail-qmqpd.c", r"if \(ch == ':'\) return len;" + ws + r"if \(len > (\d+)\) resources\(\);", BIG)
    # qmail-qmtpd.c
    f["qmtpdBuf"] = num("qmtpdBuf", "qmail-qmtpd.c", r"\nchar buf\[(\d+)\];", 0)
    f["qmtpdBuf2"] = num("qmtpdBuf2", "qmail-qmtpd.c", r"\nchar buf2\[(\d+)\];", 0)
    f["qmtpdSenderGuard"] = num(
        "qmtpdSenderGuard", "qmail-qmtpd.c",
        r"if \(len >= (\d+)\) \{" + ws + r"buf\[0\] = 0;" + ws + r"flagsenderok = 0;" + ws + r"for \(i = 0;i < len;\+\+i\)" + ws +
        r"substdio_get\(&ssin,&ch,1\);" + ws + r"\}" + ws + r"else \{" + ws + r"for \(i = 0;i < len;\+\+i\) \{" + ws +
        r"substdio_get\(&ssin,buf \+ i,1\);" + ws + r"if \(!buf\[i\]\) flagsenderok = 0;" + ws + r"\}" + ws + r"buf\[len\] = 0;", BIG)
    f["qmtpdRcptGuard"] = num(
        "qmtpdRcptGuard", "qmail-qmtpd.c",
        r"if \(len \+ relayclientlen >= (\d+)\) \{" + ws + r"failure\.s\[failure\.len - 1\] = 'L';" + ws +
        r"for \(i = 0;i < len;\+\+i\)" + ws + r"substdio_get\(&ssin,&ch,1\);" + ws + r"\}" + ws + r"else \{" + ws +
        r"for \(i = 0;i < len;\+\+i\) \{" + ws + r"substdio_get\(&ssin,buf \+ i,1\);" + ws +
        r"if \(!buf\[i\]\) failure\.s\[failure\.len - 1\] = 'N';" + ws + r"\}" + ws + r"buf\[len\] = 0;" + ws +
        r"if \(relayclient\)" + ws + r"str_copy\(buf \+ len,relayclient\);", BIG)
    f["qmtpdLenCap"] = num("qmtpdLenCap", "qmail-qmtpd.c", r"if \(ch == ':'\) return len;" + ws + r"if \(len > (\d+)\) resources\(\);", BIG)
    # qmail-getpw.c userext()
    ul = num("getpwUserlen", "qmail-getpw.c", r"#define GETPW_USERLEN (\d+)\n", 0)
    f["getpwUserlen"] = ul
    ok = flag("getpwGuard", "qmail-getpw.c",
              r"char username\[GETPW_USERLEN\];.*?if \(extension - local < sizeof\(username\)\)" + ws +
              r"if \(!\*extension \|\| \(\*extension == \*auto_break\)\) \{" + ws +
              r"byte_copy\(username,extension - local,local\);" + ws + r"username\[extension - local\] = 0;")
    f["getpwGuard"] = ul if ok else BIG
    # spawn.c
    f["spawnInbuf"] = num("spawnInbuf", "spawn.c", r"\nchar inbuf\[(\d+)\];", 0)
    f["spawnRead"] = num("spawnRead", "spawn.c", r"r = read\(d\[i\]\.fdin,inbuf,(\d+)\);", BIG)
    f["spawnExtra"] = num("spawnExtra", "spawn.c", r"d = \(struct delivery \*\) alloc\(\(auto_spawn \+ (\d+)\) \* sizeof\(struct delivery\)\);", 0)
    f["spawnDelnumChecked"] = flag("spawnDelnumChecked", "spawn.c",
                                   r"if \(delnum < 0\) \{[^\n]*return; \}\n if \(delnum >= auto_spawn\) \{[^\n]*return; \}\n if \(d\[delnum\]\.used\)")
    # qmail.c qmail_errstr()
    f["qqErrstr"] = num("qqErrstr", "qmail.c", r"static char errstr\[(\d+)\];", 0)
    f["qqErrGuard"] = num("qqErrGuard", "qmail.c",
                          r"while \(substdio_get\(&qq->ss,s\+len,1\) > 0 && len < (\d+)\) \{" + ws + r"len\+\+;" + ws + r"\}" + ws + r"s\[len\] = '\\0';", BIG)
    # qmail-send.c / qmail-remote.c caps
    f["reportmaxCut"] = flag("reportmaxCut", "qmail-send.c", r"if \(dline\[c\]\.len > REPORTMAX\)" + ws + r"dline\[c\]\.len = REPORTMAX;")
    f["smtptextCapped"] = flag("smtptextCapped", "qmail-remote.c",
                               r"if \(smtptext\.len < HUGESMTPTEXT\)" + ws + r"if \(!stralloc_append\(&smtptext,ch\)\) temp_nomem\(\);")
    # qmail-pop3d.c msgno()
    f["pop3MsgnoChecked"] = flag("pop3MsgnoChecked", "qmail-pop3d.c",
                                 r"--u;" + ws + r"if \(u >= numm \|\| u >= INT_MAX\) \{ err_toobig\(\); return -1; \}")
    # dns.c
    f["dnsRdataChecked"] = flag("dnsRdataChecked", "dns.c",
                                r"responsepos \+= 10;\n if \(rrdlen > responseend - responsepos\) return DNS_SOFT;\n", 3)
    f["dnsHeaderChecked"] = flag("dnsHeaderChecked", "dns.c",
                                 r"i = responseend - responsepos;\n if \(i < 4 \+ 3 \* 2\) return DNS_SOFT;\n", 3)
    f["dnsIpLen"] = num("dnsIpLen", "dns.c", r"if \(rrdlen < (\d+)\)\n\s*return DNS_SOFT;\n\s*ip\.d\[0\] = responsepos\[0\];", 0)
    f["dnsMxLen"] = num("dnsMxLen", "dns.c", r"if \(rrdlen < (\d+)\)\n\s*return DNS_SOFT;\n\s*pref = \(responsepos\[0\] << 8\) \+ responsepos\[1\];", 0)
    # overflow-checked growth
    f["allocChecked"] = (
        flag("allocChecked.add1", "gen_allocdefs.h", r"if \(__builtin_add_overflow\(n, pluslen, &n\)\) \\\n\s*return 0; \\\n\s*if \(n <= x->a\) \\\n\s*return 1; \\\n") &
        flag("allocChecked.add2", "gen_allocdefs.h", r"if \(__builtin_add_overflow\(n, \(n >> 3\) \+ base, &nnum\)\) \\\n\s*return 0; \\\n") &
        flag("allocChecked.mul", "gen_allocdefs.h", r"if \(__builtin_mul_overflow\(nnum, sizeof\(type\), &nlen\)\) \\\n\s*return 0; \\\n\s*nfield = realloc\(x->field, nlen\); \\\n") &
        flag("allocChecked.mul0", "gen_allocdefs.h", r"if \(__builtin_mul_overflow\(n, sizeof\(type\), &nlen\)\) \\\n\s*return 0; \\\n\s*x->field = \(type \*\) alloc\(nlen\); \\\n"))
    f["catbChecked"] = (
        flag("catbChecked.catb", "stralloc_catb.c", r"if \(__builtin_add_overflow\(n, 1, &i\)\) \{\n\s*errno = error_nomem;\n\s*return 0;\n\s*\}\n\s*if \(!stralloc_readyplus\(sa,i\)\) return 0;") &
        flag("catbChecked.copyb", "stralloc_opyb.c", r"if \(__builtin_add_overflow\(n, 1, &i\)\) \{\n\s*errno = error_nomem;\n\s*return 0;\n\s*\}\n\s*if \(!stralloc_ready\(sa,i\)\) return 0;"))
    f["quoteChecked"] = flag("quoteChecked", "quote.c",
                             r"if \(__builtin_mul_overflow\(sain->len, 2, &nlen\) \|\|\n\s*__builtin_add_overflow\(nlen, 2, &nlen\)\) \{\n\s*errno = error_nomem;\n\s*return 0;\n\s*\}\n\s*if \(!stralloc_ready\(saout,nlen\)\) return 0;")
    # quote.c counter types (commit 26e354b: unsigned).  quoteSignedCounters = the counters of doit()/quote_need() are signed ints
    m1 = re.search(r"static int doit\(saout,sain\)\nstralloc \*saout;\nstralloc \*sain;\n\{\n char ch;\n (unsigned int|int) i;\n (unsigned int|int) j;[^\n]*\n unsigned int nlen;\n", src("quote.c"))
    m2 = re.search(r"int quote_need\(s,n\)\nchar \*s;\nunsigned int n;\n\{\n unsigned char uch;\n (unsigned int|int) i;\n if \(!n\) return 1;\n", src("quote.c"))
    if not m1 or not m2:
        un.append("quoteSignedCounters")
        f["quoteSignedCounters"] = True
    else:
        f["quoteSignedCounters"] = not (m1.group(1) == m1.group(2) == m2.group(1) == "unsigned int")
    f["strallocBase"] = num("strallocBase", "stralloc_eady.c", r"GEN_ALLOC_readyplus\(stralloc,char,s,len,a,(\d+),stralloc_readyplus\)\nGEN_ALLOC_ready\(stralloc,char,s,len,a,\1,stralloc_ready\)", 0)

    out = "namespace Nq.Gen.C20Bounds\n\n"
    for k in f:
        v = f[k]
        if isinstance(v, bool):
            out += "def %s : Bool := %s\n" % (k, "true" if v else "false")
        else:
            out += "def %s : Nat := %d\n" % (k, v)
    out += "\n/-- facts whose source shape was not recognised (must be empty) -/\n"
    out += "def unrecognised : List String := [%s]\n" % ", ".join('"%s"' % u for u in un)
    out += "\nend Nq.Gen.C20Bounds\n"
    return {"C20Bounds": out}
