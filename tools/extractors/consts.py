"""Numeric constants shared by several models."""
from extract import define_int, conf_first_line, read, ExtractError
import re


def generate(repo):
    c = {}
    c["DEATH"] = define_int(repo, "qmail-queue.c", "DEATH")
    c["ADDR"] = define_int(repo, "qmail-queue.c", "ADDR")
    c["OSSIFIED_send"] = define_int(repo, "qmail-send.c", "OSSIFIED")
    c["OSSIFIED_clean"] = define_int(repo, "qmail-clean.c", "OSSIFIED")
    c["REPORTMAX"] = define_int(repo, "qmail-send.c", "REPORTMAX")
    for k in ("SLEEP_TODO", "SLEEP_FUZZ", "SLEEP_FOREVER", "SLEEP_CLEANUP", "SLEEP_SYSFAIL"):
        c[k] = define_int(repo, "qmail-send.c", k)
    c["MAXHOPS"] = define_int(repo, "qmail-smtpd.c", "MAXHOPS")
    c["HUGESMTPTEXT"] = define_int(repo, "qmail-remote.c", "HUGESMTPTEXT")
    c["auto_split"] = int(conf_first_line(repo, "conf-split"))
    c["auto_spawn"] = int(conf_first_line(repo, "conf-spawn"))
    c["auto_patrn"] = int(conf_first_line(repo, "conf-patrn"), 8)
    brk = conf_first_line(repo, "conf-break")
    if len(brk) != 1:
        raise ExtractError("conf-break: expected one character")
    c["auto_break"] = ord(brk)
    src = read(repo, "qmail-send.c")
    m = re.search(r"int\s+chanskip\s*\[\s*CHANNELS\s*\]\s*=\s*\{\s*(\d+)\s*,\s*(\d+)\s*\}", src)
    if not m:
        raise ExtractError("qmail-send.c: chanskip[] not found")
    c["chanskip_local"], c["chanskip_remote"] = int(m.group(1)), int(m.group(2))
    m = re.search(r"^int\s+lifetime\s*=\s*(\d+)\s*;", src, re.M)
    if not m:
        raise ExtractError("qmail-send.c: lifetime default not found")
    c["lifetime_default"] = int(m.group(1))
    body = "namespace Nq.Gen\n\n" + "".join("def %s : Nat := %d\n" % kv for kv in sorted(c.items())) + "\nend Nq.Gen\n"
    return {"Consts": body}
