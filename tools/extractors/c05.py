"""C05 translator: qmail-smtpd.c blast() -> lean/Nq/Gen/SmtpdBlast.lean.

Unlike the table extractors this one translates the function BODY: the clang AST of `blast()` (declarations, the constant
initialisations, and every statement of the `for (;;)` loop after `substdio_get(&ssin,&ch,1)`) becomes a value of the deep
embedding Nq.CMini.Stmt.  Nq/Lemmas/SmtpdSrc.lean proves, by exhaustive kernel evaluation over the finite state space plus
an independence lemma, that the meaning (Nq.CMini.run) of that value is exactly the hand-written automaton `dstep`/`hstep`
of Nq/SmtpIn.lean, so the C05 theorems are re-checked against the text of the function as it is now.

Checked here, textually, because the embedding takes them as given:
  * put() hands exactly one byte of its argument to the queue writer: its body contains `qmail_put(&qqt,ch,1);` and
    nothing after it;
  * straynewline() does not return: its body ends with `_exit(1);`."""
import re
from extract import read, ExtractError
import cmini


def _norm(t):
    return re.sub(r"\s+", "", re.sub(r"/\*.*?\*/", "", t, flags=re.S))


def generate(repo):
    src = read(repo, "qmail-smtpd.c")
    m = re.search(r"^void\s+put\s*\(\s*ch\s*\)\s*char\s*\*\s*ch\s*;\s*\{(.*?)^\}", src, re.M | re.S)
    if not m:
        m = re.search(r"^void\s+put\s*\(\s*char\s*\*\s*ch\s*\)\s*\{(.*?)^\}", src, re.M | re.S)
    if not m:
        raise ExtractError("qmail-smtpd.c: definition of put(ch) not found")
    pb = _norm(m.group(1))
    if not pb.endswith("qmail_put(&qqt,ch,1);"):
        raise ExtractError("qmail-smtpd.c: put() does not end with `qmail_put(&qqt,ch,1);` (one byte of its argument): %r" % pb[-80:])
    if pb.count("qmail_put(") != 1 or "return" in pb:
        raise ExtractError("qmail-smtpd.c: put() calls qmail_put more than once or may return early")
    m = re.search(r"^void\s+straynewline\s*\(\s*(?:void)?\s*\)\s*\{(.*?)\}", src, re.M | re.S)
    if not m or not _norm(m.group(1)).endswith("_exit(1);"):
        raise ExtractError("qmail-smtpd.c: straynewline() does not end with `_exit(1);` (it must not return)")
    fd = cmini.clang_function(repo, "qmail-smtpd.c", "blast")
    params = [c["name"] for c in fd.get("inner", []) if c.get("kind") == "ParmVarDecl"]
    if params != ["hops"]:
        raise ExtractError("qmail-smtpd.c: blast() parameters are %r, expected (hops)" % params)
    tr = cmini.Translator("qmail-smtpd.c", "blast", byte_var="ch", out_param="hops", put_fn="put", noret_fns=["straynewline"])
    r = tr.function(fd, get_fn="substdio_get", get_stream="ssin")
    if not r["out_zero"]:
        raise ExtractError("qmail-smtpd.c: blast(): `*hops = 0;` before the loop not found")
    lean = ["import Nq.CMini", "namespace Nq.Gen.SmtpdBlast", "open Nq.CMini", "",
            "/-- the `int` locals of blast() in declaration order (index = CMini variable number) -/",
            "def varNames : List String := [%s]" % ", ".join('"%s"' % v for v in r["vars"]), "",
            "/-- their constant values before the loop (`*hops = 0` is there as well: checked by the translator) -/",
            "def initEnv : Env := [%s]" % ", ".join(str(x) for x in r["init"]), "",
            "/-- the statements of the `for (;;)` body after `substdio_get(&ssin,&ch,1);`, in order -/",
            "def stmts : List Stmt := ["]
    lean.append(",\n".join("  " + t for t in r["tops"]))
    lean += ["]", "", "end Nq.Gen.SmtpdBlast", ""]
    return {"SmtpdBlast": "\n".join(lean)}
