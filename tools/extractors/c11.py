"""C11 translator: qlx.h exit codes, qmail-lspawn.c report() switch, qmail-getpw.c GETPW_USERLEN.

Generates Nq/Gen/LspawnReport.lean:
  QLX_* : Nat
  reportCases : List (Nat × UInt8 × Bool)   exit code -> (first byte of the report, fixed text?)
  reportDefault : UInt8                       first byte for every other exit code
  reportCrashed : UInt8                       first byte when qmail-local was killed by a signal
  GETPW_USERLEN : Nat
"""
import re
from extract import read, define_int, ExtractError


def generate(repo):
    qlx = read(repo, "qlx.h")
    codes = {}
    for m in re.finditer(r"^#define\s+(QLX_[A-Z]+)\s+(\d+)\s*$", qlx, re.M):
        codes[m.group(1)] = int(m.group(2))
    need = ["QLX_USAGE", "QLX_BUG", "QLX_ROOT", "QLX_NFS", "QLX_NOALIAS", "QLX_CDB", "QLX_SYS", "QLX_NOMEM",
            "QLX_EXECSOFT", "QLX_EXECPW", "QLX_EXECHARD"]
    for n in need:
        if n not in codes:
            raise ExtractError("qlx.h: %s not found" % n)
    if len(set(codes.values())) != len(codes):
        raise ExtractError("qlx.h: duplicate exit codes")

    src = read(repo, "qmail-lspawn.c")
    m = re.search(r"\nvoid report\(.*?\n\{(.*?)\n\}\n", src, re.S)
    if not m:
        raise ExtractError("qmail-lspawn.c: report() not found")
    body = m.group(1)
    mc = re.search(r"if \(wait_crashed\(wstat\)\)\s*\{\s*substdio_puts\(ss,\"(.)([^\"]*)\"\);\s*return;\s*\}", body)
    if not mc:
        raise ExtractError("qmail-lspawn.c: report(): wait_crashed branch not recognised")
    crashed = ord(mc.group(1))

    def ctext(t):
        """bytes of a C string literal body; only the escape \\n is recognised"""
        out, i = [], 0
        while i < len(t):
            if t[i] == "\\":
                if t[i + 1:i + 2] != "n":
                    raise ExtractError("report(): unrecognised escape in %r" % t)
                out.append(10); i += 2
            else:
                if ord(t[i]) > 126 or ord(t[i]) < 32:
                    raise ExtractError("report(): non-ASCII text %r" % t)
                out.append(ord(t[i])); i += 1
        return out
    crashed_text = ctext(mc.group(1) + mc.group(2))
    texts = []
    ms = re.search(r"switch\(wait_exitcode\(wstat\)\)\s*\{(.*?)\n  \}", body, re.S)
    if not ms:
        raise ExtractError("qmail-lspawn.c: report(): switch not recognised")
    sw = ms.group(1)
    tail = body[ms.end():]
    if not re.fullmatch(r"\s*for \(i = 0;i < len;\+\+i\) if \(!s\[i\]\) break;\s*substdio_put\(ss,s,i\);\s*", tail):
        raise ExtractError("qmail-lspawn.c: report(): text after the switch not recognised: %r" % tail.strip()[:80])
    # tokens: case labels, default label, the two statement shapes
    tok = re.compile(r"case\s+([A-Za-z_0-9]+)\s*:|(default)\s*:|substdio_puts\(ss,\"(.)([^\"]*)\"\);\s*return;"
                     r"|substdio_put\(ss,\"(.)\",1\);\s*break;")
    pos, labels, cases, default = 0, [], [], None
    rest = tok.sub("", sw)
    if rest.strip():
        raise ExtractError("qmail-lspawn.c: report(): unrecognised text in switch: %r" % rest.strip()[:80])
    for t in tok.finditer(sw):
        if t.group(1):
            lab = t.group(1)
            if lab in codes:
                labels.append(codes[lab])
            elif lab.isdigit():
                labels.append(int(lab))
            else:
                raise ExtractError("report(): unknown case label " + lab)
        elif t.group(2):
            labels.append("default")
        else:
            ch, fixed = (t.group(3), True) if t.group(3) else (t.group(5), False)
            if not labels:
                raise ExtractError("report(): statement without a case label")
            for l in labels:
                if l == "default":
                    default = (ord(ch), fixed)
                else:
                    cases.append((l, ord(ch), fixed))
                    if fixed:
                        texts.append((l, ctext(t.group(3) + t.group(4))))
            labels = []
    if labels or default is None:
        raise ExtractError("report(): dangling labels or no default")
    if default[1]:
        raise ExtractError("report(): default branch has a fixed text")
    if len(set(c for c, _, _ in cases)) != len(cases):
        raise ExtractError("report(): duplicate case labels")
    userlen = define_int(repo, "qmail-getpw.c", "GETPW_USERLEN")
    users = [l.strip() for l in read(repo, "conf-users").split("\n")[:8]]
    if len(users) < 8 or not all(re.fullmatch(r"[A-Za-z0-9_-]+", u) for u in users):
        raise ExtractError("conf-users: expected eight account names")
    m = re.search(r"define\s+CDBMAKE_HPLIST\s+(\d+)", read(repo, "cdbmake.h"))
    mh = re.search(r"define\s+CDBMAKE_HASHSTART\s+\(\(uint32\)\s*(\d+)\)", read(repo, "cdbmake.h"))
    mh2 = re.search(r"h = (\d+);", read(repo, "cdb_hash.c"))
    if not (m and mh and mh2):
        raise ExtractError("cdbmake.h / cdb_hash.c: hash start not found")
    if mh.group(1) != mh2.group(1):
        raise ExtractError("cdb writer and reader start their hashes differently (%s vs %s)" % (mh.group(1), mh2.group(1)))

    out = "namespace Nq.Gen.Lspawn\n\n"
    for n in sorted(codes):
        out += "def %s : Nat := %d\n" % (n, codes[n])
    out += "\n/-- qmail-lspawn.c report(): exit code ↦ (first byte of the report, report is a fixed text) -/\n"
    out += "def reportCases : List (Nat × UInt8 × Bool) :=\n  [" + ", ".join(
        "(%d, %d, %s)" % (c, ch, "true" if f else "false") for c, ch, f in cases) + "]\n"
    out += "/-- the whole text of the fixed reports -/\ndef reportTexts : List (Nat × List UInt8) :=\n  [" + ",\n   ".join(
        "(%d, [%s])" % (c, ", ".join(map(str, tx))) for c, tx in texts) + "]\n"
    out += "def reportCrashedText : List UInt8 := [%s]\n" % ", ".join(map(str, crashed_text))
    out += "def reportDefault : UInt8 := %d\n" % default[0]
    out += "def reportCrashed : UInt8 := %d\n" % crashed
    out += "def GETPW_USERLEN : Nat := %d\n" % userlen
    out += "def auto_usera : List UInt8 := [%s]\n" % ", ".join(str(ord(c)) for c in users[0])
    out += "def auto_userp : List UInt8 := [%s]\n" % ", ".join(str(ord(c)) for c in users[4])
    out += "def CDB_HASHSTART : Nat := %s\n" % mh.group(1)
    out += "\nend Nq.Gen.Lspawn\n"
    return {"LspawnReport": out}
