#!/usr/bin/env python3
"""Writes /verif/MANIFEST.json from the table below (single source of truth for the interface)."""
import json, os
VERIF = os.path.dirname(os.path.dirname(os.path.abspath(__file__)))

NOTE_COMMON = ("Trusted: Lean 4.33 kernel; axioms propext/Classical.choice/Quot.sound only (audited each run, no native_decide); "
               "the Lean compiler for the executable model; the C correspondence harness and tools/extract.py; gcc/glibc. ")

CHECKS = {
 "C06": dict(
   text="Theorems over ALL byte strings about the Lean model rblast of qmail-remote.c blast(): terminator exactly once at the end, no bare LF, "
        "dot-stuffed lines, decode(encode m)=canon m for both the RFC reference decoder and the model of qmail-smtpd's automaton, identity for CR-free "
        "messages; the model is tied to the current source by running the real blast() (sanitised build of the working tree) and the compiled model "
        "on every string over {CR,LF,'.',a} up to length 9/12 under several read chunkings plus random messages, and the property oracle is evaluated on the implementation's output.",
   note=NOTE_COMMON + "Modelled, not verified: substdio buffering (covered by running several chunkings), the peer's line splitting (RFC 5321).",
   technique="Lean 4 proof (automaton simulation + line-shape invariant) + exhaustive differential correspondence with the C code",
   design="DESIGN.md §2 C06"),
}

CHECKS["C05"] = dict(
   text="Theorems over ALL byte streams about the Lean model dblast of qmail-smtpd.c blast(): the 5-state automaton equals a line-based RFC 5321 reference decoder "
        "(verdict, stored bytes, unread remainder); accepted iff CRLF-terminated LF-free non-lone-dot lines followed by .CRLF; a bare LF is refused (451); "
        "decode(encode m)=m for a reference conforming sender and for this package's own client. Tied to the current source by running the real blast() "
        "(sanitised build of the working tree) against the compiled model on every string over {CR,LF,'.',x} up to length 9/12 (and each followed by a terminator and next command), "
        "hop-counter header sets, random streams; oracle = reference decoder on the implementation's behaviour.",
   note=NOTE_COMMON + "Modelled, not verified: substdio_get buffering (several chunkings are run); the hop counter is tied by correspondence only (no theorem yet); timeouts.",
   technique="Lean 4 proof (automaton = line spec; framing iff; round-trip simulations) + exhaustive differential correspondence with the C code",
   design="DESIGN.md §2 C05")

CHECKS["C01"] = dict(
   text="Theorems over EVERY accepted system-call trace of the Lean acceptor of qmail-queue.c main() (hence every message, envelope, read/write chunking, short write, EINTR and failing call) "
        "and, by prefix-closure, every instant at which the process or machine stops, with every file not fsynced since its last change arbitrary after the crash: todo visible => message file = Received line + supplied bytes, "
        "envelope well-formed and stored exactly; exit 0 => visible and durable; non-zero exit => never visible; leftovers only pid/pid+mess/mess/mess+intd; exit 91/11 only by the envelope scanner's verdict; "
        "the scanner accepts exactly F sender NUL (T rcpt NUL)* NUL with NUL-free addresses <= 1002 bytes (soundness and completeness); alarm(DEATH) first with DEATH < OSSIFIED (constants regenerated from the sources). "
        "Tied to the code by replaying the real qmail-queue's traces, recorded under an in-memory POSIX simulator for ~12700/33500 (input, chunking, fault list) cases - well-formed and malformed/truncated/over-long envelopes, every call index x {EIO, ENOSPC, short write, EINTR} also on the runs whose input fails by itself (so every call inside cleanup() is faulted), fault pairs, random fault chains of up to 3 - through the acceptor, and by judging every concrete crash state (call index x 5 loss resolutions) and every final state with the property oracle.",
   note=NOTE_COMMON + "Modelled, not verified: the OS semantics of DESIGN.md 1.4 as implemented by harness/sim.c (synchronous atomic directory operations, fsync durability, arbitrary loss of un-fsynced data, unique inode numbers); SIGALRM delivery is not exercised by the harness (the acceptor has no alarm-kill event yet); the Received line is a parameter.",
   technique="Lean 4 proof (inductive invariant over a system-call trace acceptor + crash relation; scanner soundness/completeness) + trace-replay correspondence with the real qmail-queue under a simulated libc with fault and crash injection",
   design="DESIGN.md §2 C01")

_DAEMON_NOTE_REAL = NOTE_COMMON + ("Modelled, not verified: the OS semantics of DESIGN.md 1.4 as implemented by harness/sim.c; spawners are scripted by the harness; pipe()/fork()/execv()/waitpid() "
    "under qmail.c are provided by the harness (they never fail; the real child branch of qmail_open and the real qmail-queue run on them); rewrite() is the identity on the harness's recipients (C10); "
    "the monitor does not model qmail-send's volatile bookkeeping (numtodo, refs, pass positions) itself but the enabling conditions it must establish; liveness (every message is eventually "
    "tried) is not stated.")
_DAEMON_NOTE = NOTE_COMMON + ("Modelled, not verified: the OS semantics of DESIGN.md 1.4 as implemented by harness/sim.c; spawners are scripted by the harness; bounce injection "
    "(qmail.c) is replaced by a stand-in that records the bounce and succeeds/fails as scripted (its atomicity is C01); rewrite() is the identity on the harness's recipients (C10); "
    "the monitor does not model qmail-send's volatile bookkeeping (numtodo, refs, pass positions) itself but the enabling conditions it must establish; liveness (every message is eventually "
    "tried) is not stated.")
CHECKS["C03"] = dict(
   text="Theorems about EVERY event sequence accepted by the Lean monitor of qmail-send + qmail-clean's observable protocol (every filesystem-mutating call, delivery command, byte of every "
        "spawner report, bounce injection, crash, restart; unbounded messages, recipients, histories): in every reachable state every accepted recipient is still queued, reported delivered, named in a "
        "pending or queued bounce, or under one of the two documented exemptions (discarded double bounce; non-crash-proof bounce record after a machine crash); a message is removed only when all are "
        "accounted for; a D mark is written only after a K report or after the bounce paragraph of a D/expired-Z report; only K finishes a recipient at report time; channel files are unlinked only when "
        "every record is finished; info last; bounce record removed only after a successful injection or for #@[]. Tied to the code by replaying the traces of the real qmail-send and qmail-clean mains "
        "under an in-memory POSIX simulator (scripted spawners, ~4500/128000 seeded histories: signals, single failing calls incl. a sweep over every call that touches info/local/remote/bounce/todo in slot-reusing multi-message histories, process/machine crashes, restarts after crashes AND after clean stops at every interesting select, spawner limit bytes and concurrency over 0..255 with up to 280 recipients, withheld reports, expired messages) through the monitor, and by an independent "
        "recipient-accounting oracle on each concrete run.",
   note=_DAEMON_NOTE,
   technique="Lean 4 proof (inductive accounting invariant over a protocol monitor, closed under crash/restart events) + trace-replay correspondence with the real daemon under a simulated libc",
   design="DESIGN.md §2 C03/C04, Appendix A")
CHECKS["C04"] = dict(
   text="Theorems about every event sequence accepted by the same monitor: outstanding attempts per channel never exceed min(configured concurrency, spawner limit); no two outstanding attempts for the "
        "same recipient record and no delivery number in use twice (invariant by induction over all events); a delivery command is accepted only for a record whose completion mark is not on disk, and is "
        "refused once the D byte is there - in the same run, after restart, after a crash that kept the byte; restart forgets slots but no file content; a second layer (DaemonOwed.accept2, proved to refine the monitor) keeps the marks that are *owed* after a K/D report across clean restarts, so that a skipped mark is refused (C04_reported_refused, C04_K_owed, C04_D_owed, C04_owed_persists, C04_cleanRestart_keeps, C04_layer_refines). Tied to the code as C03; the oracle checks on each "
        "concrete run that no command follows a written mark (absent a machine crash), no slot is reused while in flight, and the in-flight count stays within the limit.",
   note=_DAEMON_NOTE + " 'exactly once without crashes' is stated as the conjunction of C04_no_retry/C04_marked_refused with C03's accounting, not as a single trace-level theorem.",
   technique="Lean 4 proof (slot invariant by induction over monitor events; guard theorems) + trace-replay correspondence with the real daemon under a simulated libc",
   design="DESIGN.md §2 C03/C04, Appendix A")

CHECKS["C16"] = dict(
   text="Theorem over ALL interleavings of any number of injectors with the daemon (inductive invariant of the Lean acceptor of the trigger protocol: link todo, open/write/close of the FIFO vs "
        "trigger_set's close/reopen, opendir, readdir): whenever the daemon is outside a todo scan and an injector has completed its publish-then-signal steps for an unprocessed entry, the trigger "
        "descriptor is readable; otherwise a re-arm is in progress or the open scan will still return the entry; a scan ends only when it returned everything it covers; trigger_set precedes opendir and "
        "link precedes the pull. Tied to the code by running the real qmail-queue (2 instances), qmail-send and qmail-clean as threads under an in-memory POSIX simulator with every interleaving of the "
        "trigger-related system calls enumerated for one injector and enumerated/sampled for two (both readdir semantics), each trace replayed through the acceptor; the oracle fails if the real daemon ever "
        "sleeps with a completed injection unprocessed. Second leg: in 400/8000 daemon histories no select(timeout 0) spin occurs.",
   note=NOTE_COMMON + "Modelled, not verified: FIFO semantics of DESIGN.md 1.4 as implemented by harness/sim.c; the periodic rescan is outside the model; 'never sleeps past its earliest due event' is "
        "covered for the wake-up computation by C15_wakeup (pass_selprep) and by the sleeping-with-unprocessed-todo oracle, not by a theorem over the whole select-preparation chain; liveness of the scan is stated as "
        "'closedir only when everything was returned', not as a bounded-steps theorem.",
   technique="Lean 4 proof (inductive invariant over unbounded interleavings) + systematic schedule enumeration of the real programs under a simulated libc, traces replayed through the acceptor",
   design="DESIGN.md §2 C16, Appendix C")

exec(open(os.path.join(VERIF, "tools", "manifest_entries.py")).read())

# disclosures from the second-pass audit (appended to level_note so that a re-sync of an entry from notes/Cxx.md cannot lose them)
EXTRA_NOTES = {
 "C11": "Second-pass audit: the numeric fields are read as the C code reads them (leading decimal digits, reduced mod 2^32; specNum in Spec/Users.lean adopts this), so a table entry whose uid/gid field is not a canonical number ('1001junk', '4294968297') is delivered under the number so read - only uid 0 after that reading is refused, gid 0 never; 'exactly the uid/gid the table assigns' is therefore stated for canonical fields. Local parts are non-empty and NUL-free. The cdb writer and reader models share one hash function although the C code has two (cdbmake_hashadd in cdbmake_hash.c for the writer, cdb_hash in cdb_hash.c for the reader): that the two C functions agree is tied by correspondence only (byte-exact comparison of the compiled file with the writer model, lookups of every key through the real cdb_seek; an independently seeded change to cdb_hash, signed char, is caught this way), not by a theorem. 'Every way the child can end' is relative to the modelled single-call faults; pipe/slurpclose/wait failures and out-of-memory exits are not modelled (all are deferrals in the code).",
 "C09": "Second-pass audit: 'unparseable' in the relay theorems (noUpgrade, rspawnSound) is the code's own scan rule (an output such as K NUL Z NUL relays K); end to end this is harmless because C09_output_shape / C09_end_to_end show qmail-remote never emits such output. Commands are assumed to fit the 1024-byte output buffer. decCode reads the first three characters ('2500 ok' is 250), as smtpcode() does.",
 "C15": "Second-pass audit: expiry, bounded time, no-starvation and nothing-lost are proved in the atomic-pass history model only; the interrupted-pass model (SchedPass: monotone clock, no arrivals) carries the back-off theorems, and the two are related by examples, not by a general refinement.",
}
for _k, _v in EXTRA_NOTES.items():
    if _k in CHECKS and _v not in CHECKS[_k]["note"]:
        CHECKS[_k] = dict(CHECKS[_k]); CHECKS[_k]["note"] = CHECKS[_k]["note"] + " " + _v

PENDING = {}

def main():
    props = [json.loads(l)["id"] for l in open(os.path.join(VERIF, "properties.jsonl"))]
    checks = []
    for pid in props:
        if pid in CHECKS:
            c = CHECKS[pid]
            checks.append({
                "property_id": pid,
                "quick_cmd": "./check %s --tier quick" % pid,
                "thorough_cmd": "./check %s --tier thorough" % pid,
                "evidence_file": "evidence/%s.json" % pid,
                "replay_cmd_template": "./check %s --replay {path}" % pid,
                "engine": "lean4-proof+correspondence",
                "level_claimed": {"category": "proof", "text": c["text"], "design_ref": c["design"]},
                "level_note": c["note"],
                "technique": c["technique"],
            })
    na = [{"property_id": p, "reason": PENDING.get(p, "check not built yet in this session; the Lean model and correspondence harness for it are planned in DESIGN.md (no claim is made until the check passes on the clean tree)")}
          for p in props if p not in CHECKS]
    m = {
        "version": 1,
        "setup_cmd": "cd lean && lake build Nq Drv && lake build $(sed -n 's/^name = \"\\(drv_[a-z0-9_]*\\)\"/\\1/p' lakefile.toml)",
        "hooks": {"guard": "NOTQMAIL_VERIF", "enable": "none needed: harnesses #include the unmodified sources of a scratch copy of the working tree and interpose libc at link time",
                  "baseline_off_cmd": "make -C /repo -j8 it && make -C /repo/tests test", "source_commits": [], "add_only": True},
        "engines": [{"name": "lean4-proof+correspondence", "path": "lean/", "serves_properties": sorted(CHECKS),
                     "kind_free_text": "Lean 4 theorems about executable models (lean/Nq), tied to /repo by a translator (tools/extract.py: constants, tables, switch maps; and, for qmail-smtpd.c blast(), the function body itself, translated from the clang-14 AST into the deep embedding lean/Nq/CMini.lean on every run and proved equal to the hand-written automaton) and by differential correspondence harnesses (harness/*.c) that run the unmodified C from a sanitised scratch build of the working tree against the compiled models (lean/Drv)"}],
        "checks": checks,
        "notes": "See DESIGN.md. known_findings.json lists repaired defects (fix: commits in /repo) and open findings.",
        "not_applicable": na,
    }
    json.dump(m, open(os.path.join(VERIF, "MANIFEST.json"), "w"), indent=1)
    print("MANIFEST.json: %d checks, %d not claimed" % (len(checks), len(na)))

if __name__ == "__main__":
    main()
