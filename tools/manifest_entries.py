# Manifest entries contributed per property (text, note, technique, design). Loaded by mkmanifest.py.
CHECKS["C07"] = dict(
   text="Theorems about the Lean models of qmail.c (flagerr discipline with substdio buffering and write faults), qmail_close's verdict switch (table regenerated from the source), "
        "received.c/date822fmt.c and the reply selection of qmail-smtpd/qmtpd/qmqpd: a flagged failure or an exit before qmail_close never leaves a complete envelope on qmail-queue's descriptor 1 "
        "(for every body, sender, recipient sequence and write-fault schedule); verdict \"\" iff exit 0, no crash, no flagerr, D exactly for 11..40/115/82+D for all exit statuses; 250/K iff verdict \"\" "
        "(and sender ok, no overflow, flagok); 554 hops before 552 size before 554/451; safeput emits only issafe bytes or '?', the Received field is exactly two lines. Tied to the current source by "
        "three whole-program harnesses (real daemons + real qmail.c, real pipe/fork/execv of a stand-in queue program) compared byte for byte (replies, exit status, bytes on the queue program's "
        "descriptors 0 and 1) with the compiled models over every exit status 0..255, sizes around databytes, hops 97..102, address lengths around 900/1000, NULs, every cut point and every "
        "single-byte substitution of short sessions, write faults, random mutated sessions; the oracle (strict netstring grammar, reference decoder, independent calendar/hop count, qmail-queue.8 classes) "
        "is evaluated on the implementation's behaviour.",
   note=NOTE_COMMON + "Modelled, not verified: the queue program honours qmail-queue.8 (exit 0 only after a complete envelope; custom text starts with D/Z), pipes do not short-write, read chunking (4 chunkings run). "
        "Not theorems (oracle + correspondence only): content equality on ack, prefix-monotonicity of the session parsers (every cut point is run), hop counter, datetime_tai. "
        "Two open findings are reported as KNOWN-FINDING (qmtpd recipient-length digit check; unvalidated exit-82 text).",
   technique="Lean 4 proof (buffer/prefix invariants, NUL-pair invariant of the envelope, decide over the regenerated switch table lifted to all statuses) + whole-program differential correspondence with fault injection",
   design="DESIGN.md §2 C07")

CHECKS["C08"] = dict(
   text="Theorems over ALL configurations and ALL command sequences / byte streams about the Lean model of qmail-smtpd's transaction logic (commands() line reader, "
        "addrparse, bmfcheck, rcpthosts, smtp_helo/ehlo/rset/mail/rcpt/data as a state machine, the byte-level session with DATA swallowing its message): every envelope "
        "handed to the queue follows a MAIL answered 250 with no HELO/EHLO/RSET/MAIL-250/completed DATA in between, carries that MAIL's parsed sender and exactly the "
        "RCPTs answered 250 since, at least one (C08_submit); RCPT is answered 250 IFF a transaction is open, its sender is not on badmailfrom (address or @domain, "
        "case-insensitive), the argument parses within the 900-byte limit after localiphost replacement, and RELAYCLIENT is set (suffix appended) or the domain is covered "
        "by rcpthosts/morercpthosts (exact or dot-suffix, case-insensitive; no @ allowed; no rcpthosts file allows all) (C08_gate, C08_match_spec, C08_bmf_spec, C08_len, "
        "C08_liphost). Tied to the current source by a translator (command table, reply texts, limit, seenmail resets) and by running the real main()/setup()/commands()/"
        "smtp_*/rcpthosts/constmap/control/cdb_seek/ip code and the real qmail-newmrh in-process (sanitised build of the working tree) against the compiled model on every "
        "palette command sequence up to length 4/5, every address string over an 11-symbol alphabet up to length 5/6, structured and random addresses, sessions and "
        "configurations; the oracle evaluates the theorems' predicates on the implementation's replies and envelopes.",
   note=NOTE_COMMON + "Modelled, not verified: constmap/cdb as finite sets; ipme as a list parameter; qmail.o replaced by an envelope recorder (C07); timeouts, databytes, "
        "MAXHOPS not modelled; address unquoting has no independent spec (the oracle uses the model's addrparse as the parsed address).",
   technique="Lean 4 proof (history invariant over traces; iff between lookup code and declarative match spec; checker = predicate) + exhaustive/structured differential "
             "correspondence with the C code, whole sessions in-process",
   design="DESIGN.md §2 C08")

CHECKS["C09"] = dict(
   text="Theorems over ALL server scripts (any byte stream the server sends, cut anywhere = disconnect/stall, any failing write) about the Lean model smtpRun of "
        "qmail-remote.c smtp()/smtpcode()/quit()/dropped(): the message report has exactly the class the rules require (first decisive event: greeting!=220/HELO!=250 -> Z; "
        "MAIL/DATA/final-dot >=500 -> D, 400..499 -> Z; all RCPT refused -> D; lost connection -> Z, flagged 'Possible duplicate!' between the final flush and the reply to the dot), "
        "K only if every phase was accepted and the whole message and QUIT were sent, per-recipient r/s/h reports are the classes of their own RCPT replies in argument order, "
        "commands reach the server in argument order; smtpcode() = line-based multi-line reading on well-formed streams, code = decimal value; and about the model rreport of "
        "qmail-rspawn.c report(): K relayed only for exit 0/no crash/first report not h,s/first K-Z-D report K, crash/111 -> Z, other exits -> D, never an upgrade; composed end to end "
        "(relayed K => server accepted recipient and message). Tied to the current source by running the real smtp() against a scripted socket (every assignment of 13 reply kinds to the "
        "5+n phases, every failing write, every short byte string as a reply, random conversations) and the real report() on every output over {r,h,s,K,Z,D,x,NUL} up to length 6/8 x exit "
        "statuses, and the real main() from the DNS result on (every lookup result x every list of <=3 addresses: MX preference vs. this host, tcpto skip, connect ok/refused/timeout -> "
        "temp_noconn Z, never K before a connection, first eligible connecting address used); ~1M/23M cases, comparing report bytes, wire bytes, exit status, relayed line and tcpto_err calls; "
        "the property predicates are evaluated on the implementation's output.",
   note=NOTE_COMMON + "Modelled, not verified: select/read/write inside timeoutread/timeoutwrite (scripted socket: EOF and timeout both end in dropped()); substdio buffering "
        "(several chunkings; position of buffer-full flushes observed, not modelled); control files, smtproutes, the resolver, ipme, tcpto's file and connect() are scripted answers to the real main(); "
        "spawn.c's collection loop; 64-bit unsigned long. The model transcribes that a failing QUIT write turns any decided verdict into Z 'connection died' (notes/C09.md finding 1).",
   technique="Lean 4 proof (control-flow model = declarative class rules; automaton = line spec; scan loop = first-record spec; composition) + exhaustive differential correspondence with the C code",
   design="DESIGN.md §2 C09")

CHECKS["C10"] = dict(
   text="Theorems over ALL configurations and recipient byte strings about the Lean model of qmail-send's routing: rewrite() (default host, percent-hack loop, locals, "
        "virtualdomains scan) equals the documented rule set routeSpec for every configuration without a repeated virtualdomains key (and the later entry wins otherwise); the "
        "constmap hash table (djb hash of the case-folded key, bucket chains, hash+length+case_diffb test) is the case-insensitive finite map, with no hypothesis; routing is invariant "
        "under ASCII case changes of address, envnoathost and keys; the todo_do record loop writes one record per T record to exactly one channel file in input order (partition, "
        "interleaving, no merging); senderadd equals the documented VERP rule and is the identity otherwise; control.c's readers plus constmap_init's splitting yield exactly the "
        "documented entries for NUL-free files; after a HUP the next preprocessed message uses the reread locals/virtualdomains (percenthack/envnoathost unchanged), without HUP "
        "nothing changes. Tied to the current source by running the real control.c/constmap.c/getcontrols/rewrite/senderadd/comm_write in-process and the real qmail-send main() as a "
        "child process with real SIGHUPs on generated control directories (virtual users, domains, wildcards, catch-all, exceptions, comments, case changes) and recipients built from "
        "the configured names plus near-misses, exhaustively over {u,a,A,@,%,.} up to length 6/8; the oracle is the documented rule set evaluated on the implementation's output.",
   note=NOTE_COMMON + "Modelled, not verified: LP64 hash width; control-file I/O errors and allocation failures; NUL bytes in control files (model exact, oracle not applied); "
        "files with a repeated key are compared with the model only (outside the property's domain); the percent hack's repetition is read as a rule on the (local, domain) pair "
        "(differs from a string-level reading only when an extracted fqdn contains '@'; counted and bounded by theorem C10_pct_string); the real-daemon runs use spawn concurrency 0 "
        "and deliver SIGHUP only while the daemon is blocked in select().",
   technique="Lean 4 proof (loop-to-specification refinement, hash-table/finite-map simulation, relational case-invariance, list partition) + differential correspondence with the C "
             "functions in-process and with the real daemon process under SIGHUP",
   design="DESIGN.md §2 C10")
CHECKS["C11"] = dict(
   text="31 theorems about the Lean model of qmail-newu / cdb / qmail-lspawn nughde_get+spawn+report / qmail-getpw (Nq/Users.lean), for ALL users/assign files, "
        "tables, passwd databases, addresses and single-call fault plans: qmail-local is executed only right after successful setgroups[g], setgid g, setuid u, "
        "getuid=u≠0 with exactly the record's ids and argv; uid 0 (also via non-numeric/wrapping fields) is never executed; qmail-newu's line compiler equals the "
        "declarative colon-field reading of users/assign for every file (C11_newu_parse); the BYTE-level constant database round trip — cdb_seek+cdb_bread "
        "(hash, header pointer, slot walk with wrap-around, record header, chunked key comparison, little-endian words) on the bytes cdbmake writes returns the "
        "first pair's data / absent for every list below the format's 4 GiB limit (C11_cdb_roundtrip); nughde_get's probe order on those bytes equals the "
        "declarative assignment (first exact entry, else longest wildcard prefix, first duplicate, case-insensitive), end to end from the text of users/assign "
        "(C11_assign_to_nughde); on ANY file a hit is backed by a real slot/header/key/data inside the file, answers are stable under file extension, and a "
        "truncated database gives the right record or exit QLX_CDB, never another identity (C11_cdb_hit_sound, C11_cdb_truncated, C11_truncated_defers); "
        "qmail-getpw's loop equals the password-file rules; every lookup/identity error code is reported as one fixed line Z...\\n. "
        "Tied to the current source by the translator (qlx.h, report() switch and texts, conf-break, GETPW_USERLEN, hash start) and by running the real qmail-newu "
        "(cdb compared byte for byte and dumped record by record), cdb_seek (result and file position, also on corrupted/truncated files), qmail-getpw and "
        "docmd()+spawn() child with setgroups/setgid/setuid/getuid/execv recorded, on exhaustive template tables and seeded random tables/passwd databases/faults; "
        "the oracle is the independent spec evaluated on the implementation's output.",
   note=NOTE_COMMON + "Modelled, not verified: POSIX meaning of setgroups/setgid/setuid/getuid; scripted getpwnam/stat; cdb files of 4 GiB and more (the format's limit, "
        "unchecked by cdbmss.c) are outside the round-trip theorem; pointer bytes above 16 MiB and key mismatches that need a 32-bit hash collision are covered by the "
        "theorem and the byte-exact model but cannot be exercised by the harness; allocation failures and qmail-pw2u are not modelled.",
   technique="Lean 4 proof (trace predicates over the child's call list; probe-order = longest-prefix spec; linear-probing insertion invariant; byte-layout 'At' lemmas + "
             "slot-walk/scan simulation for the cdb (de)serialisation; parser = declarative field splitting; monotonicity of the reader under file extension) "
             "+ byte-exact differential correspondence with fault injection and file corruption",
   design="DESIGN.md §2 C11")
CHECKS["C13"] = dict(
   text="Theorems over ALL extensions, home-directory contents, control-file texts, messages and envelope bytes about the Lean model Nq.Local of qmail-local.c: "
        "candidate names = documented search order (exact, then every dash-boundary prefix + 'default', longest first; lower-cased, dots to colons), a file is used iff it is the first "
        "existing regular candidate and not writable by others, first non-absent candidate decides (no fall-through on EIO/EACCES/writable), every name is .qmail++dash++(dot-free, "
        "upper-case-free) hence no '..'; $DEFAULT as documented; home/file permission and sticky refusals exit 111 before anything is opened or delivered; x bit/+list: no file or program "
        "instruction is ever acted on and the first one is refused (111); line splitting and per-line classification = dot-qmail(5); the C instruction loop = an independently written "
        "documented walk (same instructions, deliveries in order, collected addresses, ending) both delivering and with -n; exit 99 keeps earlier forwards and drops later lines; a failure "
        "stops the loop; the forwarded copy is the last effect, only after success, to exactly the collected addresses, with the documented -owner/VERP sender; mailprogram's exit switch "
        "(regenerated from the source each run) = qmail-command(8) for every status; bouncexf = 'a complete header line equals the Delivered-To line' and such a message bounces (100) before "
        "any lookup; Delivered-To/Return-Path are one line each for all bytes. Tied to the current source by a translator (exit switches, conf-patrn, bit masks, exit codes and texts of the fixed "
        "diagnostics) and by running the real main() in-process (sanitised build of the working tree) in generated real home directories against the compiled model: all subsets of 7/5 .qmail names x 46 "
        "near-miss extensions, all sequences of <=3 (thorough 4) lines from a 20-line grammar set x x-bit, real deliveries with stand-in commands for all 256 exit codes and all sequences of <=2 (3) "
        "delivery lines, 16 home modes x 20 file modes, 16 message shapes x hostile recipients/hosts/senders x owner files, 30 000 (400 000) random cases; compared on exit code, stdout, diagnostic, "
        "names opened, delivery events, forward envelope+body, 12 environment variables; the oracle (Nq.LocalSpec = the man pages) is evaluated on the implementation's output.",
   note=NOTE_COMMON + "Modelled, not verified: POSIX lookup in the generated homes (reconstructed by the driver from the case description; the harness verifies the home was realised), result of "
        "commands (stand-ins run by the real /bin/sh) and of mbox/maildir writes (C12), qmail-queue (replaced by a recorder with a scripted verdict), argv strings are NUL-free, date in the From_ line. "
        "Correspondence only (no theorem): EXTn/HOSTn/UFLINE/RPLINE quoting, stdout/stderr texts, the last lines of LocalSpec.follow (exit code after the walk).",
   technique="Lean 4 proof (search-order and confinement lemmas, structural induction over the instruction loop, simulation of the C loop by a documented one-pass walk, header-scan = line spec, finite exit table) "
             "+ translator for switch tables/constants + differential whole-program correspondence in real temporary home directories",
   design="DESIGN.md §2 C13")

CHECKS["C14"] = dict(
   text="Theorems over ALL recipients, report bytes, sender forms and configurations about the Lean model Nq.Bounce of qmail-send.c "
        "stripvdomprepend()/addbounce()/del_dochan()/getcontrols()/injectbounce(): each addbounce call is exactly one paragraph that begins with "
        "the recipient line (LF shown as _), the bounce file and the queued notice contain exactly one paragraph per failed recipient in order, "
        "the report is shown byte for byte up to LF->/ and the original message is appended; the named address undoes exactly what rewrite() did "
        "(nothing for a locals domain, else the virtual-user prefix, else the governing virtualdomains entry's prefix); the notice goes with empty sender to the VERP base address, a failed bounce "
        "to doublebounceto@doublebouncehost from #@[], a failed double bounce nowhere, so every chain has length <= 3; injectbounce removes "
        "bounce/<id> only after the notice was queued, never sends again after success and loses nothing on failure; D and expired-Z reports "
        "are recorded, others not. DAEMON LEVEL (for every event sequence the qmail-send monitor Nq.Daemon of C03/C04 accepts - any interleaving, failing calls, "
        "crashes, restarts - with a history layer that refuses nothing): bounce/<m> is unlinked only right after a successful injection of exactly its "
        "current content (no event on the file in between; text contains the file; envelope = bounce envelope of the sender qmail-queue accepted) or for a #@[] message; "
        "every appended paragraph is, with multiplicity, still in the file (message stays queued), in exactly one committed bounce whose text contains it, or discarded with a #@[] "
        "message; once info/<m> is gone none is left or dropped; a failed injection keeps the record and forbids the unlink; and every behaviour of the injectbounce "
        "model (all 10 fault points) is a behaviour the monitor accepts, its envelope and text passing the monitor's guard. The literal in-place scan loop is proved equal to the model's. "
        "Tied to the current source by running the real "
        "functions (sanitised build, in-memory queue files, captured qmail-queue interface, 10 fault points, all 128 control-file combinations incl. locals) "
        "against the compiled model on every report over {LF,x,<,>,:,0x80} up to length 7/9, every recipient over {LF,a,b,@,-,.} up to 6/7, "
        "all sender forms, bounce->double bounce->discard chains and random cases; every injectbounce case and every whole chain is also replayed, with the bytes the real "
        "addbounce() appended and the envelope/text the real injectbounce() queued, through the daemon monitor, which must accept it; the paragraph/envelope/chain/once oracle is evaluated on the implementation's output.",
   note=NOTE_COMMON + "Modelled, not verified: qmail-queue behind the qmail_* interface (C07/C01), the in-memory file table, NUL-free strings. "
        "Daemon-level theorems are about the monitor's accepted sequences; that real qmail-send runs are accepted is C03/C04's correspondence (qsim) plus, for the bounce events, this check's replay. "
        "At-least-once: a notice whose unlink failed is injected again (stated). Two imprecisions of the monitor found (not of qmail-send): it does not VERP-strip the sender before the #@[] test "
        "(sender '#@[]-@[]': theorem C14_daemon_verp_discard_gap, such senders are not replayed) and its paragraph-header guard ignores stripvdomprepend. "
        "Not a theorem: that a paragraph's text names the address of its record (monitor guard + oracle only). "
        "Two defects of stripvdomprepend vs rewrite() (virtual user entries, locals) were found by this work and are repaired (160bf54, dd724e5); the check flags the old behaviours.",
   technique="Lean 4 proof (paragraph-reader automaton + closed form of addbounce, case analysis of injectbounce, history invariant over the daemon acceptor with trace characterisation) + exhaustive/fault-injecting differential correspondence with the C code and replay through the daemon monitor",
   design="DESIGN.md §2 C14")
CHECKS["C15"] = dict(
   text="Theorems about the Lean model of qmail-send.c's scheduling code and prioq.c: squareroot() is the exact integer root for ALL ages 0..2^32-1 (16-step loop invariant), saturates above, "
        "never overflows for any non-negative long; nextretry() is strictly in the future and equals birth+(isqrt(age)+10|20)^2 (chanskip regenerated from the source), attempts are at least 100 s apart and the "
        "expiring attempt is due by birth+(isqrt(lifetime)+skip)^2; for EVERY sequence of prioq_insert/prioq_delmin the array is a heap, prioq_min is a minimum, insert adds exactly the entry and delmin removes "
        "exactly the root (multiset equalities, hole-technique sift loops transcribed index by index); pass_dochan starts only the heap minimum and only when due, promptly, earliest-due first; flagdying <=> recent > birth+lifetime and then "
        "every K/Z/D report finishes the recipient (Z handled as D with the too-long text); pqfinish+pqstart reproduce the schedule; pqrun makes everything due. Tied to the current source by running the real static squareroot() "
        "on every age below 2^28 (quick) / 2^32 (thorough) and around every perfect square, nextretry() on a 1.25M-point grid, prioq_* on all op sequences over 4 keys to length 8/10 plus random ones to 10^4 ops, and seeded daemon "
        "histories over a real on-disk queue directory (real pqstart/pass_dochan/del_dochan/job_close/pqrun/pqfinish/pass_selprep with a virtual clock stepped around every retry time and the expiry boundary, ALRM, TERM+restart); "
        "the property oracle is evaluated on the implementation's outputs.",
   note=NOTE_COMMON + "Modelled, not verified: times are 64-bit and stay where the C arithmetic cannot overflow; the file system returns the mtime given to utimes (exercised on the real FS); spawners report only K/Z/D "
        "(a mangled report is deferred even in the expiring pass: complement theorem); allocation failure, the SLEEP_SYSFAIL trouble paths and the select loop itself are outside the model (the loop belongs to the Daemon model of C03/C04/C16). "
        "Ages >= 2^32 s are outside the property's quantifier (complement theorems state the saturation).",
   technique="Lean 4 proof (loop invariant with nlinarith; heap-with-a-hole invariants + swap permutations; induction over op sequences) + exhaustive/differential correspondence with the C code incl. function-level daemon histories on a real queue directory",
   design="DESIGN.md §2 C15")

CHECKS["C17"] = dict(
   text="31 theorems about the Lean models of quote.c, token822.c, qmail-remote.c addrmangle, commands.c, qmail-smtpd.c addrparse and qmail-inject.c. Quoting: for EVERY local part (any bytes) and every sane domain "
        "unquote(parse(quote2(local@domain)))=local@domain with token shape word(.word)*@domain; addrparse(<addrmangle a>)=a up to 899 bytes, refused beyond, through one commands() line; the regenerated ok[] table is "
        "inside atomok/atomcheck (decide over 256 bytes). Envelope, from BYTES to the queue: for every legal rendering (a generator-style spec: atoms, quoted strings/literals with any quoted-pairs, nested comments, any white "
        "space and folds) token822_parse returns exactly the rendered tokens; comment tokens never influence token822_addrlist (any token list); for every address list accepted by a grammar automaton - mailboxes, "
        "display-name <route-addr>, groups, repeated and missing commas - and for every address-list tree of mailboxes and groups, token822_addrlist succeeds and hands exactly the listed mailboxes, right to left, to the "
        "callback; a To/Cc/Bcc/Apparently-To (Resent-*) field appends exactly the unquoted rewritten mailboxes to hrlist (hrrlist); for every message on which qmail-inject exits 0 the recipients given to qmail-queue are the "
        "rewritten arguments and/or the concatenation of the fields' contributions per -a/-h/-H/default; rwgeneric equals the documented string-level rewriting (default host, default domain, plus domain, literal hosts, "
        "source routes stripped); parse(unparse n ts)=ts for EVERY line length (folding macro included) on clean tokens; Bcc/Resent-Bcc feed the envelope and never reach the header. Tied to the current source by the "
        "translator (ok[], atomok, atomcheck, escape sets, hname[], H_*, LINELEN) and by two differential harnesses: H1 runs the real quoting/parsing functions on every local part over a 17-byte alphabet to length 5/6 and "
        "every token string over a 15-byte alphabet to length 5/6 plus random long inputs and grammar-generated lists, re-renders the tokens the real parser returned (random folds, quoted-pairs, nested comments) and parses "
        "them again, and runs token822_addrlist a second time without the comment tokens; H2 runs the real qmail-inject main in-process with a stand-in queue on headers from an RFC 822 grammar generator (groups, routes, "
        "comments, quoted strings, literals, folding, missing commas; expected mailboxes known by construction) x flag/strategy/configuration combinations, and injects every produced message a second time. "
        "Oracles (the theorems' predicates) are evaluated on the implementation's own output.",
   note=NOTE_COMMON + "Partial: that the rewritten header, parsed AGAIN by token822_addrlist, yields the same addresses is proved only up to tokens (parse(unparse out)=out); the second address-list pass is covered by "
        "the second-injection oracle only. The grammar automaton is sufficient, not a characterisation of everything the code accepts; headerbody's line splitting is tied by correspondence only. Modelled, not "
        "verified: stand-in queue, control files/environment supplied by the harness, fixed clock and pid, ipme list, no NUL in C strings; Mail-Followup-To (QMAILMFTFILE) is not exercised. Finding C17-angle-comment "
        "(comment inside <...> defeated route stripping / plus-domain rule) was repaired in /repo (a66f18c); the pre-fix code is detected as a violation, and C17_comments_ignored is false for it.",
   technique="Lean 4 proof (tokenizer transducer run lemmas and a fold invariant for unparse, table facts by decide, simulation 'same but taout' for comments, abstract edge automaton for the right-to-left parser, "
        "list induction over header fields) + exhaustive/grammar-based differential correspondence with the C code",
   design="DESIGN.md §2 C17")
CHECKS["C18"] = dict(
   text="Theorems over ALL request strings / command streams / report streams and ALL system-call outcomes about Lean models of qmail-clean.c main, "
        "spawn.c getcmd/docmd/main with the report() of qmail-lspawn.c and qmail-rspawn.c, and qmail-send.c del_dochan: qmail-clean answers every request with exactly one "
        "status byte, unlinks only intd/N, mess/(N mod split)/N resp. intd/N, todo/N of the canonical decimal N < 2^64 named by a 'foop/'/'todo/' request of 7..100 bytes, "
        "nothing after 'x', and the whole-stream trace satisfies the oracle predicate; the spawners open only the command's message id, which is digits and non-leading '/', "
        "never spawn for a non-regular or foreign-owned file (one Z report instead), and reports + running children grows by exactly one per command and is preserved by child "
        "exit/output, over a whole session reports = complete commands, and a child's report body is a fixed text or a letter plus pieces of the child's own output; the report reader keeps dline <= REPORTMAX, ignores out-of-range/unused delivery numbers, and a report for a delivery in flight frees that slot and marks at "
        "most that delivery's own record with the single byte D (nothing for an unknown letter), and over a whole stream the marks equal those of an independent reference reader and form a sub-multiset of the deliveries in flight. Tied to the current source by a translator for every report text/table and by "
        "running the real code (sanitised build, system calls scripted, fork-free) against the compiled models on 2.6 M (quick) exhaustive and random cases with the property "
        "oracle evaluated on the implementation's traces.",
   note=NOTE_COMMON + "Modelled, not verified: system-call outcomes are inputs; OOM, write errors to the parent, EINTR and the child side after fork are not exercised; "
        "the multiset of delivery numbers over a session and the bounce half of sendOK are checked by the oracle only; the session-level report count and the stream-level mark statements are theorems. The heap over-read this check found in qmail-rspawn.c report() is fixed (9e1dfcc); the pre-fix code is a detected mutant.",
   technique="Lean 4 proof (validation cascades, decimal round trip, per-event balance invariants) + translator for report tables + exhaustive/structured differential correspondence of three real programs",
   design="DESIGN.md §2 C18")
CHECKS["C19"] = dict(
   text="Theorems (43, no sorry) over ALL stored messages, command streams and maildirs about the Lean model Nq.Pop3 of qmail-pop3d.c/maildir.c/prioq.c/commands.c and qmail-popup.c: "
        "an RFC 1939 client decodes RETR to exactly the lines of the file plus the documented blank line and TOP n to header+blank+n body lines (no bare LF, dots stuffed, "
        "terminator only at the end); the message table built at start-up is a permutation of the eligible files (new/ and cur/, no dot files, mtime < now) sorted by mtime "
        "(heap sort of prioq.c, proved by showing the POP3 heap model equal to the C15 heap model and reusing its lemmas) and message numbers denote that same file and size for the whole session, "
        "whatever bytes arrive in whatever pieces and whatever files vanish; STAT's total is the sum of the sizes of the unmarked messages; LAST is the highest number marked since the last RSET; "
        "a command line verb SP+ arg [CR] is dispatched as exactly (verb, arg), one handler per LF-terminated line, and the model's parser agrees with the reference's on every NUL-free line; "
        "nothing is unlinked before or without QUIT, QUIT removes exactly the messages marked by an accepted DELE since the last RSET and keeps the rest; 0, out-of-range, >= 2^64, non-numeric and "
        "marked numbers are refused without effect; uid 0 exits 1 before touching the maildir; before authentication only USER/PASS/APOP/NOOP/QUIT act and descriptor 3 gets user NUL pass NUL <timestamp> NUL verbatim. "
        "Tied to the current source by the translator (both pop3commands[] tables, the number scanner in use) and by running the real main() of both programs (sanitised build of the "
        "working tree, real temporary maildir, stand-in checker) against the compiled model on every command sequence up to length 3/4 over a 41-command alphabet on 5 maildir populations, "
        "every message over {LF,'.',a,CR} up to length 6/7, random sessions with vanishing files, arbitrary read sizes and maildirs of up to 49 messages, and by driving prioq.c directly "
        "(every insertion order of up to 6 entries, random histories of up to 400 insert/delmin calls, array compared entry by entry); the oracle is an independent RFC 1939 reference evaluated on the "
        "implementation's transcript (STAT total and LAST value included) plus, for the heap, 'every delmin removes a minimum, nothing lost, drain sorted' evaluated on the implementation's output.",
   note=NOTE_COMMON + "Modelled, not verified: readdir order (recorded by the harness), the clock (fixed), stat/open/read succeed on existing files, unique maildir names, pipe/fork succeed, timeouts. "
        "By correspondence and oracle only: which of several files with equal mtime gets the lower number (heap shape; left open by the property). "
        "LAST is specified as the code behaves (highest DELEted number; RFC 1460's 'highest accessed' would also count RETR) - the man page only says LAST is supported.",
   technique="Lean 4 proof (encoder/decoder induction over lines, session invariants, file-system algebra for QUIT, heap-sort via simulation to the C15 prioq model) + translator for command tables + exhaustive differential correspondence with the C programs",
   design="DESIGN.md §2 C19")
CHECKS["C02"] = dict(
   text="Theorems about EVERY state reachable from the empty queue by ANY sequence of system-call-granular events of any number of qmail-queue instances, qmail-send with its qmail-clean, further "
        "qmail-send instances, the clock, kills and crashes (Lean model Nq.QueueSys; one event per directory operation; inductive invariant coupling each actor's control point to the files of its number, "
        "proved for all 23 event kinds): every message number is always in one of S1-S5 of INTERNALS.md (C02_states); mess/n names inode n (C02_inode); a number is taken only in S1 and never shared "
        "by two running injectors (C02_unique_*); every step is a documented move S1>S2>S3>S4>S5>S2>S1 / S3>S2 (C02_moves), bounce/n is removed only after local/remote, info/n only after those and bounce, "
        "mess/n last (C02_order_*); qmail-send asks for collection of intd/mess only right after removing info/n itself or when inode n is older than OSSIFIED = 36 h and it saw no info and no todo - and "
        "then these facts still hold and no running qmail-queue owns n, because DEATH < OSSIFIED (constants regenerated from the sources) (C02_stale, C02_stale_window, C02_timer); only the lock holder "
        "changes the queue (C02_mutex_needed, from the invariant). Three statements hold by construction of the model and get their force from the guards replayed on real traces plus the oracle, not from the induction: "
        "C02_inode (the guard m = n of iLinkMess + oracle 'name differs from inode'), C02_mutex (a qmail-send that finds the lock taken has no further event; oracle 'queue changed by a qmail-send that does not hold the lock'), "
        "C02_crash (a crash changes no name; the point is that the state it leaves is reachable, so everything above holds after it). The guards of the model are OS facts about succeeded calls "
        "and the code's own observations (stat/unlink results since it last slept), never the documented states themselves. Tied to the code by running the real qmail-queue (3 instances), qmail-send "
        "(2 instances) and qmail-clean as threads under the in-memory POSIX simulator with a seeded schedule decision before every queue-directory call, stalled/killed injectors, malformed envelopes, "
        "single faults, aged leftovers of every kind (which the model reaches from the EMPTY queue by a synthesised accepted event sequence, so every replayed run starts from a reachable state), clock jumps, world crashes and restarts, sender forms '', '#@[]', failing bounce injections (2400/60000 seeded scenarios) plus a systematic leg: depth-first enumeration of every interleaving of the queue-file calls for five small configurations (complete for the first in the quick tier; the evidence says per configuration how many partitions were enumerated completely): each trace is replayed through QueueSys.accept, the reconstructed directory is compared "
        "with the simulator's dump, and the oracle evaluates the theorems' predicates on the concrete directory after every mutating call.",
   note=NOTE_COMMON + "Modelled, not verified: OS semantics of DESIGN.md 1.4 as implemented by harness/sim.c (atomic synchronous directory operations, fresh inode numbers, alarm(n) lets no call happen n seconds "
        "later, flock as mutex, atime of a new file = creation time); qmail-clean dies with its qmail-send; bounce injection is a stand-in (C01/C14); spawners scripted; readdir returns at least the entries present "
        "during the whole scan. Schedules are sampled, not enumerated: the unbounded-interleaving claim rests on the theorem, the sampling ties the model to the code.",
   technique="Lean 4 proof (inductive invariant of an interleaving system with unboundedly many actors, closed under kill/crash/restart; per-step documented-move theorem) + trace-replay correspondence with the real programs under a deterministic POSIX simulator (schedule, fault, stall, crash injection)",
   design="DESIGN.md §2 C02, Appendix B")

CHECKS["C12"] = dict(
   text="Theorems over EVERY accepted system-call trace of the Lean acceptors of qmail-local.c maildir()+maildir_child() and mailfile() (hence every message, chunking, short write, "
        "EINTR, failing open/read/write/fsync/close/link, alarm) and, by prefix-closure, every crash instant with un-fsynced data arbitrary: a name in new/ => the file is exactly "
        "Return-Path line + Delivered-To line + message; exit 0 => present and durable; failure => 111 and absent (unless a signal hit the child after link: then complete); "
        "new/ is populated only by link after open_excl, complete writes, fsync, close; the name time.pid.host determines time and pid; the exit-status switch is regenerated from the source. "
        "Mbox: for ALL messages, senders, recipients, times the appended entry is read back by the mbox(5) reader (written independently from the man page) as exactly the old messages "
        "plus (From_ line, Return-Path + Delivered-To + message with only a partial last line completed); header lines are single lines, the From_ line yields the sanitised sender; "
        "gfrom = documented From_/>From_ test; for ANY number of concurrent deliveries and every interleaving with flock as a mutex the file is always old content + complete entries "
        "in lock order + the holder's partial output, failed deliveries leave nothing (truncate to the length lseek returned under the lock), final file = entries of exactly the exit-0 deliveries; "
        "after open_append every exit is 0 or 111 and 0 iff a successful fsync of the complete entry happened; the From_ date has exactly 24 characters for years <= 9999 (from the proved Gregorian "
        "calendar of datetime_tai); a run ending in a successful link has before it open_excl, writes = exactly the content, fsync after the last write, close (inductive). "
        "Inductive consequences of trace/interleaving invariants: atomic, success, failure, exit codes, link_reach, serial, final, rollback, append, exit_zero_iff; guard restatements tied only by "
        "trace replay: link_only, truncate_only_locked, rollback_needs_lock, synced_by_fsync. "
        "Tied to the current source by running the real qmail-local main() under the in-memory POSIX simulator (fork redirected so the maildir child runs as a second simulated process): "
        "every crash point x 5 crash resolutions, every call index x {EIO, ENOSPC, short write, EINTR, alarm}, sizes around the 1024-byte buffers, name collisions, 2-3 concurrent "
        "deliveries under enumerated schedules; every trace replayed through the acceptors; gfrom()/myctime() exhaustively/densely; oracle = maildir predicate on concrete crash states, "
        "mboxRead on the concrete final file.",
   note=NOTE_COMMON + "Modelled, not verified: OS semantics of DESIGN 1.4 (sim.c); (time,pid) unique among live deliveries (the name-uniqueness clause rests on this plus the "
        "injectivity theorem); files present in new/ before a delivery staying untouched is oracle-only (driver checks every traced name, crash states compared); if lock_ex() fails the program "
        "proceeds unlocked, and a failing ftruncate is ignored by the code: both are outside the hypothesis Benign of the serial/final/roll-back theorems (exercised and counted in the evidence); old mbox not ending at a line boundary is outside the round-trip theorem; "
        "mbox is not crash-atomic (only roll-back on errors is claimed); C12_date_24 imports the calendar theorem of Nq/Lemmas/Datetime.lean (C07 worker).",
   technique="Lean 4 proof (acceptor invariants over all traces + crash relation; interleaving-system invariant for unboundedly many processes; list-level round trip through the mbox(5) reader) "
             "+ exact trace correspondence with the real program under a deterministic POSIX simulator (crash, fault and schedule enumeration)",
   design="DESIGN.md §2 C12")
CHECKS["C20"] = dict(
   text="PARTIAL proof. Proved for ALL lengths (Lean, no bound) about models of the code between untrusted input and memory: gen_allocdefs.h readyplus/ready/append, "
        "stralloc_catb/copyb and quote.c doit() with the exact 32-bit arithmetic of __builtin_add/mul_overflow (success => len <= a, a*sizeof = bytes requested without wrap, every store "
        "index < a; a request that does not fit 32 bits is refused untouched - the CVE-2005-1513 regime; quote.c doit()/quote_need() for every length that passes the two overflow checks, with the counter "
        "types read from the source - the pre-26e354b signed counters provably overflow for >= 2^30-byte addresses and are kept as a mutant model); substdio put/bput/flush/putflush/feed/get (0 <= p <= n, n+p = size, every byte_copy inside the buffer, caller buffer never overrun, stream laws for every write/read chunking); "
        "the fixed buffers of qmail-qmqpd/qmail-qmtpd/qmail-getpw/qmail.c (sizes and guards regenerated from the sources), spawn.c slots and report truncation, REPORTMAX, pop3d msgno; dns.c "
        "resolve/findname/findip/findmx (every read < responselen for every dn_expand honouring its contract; the pre-367ee1b code provably over-reads); the cdb reader on arbitrary files. "
        "Tied to the current source by differential harnesses on the real functions (ASan+UBSan, exact-size blocks, scripted allocator/descriptors, interposed resolver with poisoned buffer tail). "
        "NOT proved - covered only by sanitised execution: all other parser loops and whole programs: token822/cdb/control/constmap/ip/headerbody/getln in-process (~1.5M/13M cases) and the real "
        "sanitised qmail-smtpd/-qmtpd/-qmqpd/-pop3d/-popup/-inject/-local binaries on every truncation point, declared lengths up to 2^31/2^32/2^64, thousands of tokens, nesting 50000 "
        "(~12k/90k child runs); oracle = no sanitizer report/signal/hang, documented exit status.",
   note=NOTE_COMMON + "Partial: absence of UB outside the modelled arithmetic is evidence by instrumented execution, not proof. Assumed: LP64, builtin overflow semantics, malloc(0) != NULL, "
        "read/write return 1..len or -1, resolver returns -1 or 12..buflen bytes, dn_expand contract (checked at run time), fmt_ulong <= 20 digits. Slot/REPORTMAX/msgno/cdb theorems are about the "
        "models of C18/C19/C11. The 1 GiB quote() case runs in the thorough tier (and as failing-input search when an obligation breaks), not in quick.",
   technique="Lean 4 proof (bounds arithmetic over exact machine-integer models; inductive stream laws) + translator for buffer sizes/guards + differential correspondence + sanitised execution of real binaries",
   design="DESIGN.md §2 C20")
