# Manifest entries contributed per property (text, note, technique, design). Loaded by mkmanifest.py.
CHECKS["C07"] = dict(
   text="Theorems about the Lean models of qmail.c (flagerr discipline with substdio buffering and write faults), qmail_close's verdict switch (table regenerated from the source), "
        "received.c/date822fmt.c/datetime.c and the reply selection of qmail-smtpd/qmtpd/qmqpd: a flagged failure or an exit before qmail_close never leaves a complete envelope on qmail-queue's descriptor 1 "
        "(for every body, sender, recipient sequence and write-fault schedule); verdict \"\" iff exit 0, no crash, no flagerr, D exactly for 11..40/115/82+D for all exit statuses; 250/K iff verdict \"\" "
        "(and sender ok, no overflow, flagok) with the flags proved to be functions of the input: overflow iff databytes is in force and the decoded message is longer (SMTP, QMTP in both framings), senderok/flagok/failure bytes "
        "from the netstring payloads; over the size limit / unacceptable sender / no accepted recipient / bad QMQP address imply a qmail_fail among the calls, hence a failure verdict for every queue outcome, no complete envelope and the "
        "documented permanent reply, and conversely a complete envelope with exit 0 forces the acknowledgement; a message or request the daemon reads to the end is one of the independent strict netstring grammar and the envelope "
        "recipients are exactly the payloads whose failure byte is 0, in order; for a whole QMTP connection the client's bytes are an order-preserving prefix of the replies of the completely read messages, each status computed from "
        "its own record's verdict, K implying that record's pipes hold exactly the message, and a cut inside message k+1 leaves it neither acknowledged nor queued; 554 hops before 552 size before 554/451; the hop scanner of blast() "
        "equals, for every byte stream, the line-based count of header lines beginning with received/delivered in any case (the code's prefix rule, see C05), and a count >= MAXHOPS gives 554 and no complete envelope for every queue outcome; datetime_tai is the proleptic Gregorian calendar for every integer instant "
        "(independent days-from-civil round trip, uniqueness) with the exact range in which no C int overflows, and date822fmt renders it as D Mon YYYY HH:MM:SS -0000; issafe() (table regenerated from received.c) "
        "is exactly the documented safe set (letters, digits, . @ % + / = : - [ ]), safeput is the specification's cleaning function, the Received field is byte for byte the specified one, exactly two lines, and a "
        "well-formed RFC 822 field (printable ASCII, balanced comments, no backslash or quote, one fold) for every HELO/TCPREMOTE*/TCPLOCAL* string. "
        "Tied to the current source by three whole-program harnesses (real daemons + real qmail.c, real pipe/fork/execv of a stand-in queue program) compared byte for byte "
        "(replies, exit status, bytes on the queue program's descriptors 0 and 1) with the compiled models over every exit status 0..255, sizes around databytes, hops 97..102, address lengths 0..1030 "
        "(every length around 256/900/1000/1024) in every role, NULs, every byte value 0..255 alone and inside longer strings in each of HELO/EHLO argument, TCPREMOTEHOST/IP/INFO, TCPLOCALHOST/IP, "
        "every cut point and every single-byte substitution of short sessions, write faults, random mutated sessions; by a real-queue leg in which the same daemons talk to the unmodified qmail-queue.c on a private "
        "queue directory (clean sessions, cuts, envelopes over 1024 bytes with the flush boundary swept over every position of a recipient record followed by disconnect / NUL / over-long recipient / broken framing) "
        "and 'queued' is read off the queue directory; and by a fourth harness running the real datetime_tai/date822fmt on about 260000 instants "
        "(every day 1968..2106, leap/century/era boundaries out to both ends of the supported range, negative and huge values, UBSan just outside the range); the oracle (strict netstring grammar, reference decoder, "
        "independent safe set and field grammar, independent calendar and hop count, qmail-queue.8 classes, commit only after a complete envelope) is evaluated on the implementation's behaviour; a session on which "
        "ASan/UBSan stops the daemon is replayed on an uninstrumented build of the same harness and reported with what that build answered and queued.",
   note=NOTE_COMMON + "Modelled, not verified: on the stand-in legs the queue program honours qmail-queue.8 (exit 0 only after a complete envelope; custom text starts with D/Z) - the real-queue leg checks 'commit => complete envelope, exit 0' "
        "on the real qmail-queue.c for the streams the daemons produce (crash/fault atomicity of qmail-queue is C01); pipes do not short-write, read chunking (4 chunkings run); the real qmail-queue is drained at exit (it goes away after the daemon closed the pipes). "
        "Also proved: on ack the queue program received exactly Received ++ decoded body and the envelope of the acknowledged sender/recipients (C07_content_*), and no proper prefix of a complete message/request/DATA gets to qmail_close or a reply (C07_cut_*). "
        "Not theorems (oracle + correspondence only): the SMTP command part (incl. how the HELO argument is cut out of the command line, and that no other 2xx line follows DATA: stray-ack oracle), rcpthosts, date822fmt for negative years; "
        "the reply-selection theorems C07_*_ack, C07_qmtp_rcpt_reply (first conjunct), C07_qmtp_rcpt_policy and C07_cut_before_from are unfoldings of definitions, the property clauses are the composed theorems named above. "
        "The hop count follows the code's prefix rule (a header line BEGINNING with received/delivered counts, whatever follows). datetime_tai's yday is one too large from March on in 1900/2100/... (proved exactly; the field is unused). "
        "QMTP replies still buffered in the 256-byte ssout are lost when the daemon exits on a later protocol violation (modelled; the oracle accounts for replies cut inside one message). "
        "One open finding is reported as KNOWN-FINDING (unvalidated exit-82 text); the qmtpd recipient-length digit check is repaired (e90aa72).",
   technique="Lean 4 proof (buffer/prefix invariants, NUL-pair invariant of the envelope, decide over the regenerated switch table and the regenerated safe-character table, inversion of the parser cascades against an independent strict grammar, induction over the connection with a lost-or-dead invariant of the reply buffer, Mealy machine = line-based specification by induction over the stream, "
        "comment-depth automaton over the concatenated field, calendar arithmetic by omega over the SSA form of datetime_tai) + whole-program differential correspondence with fault injection, against a stand-in and against the real qmail-queue",
   design="DESIGN.md §2 C07")
CHECKS["C08"] = dict(
   text="Theorems over ALL configurations and ALL command sequences / byte streams about the Lean model of qmail-smtpd's transaction logic (commands() line reader, "
        "addrparse, bmfcheck, rcpthosts, smtp_helo/ehlo/rset/mail/rcpt/data as a state machine, the byte-level session with DATA swallowing its message): every envelope "
        "handed to the queue follows a MAIL answered 250 with no HELO/EHLO/RSET/MAIL-250/completed DATA in between, carries that MAIL's parsed sender and exactly the "
        "RCPTs answered 250 since, at least one (C08_submit); RCPT is answered 250 IFF a transaction is open, its sender is not on badmailfrom (address or @domain, "
        "case-insensitive), the argument parses within the 900-byte limit after localiphost replacement, and RELAYCLIENT is set (suffix appended) or the domain is covered "
        "by rcpthosts/morercpthosts (exact or dot-suffix, case-insensitive; no @ allowed; no rcpthosts file allows all) (C08_gate, C08_match_spec, C08_bmf_spec, C08_len, "
        "C08_liphost). Tied to the current source by a translator (command table, reply texts, limit, seenmail resets) and by running the real main()/setup()/commands()/"
        "smtp_*/rcpthosts/constmap/control/cdb_seek/ip code and the real qmail-newmrh in-process (sanitised build of the working tree) against the compiled model on every "
        "palette command sequence up to length 4/5, every address string over an 11-symbol alphabet up to length 5/6, structured and random addresses, sessions and "
        "configurations; the oracle evaluates the theorems' predicates on the implementation's replies and envelopes.",
   note=NOTE_COMMON + "Modelled, not verified: constmap/cdb as finite sets; ipme as a list parameter; qmail.o replaced by an envelope recorder (C07); timeouts, databytes, "
        "MAXHOPS not modelled; address unquoting has no independent spec (the oracle uses the model's addrparse as the parsed address).",
   technique="Lean 4 proof (history invariant over traces; iff between lookup code and declarative match spec; checker = predicate) + exhaustive/structured differential "
             "correspondence with the C code, whole sessions in-process",
   design="DESIGN.md §2 C08")

CHECKS["C09"] = dict(
   text="Theorems over ALL server scripts (any byte stream the server sends, cut anywhere = disconnect/stall, any failing write) about the Lean model smtpRun of "
        "qmail-remote.c smtp()/smtpcode()/quit()/dropped(), proved by case analysis over the model's control flow against a separately written rule table `expect` that is STRICT "
        "about the final QUIT: over the replies and codes as delimited by smtpcode() (first line's code of a multi-line reply) the message report has exactly the class the rules require "
        "(first decisive event: greeting!=220/HELO!=250 -> Z; MAIL/DATA/final-dot >=500 -> D, 400..499 -> Z; all RCPT refused -> D; lost connection -> Z, flagged 'Possible duplicate!' "
        "between the final flush and the reply to the dot) for every script (C09_classes); a failing QUIT write changes neither the recipient reports nor the message report, only QUIT is "
        "missing on the wire (C09_quit_corner; since /repo 7dc98ec, the pre-fix code is a mutant the check catches); K only if every phase was accepted, no write up to "
        "the final flush failed and the whole message (and QUIT, unless its write fails) was sent, per-recipient r/s/h reports are the classes of their own RCPT replies in argument order, commands reach the server in "
        "argument order. Independent of the model's own framing: smtpcode() = line-based multi-line reading on well-formed streams, code = decimal value, hence the classes against the "
        "line-based codes (C09_classes_wellformed). About the model rreport of qmail-rspawn.c report(): scan loop = first terminated K/Z/D record, K relayed only for exit 0/no crash/first "
        "report not h,s/first K-Z-D report K, crash/111 -> Z, other exits -> D, never an upgrade, relayed text = bytes of the child's output only; composed end to end (relayed K => rules say K "
        "and the recipient was accepted). The C09_rule_* theorems only spell out the rule table. The models are tied to the current source by differential replay only: the real smtp() against "
        "a scripted socket (every assignment of 13 reply kinds to the 5+n phases, every failing write, message sizes around the 1024-byte output buffer, every short byte string as a reply, "
        "random conversations), the real report() on every output over {r,h,s,K,Z,D,x,NUL} up to length 6/8 x exit statuses, and the real main() from the DNS result on (every lookup result x "
        "every list of <=3 addresses: MX preference vs. this host, tcpto skip, connect ok/refused/timeout -> temp_noconn Z, never K before a connection, first eligible connecting address used); "
        "~1M/23M cases, comparing report bytes, wire bytes, exit status, relayed line and tcpto_err calls. The strict property predicates are evaluated on the implementation's output; whether a "
        "failing write inside blast() is critical is decided from the bytes of that write, not from the client's flagcritical.",
   note=NOTE_COMMON + "Modelled, not verified: select/read/write inside timeoutread/timeoutwrite (scripted socket: EOF and timeout both end in dropped()); substdio buffering "
        "(several chunkings; position of buffer-full flushes not modelled: whether a failing blast() write came after 'flagcritical = 1' / carries the end of the message is computed from its bytes, never read from the client); control files, smtproutes, the resolver, "
        "ipme, tcpto's file and connect() are scripted answers to the real main(); spawn.c's collection loop; 64-bit unsigned long. Finding C09-quit-write-failure (a failing QUIT write "
        "replaced a decided K/D by Z 'connection died') was found by this check, fixed in /repo 7dc98ec (notes/C09-fix-2.diff); model, theorems and the strict oracle follow the repaired code.",
   technique="Lean 4 proof (control-flow model vs. declarative class rules; automaton = line spec; scan loop = first-record spec; composition) + exhaustive differential correspondence with the C code",
   design="DESIGN.md §2 C09")
CHECKS["C10"] = dict(
   text="30 theorems about the Lean model of qmail-send's routing, over ALL configurations, recipient byte strings, todo files and event traces. Function-level refinement "
        "(no monitor involved): rewrite() (default host, percent-hack loop, locals, virtualdomains scan) equals the documented rule set routeSpec for every configuration without a "
        "repeated virtualdomains key (later entry wins otherwise); the constmap hash table (djb hash of the case-folded key, bucket chains, hash+length+case_diffb test) is the "
        "case-insensitive finite map with no hypothesis; routing is invariant under ASCII case changes; todo_do's record loop equals the documented preprocessing specTodo on EVERY byte "
        "string (fails iff a record is empty or of unknown type; otherwise info = F records, local/remote = the routed T records in input order: partition, interleaving, no merging - "
        "rewrite() provably introduces no NUL); senderadd equals the documented VERP rule; control.c's readers plus constmap_init's splitting yield exactly the documented entries for "
        "NUL-free files, at start-up and at the HUP reread. Inductive consequences over every trace accepted by the monitor acceptAll (events: control files edited / SIGHUP sets the "
        "flag / main loop passes its top and rereads if the flag is set / todo_do preprocesses a message under the configuration in force): without SIGHUP nothing changes whatever is "
        "edited; after a HUP served at the loop top every later message until the next SIGHUP uses locals/virtualdomains as on disk at that moment, whatever is edited afterwards; "
        "me/envnoathost/percenthack never change; and, end to end (C10_trace, simulation invariant between model state and documented state), every accepted trace from any start-up "
        "directory satisfies the documented predicate specTrace (outputs = specTodo under specCfg, replaced by specHup at each served HUP), whose statement does not mention the model. "
        "One-step facts that merely unfold the monitor: C10_hup (hup then top = reget of the files on disk), C10_hup_race (a SIGHUP after the flag test does not affect the next "
        "message: the select race). The monitor's guard for a message (outputs = todoDo under the configuration in force) and the model functions are tied to the current source by "
        "trace replay and differential runs: the real control.c/constmap.c/getcontrols/rewrite/senderadd/comm_write in-process, and the real qmail-send main() as a child process "
        "with real SIGHUPs (control files edited before, at and after a served HUP; refused messages; deliveries enabled with the harness as qmail-clean and both spawners), every "
        "observed trace fed event by event to accept/acceptAll (DISAGREE) and judged by specJudge/specStep/specTrace, routeSpec, verpSpec, specCfg evaluated on the implementation's "
        "output (ORACLE); generated control directories (virtual users, domains, wildcards, catch-all, exceptions, comments, case changes, whole alphabet) and recipients built from the "
        "configured names plus near-misses, exhaustively over {u,a,A,@,%,.} up to length 6/8.",
   note=NOTE_COMMON + "Modelled, not verified: LP64 hash width; control-file I/O errors and allocation failures; NUL bytes in control files (model exact, oracle not applied); "
        "configurations with a repeated virtualdomains key are compared with the model only (repeated locals/percenthack keys are judged); the percent hack's repetition is read as a "
        "rule on the (local, domain) pair (differs from a string-level reading only when an extracted fqdn contains '@'; counted, bounded by theorem C10_pct_string); SIGHUP is delivered "
        "only while the daemon is blocked in select() and a step ends when it is blocked there again, which is what maps a harness step to the events hup, top (the select race is "
        "stated as C10_hup_race, not exercised); a refused message is recognised through /proc (asleep in select() without a clean request); deliveries are always answered with success.",
   technique="Lean 4 proof (loop-to-specification refinement, hash-table/finite-map simulation, relational case-invariance, list partition, trace induction and a simulation invariant "
             "for the HUP monitor) + differential correspondence with the C functions in-process and trace replay of the real daemon process under SIGHUP, with and without deliveries",
   design="DESIGN.md §2 C10")
CHECKS["C11"] = dict(
   text="43 theorems about the Lean model of qmail-newu / cdb / qmail-lspawn nughde_get+spawn+report / qmail-getpw (Nq/Users.lean), for ALL users/assign files, "
        "tables, passwd databases, addresses (any bytes) and single-call fault plans. Composed identity (C11_identity): with users/cdb compiled by qmail-newu from "
        "users/assign (or absent) and no failing call, the delivery child does exactly what the tables dictate - the record of 'first exact entry, else longest wildcard "
        "prefix (first duplicate, ASCII-case-insensitive), or else the password-file rules', read by an independent record reader, then setgroups[gid], setgid gid, "
        "setuid uid, getuid, execv bin/qmail-local with the argv of qmail-local(8); uid 0 (also via non-numeric/wrapping fields) exits QLX_ROOT before any exec; under "
        "every fault any exec that still happens has exactly that identity and argv, and nothing is executed when the tables give no runnable identity "
        "(C11_identity_faults); every non-exec end of the child is exit 0 for the null recipient, QLX_EXECHARD after a permanent execv failure, or a code reported Z "
        "(C11_child_defers). These are compositions of inductive results: qmail-newu's line compiler = the declarative colon-field reading for every file (C11_newu_parse); "
        "the BYTE-level cdb round trip - cdb_seek+cdb_bread on the bytes cdbmake writes returns the first pair's data / absent for every list below 4 GiB "
        "(C11_cdb_roundtrip); nughde_get's probe order = the declarative assignment (C11_lookup_spec, C11_assign_to_nughde); qmail-getpw's loop = the password-file rules; "
        "spawn()'s six byte_chr/scan_ulong steps = the declarative record (C11_record_parse), tied to the fields of the users/assign line and of the passwd entry "
        "(C11_table_record, C11_passwd_record). On ANY file a hit is backed by a real slot/header/key/data, answers are stable under extension, a truncated database gives "
        "the right record or QLX_CDB (C11_cdb_hit_sound, C11_cdb_truncated, C11_truncated_defers); every lookup/identity error code is one fixed line Z...\\n. "
        "NOT inductive: C11_order/C11_argv/C11_runs_assigned_user/C11_never_root speak about the model's dropAndExec, which emits the four calls before execv in that "
        "order by construction (content: no other path execs; ids/argv are the parsed record's); that the real spawn() does so is established by trace replay. "
        "Tied to the current source by the translator (qlx.h, report() switch and texts, conf-break, GETPW_USERLEN, hash start) and by running the real qmail-newu "
        "(cdb compared byte for byte and dumped record by record), cdb_seek (result and file position, also on corrupted/truncated files), qmail-getpw and "
        "docmd()+spawn() child with setgroups/setgid/setuid/getuid/execv recorded, on exhaustive ASCII and 8-bit template tables and seeded random tables/passwd "
        "databases/faults with names over the whole byte range; the oracle is the independent spec (specIdentity, specRecord, specArgv, specChild, guardedAny, traceOk) "
        "evaluated on the implementation's recorded calls and outcome.",
   note=NOTE_COMMON + "Modelled, not verified: POSIX meaning of setgroups/setgid/setuid/getuid; scripted getpwnam/stat; cdb files of 4 GiB and more (the format's limit, "
        "unchecked by cdbmss.c) are outside the round-trip theorem; pointer bytes above 16 MiB and key mismatches that need a 32-bit hash collision are covered by the "
        "theorem and the byte-exact model but cannot be exercised by the harness; allocation failures and qmail-pw2u are not modelled; the order of the stdin/stdout/stderr "
        "moves is compared with the model only (property-neutral), not by the oracle; `Installed` assumes users/cdb is the output of qmail-newu (arbitrary/corrupt files: "
        "only the any-file theorems apply).",
   technique="Lean 4 proof (composition of parser = declarative field splitting, linear-probing insertion invariant, byte-layout 'At' lemmas + slot-walk/scan simulation "
             "for the cdb (de)serialisation, probe-order = longest-prefix spec, record reader = split at NUL, fmt_ulong/scan_ulong round trip, case analysis over all fault "
             "plans; trace predicates over the child's call list; monotonicity of the reader under file extension) "
             "+ byte-exact differential correspondence with fault injection, file corruption and 8-bit names",
   design="DESIGN.md §2 C11")
CHECKS["C13"] = dict(
   text="51 theorems over ALL extensions, home-directory contents, control-file texts, messages and envelope bytes about the Lean model Nq.Local of qmail-local.c "
        "(a transcription of the C control flow; every theorem is proved by induction / case analysis on the model's definitions, none restates a monitor guard; the model "
        "is tied to the code by a translator and by trace replay): candidate names = documented search order (exact, then every dash-boundary prefix + 'default', longest "
        "first; lower-cased, dots to colons), a file is used iff it is the first existing regular candidate and not writable by others, first non-absent candidate decides, "
        "every name opened AND every name given to stat for the -owner test during a whole run is .qmail++dash++(dot-free) hence has no '..'; $DEFAULT as documented; "
        "home/file permission and sticky refusals exit 111 before anything is opened, stat'ed or delivered; x bit / +list anywhere in the file: afterwards only forward lines "
        "are acted on and the first file or program line is refused (111); line splitting and per-line classification = dot-qmail(5); the loop stops at the first line that "
        "does not run through, every instruction acted on succeeded unless the loop failed, a failure is one of four identified cases tied to the failing line and its "
        "diagnostic, exit 99 keeps earlier (successful) lines and drops later ones; the forwarded copy is the last effect, made iff the loop did not fail and addresses were "
        "collected, with the documented -owner/VERP sender; exit code in all cases (0 on success and after 99, diagnostic's code on failure, 100/111 on qmail-queue's D/other "
        "answer); mailprogram's exit switch (regenerated each run) = qmail-command(8) for every status; bouncexf = 'a complete header line equals the Delivered-To line', such "
        "a message bounces (100) before any lookup, and only such a message gets that diagnostic; Delivered-To/Return-Path/From_ prefix contain no embedded newline; and the "
        "capstone: run = LocalSpec.outcome (one documented result per invocation: exit code, effects in order, instructions acted on, counts, printed text) for every "
        "invocation and world. Tied to the current source by a translator (exit switches, conf-patrn, bit masks, exit codes and texts of the fixed diagnostics, qmail-queue "
        "verdict codes) and by running the real main() in-process (sanitised build of the working tree) in generated real home directories against the compiled model: all "
        "subsets of 7/5 .qmail names x 46 near-miss extensions, all sequences of <=3 (thorough 4) lines from a 20-line grammar set x x-bit, real deliveries with stand-in "
        "commands for all 256 exit codes and all sequences of <=2 (3) delivery lines, 16 home modes x 20 file modes, 16 message shapes x hostile recipients/hosts/senders x "
        "owner files, the recipient's own Delivered-To line (and near misses) at every offset around read-buffer boundaries 128..8192, control files across 256/512/1024, "
        "30 000 (400 000) random cases; compared on exit code, stdout, diagnostic, names opened, names stat'ed, delivery events, forward envelope+body, 12 environment "
        "variables; the oracle is LocalSpec.outcome (the function of the capstone theorem) plus search-order, confinement, owner-name, $DEFAULT, loop and header-line "
        "predicates and a post-run scan of the home directory, evaluated on the implementation's output.",
   note=NOTE_COMMON + "Nq.LocalSpec is an independently formulated specification (one-pass walk with a state record, outcome as a decision list), not a verbatim rendering of "
        "the man pages: it mirrors artefacts the pages do not mention (NUL truncation of control-file lines, leading NUL = blank line, +list and ignored +other lines, the C "
        "boundary condition of the search loop). Modelled, not verified: POSIX lookup in the generated homes (reconstructed by the driver from the case description; the harness "
        "verifies the home was realised), result of commands (stand-ins run by the real /bin/sh) and of mbox/maildir writes (C12; here an arbitrary oracle function - theorems "
        "that need failing deliveries to have non-zero codes or file-delivery diagnostics say so as hypotheses), qmail-queue (replaced by a recorder with a scripted verdict), "
        "argv strings are NUL-free, date in the From_ line, stat(\".\") failing (outside the documentation; model and code agree on 111). Correspondence only (no theorem): "
        "EXTn/HOSTn/RPLINE quoting, stderr texts, the qp line.",
   technique="Lean 4 proof (search-order and confinement lemmas, structural induction over the instruction loop incl. append/first-stop decomposition, simulation of the C loop by a "
             "documented one-pass walk, whole-run equality with a documented outcome function, header-scan = line spec, finite exit table) "
             "+ translator for switch tables/constants + differential whole-program correspondence in real temporary home directories with post-run directory scan",
   design="DESIGN.md §2 C13")
CHECKS["C14"] = dict(
   text="Theorems over ALL recipients, report bytes, sender forms, channels and configurations about the Lean model Nq.Bounce of qmail-send.c "
        "stripvdomprepend()/addbounce()/del_dochan()/getcontrols()/injectbounce(): each addbounce call is exactly one paragraph that begins with "
        "the recipient line (LF shown as _), the bounce file and the queued notice contain exactly one paragraph per failed recipient in order, "
        "the report is shown byte for byte up to LF->/ and the original message is appended. NAMED ADDRESS (channel-aware since the repair 2f09320: addbounce(id,recip,report,flagstrip), del_dochan passes c == 0): "
        "what addbounce names equals the rule namedRecipient for every table, recipient and flag - remote channel: the stored recipient as it is; local channel: as is for a locals domain, else the virtual-user cut, "
        "else the governing domain/wildcard/catch-all entry's prefix removed (C14_names, C14_strip). END TO END against C10's model of rewrite() (Nq.Rewrite.rewrite, every configuration incl. percent hack and default host): "
        "if rewrite routes recipient r to (channel, stored) then addbounce(stored, flagstrip = channel is local) names the routed address (rewrite c r).addr - r itself, r@envnoathost or its percent-hack form, C14_routed_address - and its paragraph begins "
        "<that address>: (C14_bounce_names_routed_address, C14_bounce_paragraph_routed): unconditionally on the remote channel and for locals; for a recipient that got a prefix under the explicit non-ambiguity hypothesis that the only "
        "virtual-user reading of prefix-address is the address (true for a dash-free prepend of the address's own entry); C14_undo_ambiguous shows the hypothesis cannot be dropped (two addresses rewritten to the same local string), "
        "C14_channel_matters that the flag cannot (the repaired finding on concrete bytes). "
        "The notice goes with empty sender to the VERP base address, a failed bounce "
        "to doublebounceto@doublebouncehost from #@[] (getcontrols' address = specDoubleBounceTo of the control-file bytes: first line, trailing blanks removed, defaults postmaster / me / literal), a failed double bounce nowhere, so every chain has length <= 3; injectbounce removes "
        "bounce/<id> only after the notice was queued, never sends again after success and loses nothing on failure; D and expired-Z reports "
        "are recorded, others not. DAEMON LEVEL (for every event sequence the qmail-send monitor Nq.Daemon of C03/C04 accepts - any interleaving, failing calls, "
        "crashes, restarts - with a history layer that refuses nothing). INDUCTIVE CONSEQUENCES OF THE HISTORY INVARIANT: the record counts (appended = in file + in committed bounces + discarded with a #@[] message, "
        "with multiplicity; committed copies = paragraphs of the committed injections; nothing left or dropped once info/<m> is gone) - these are identities between the monitor's ghost fields noted/inFile/bounced and the history, "
        "they count records, not text; and the TEXT clause: every committed injection contains the text appended for each of its records EXCEPT records in lostRecs (a machine crash replaced the never-fsynced bounce/<m> "
        "by something that does not start with the old content: second documented exemption next to the #@[] discard; a crash-lost record still counts as bounced once). "
        "RESTATEMENTS OF MONITOR GUARDS PLUS TRACE BOOKKEEPING (tied to the code only by trace replay): bounce/<m> is unlinked only right after a successful injection of exactly its "
        "current content with the bounce envelope of the sender qmail-queue accepted, or for a #@[] message (C14_daemon_unlink_after_inject); a failed injection keeps the record and forbids the unlink (C14_daemon_retry); "
        "envelope/sender/infix facts of C14_daemon_committed. BRIDGE: every behaviour of the injectbounce model (all 10 fault points) is a behaviour the monitor accepts, its envelope and text passing the monitor's guard. "
        "The literal in-place scan loop is proved equal to the model's. "
        "Tied to the current source by running the real "
        "functions (sanitised build, in-memory queue files, 10 fault points, all 128 control-file combinations incl. locals) "
        "against the compiled model on every report over {LF,x,<,>,:,0x80} up to length 7/9, every recipient over {LF,a,b,@,-,.} up to 6/7 (table with exact, wildcard, catch-all, domain-exception, "
        "virtual-user, mixed-case and whole-address-exception entries) in three modes - local-channel record, remote-channel record, ORIGINAL address routed by the real rewrite() - "
        "all sender forms with every failing recipient an original address routed by the real rewrite(), del_dochan on both channels, bounce->double bounce->discard chains, corpora and random cases; the real routing is compared with C10's model; "
        "the paragraph/naming/end-to-end/envelope/chain/once oracle is evaluated on the implementation's output with tables and "
        "double-bounce address computed on the spec side from the raw control-file bytes (not with the model's getcontrols). REAL qmail.c LEG: a second harness binary links the unmodified qmail.c; injectbounce() -> qmail_open() forks and execs a scripted "
        "queue program (C07's stand-in) that records what it is given and then exits with each of 16 codes or is killed by SIGKILL/SIGTERM/SIGSEGV/SIGABRT; oracle: bounce/<id> removed and success reported only if the queue program exited 0, "
        "the retry then delivers exactly the notice, no second notice after success. Daemon replay: every injectbounce case and every whole chain is replayed through the monitor, "
        "which must accept it - a SYNTHETIC life: arrival, preprocessing, delivery commands, reports and marks are fabricated set-up events, only appendBounce/bounceInject/unlinkBounce carry the bytes the real "
        "addbounce() appended and the envelope/text the real injectbounce() queued.",
   note=NOTE_COMMON + "Finding C14-strip-exception (found by the statement audit: the spec had followed the code) is repaired by 2f09320: before it stripvdomprepend() was applied to remote recipients too - with virtualdomains "
        "'example.com:alice' and 'alice-x@example.com:' a failing alice-x@example.com (remote, unchanged) was reported as <x@example.com>; the check flags the reverted code, the string-level alternative notes/C14-fix-3.diff "
        "(wrong on the local channel) and a del_dochan that passes the wrong channel, each with a concrete input. "
        "Modelled, not verified: in the main legs qmail.c is replaced by a capture of the qmail_* calls (the Q leg runs the real qmail.c with real fork/exec/wait in front of a scripted queue program; qmail.c's full discipline is C07, qmail-queue's C01), "
        "the in-memory file table, NUL-free strings; cases have no control/percenthack and no control/envnoathost (the theorems cover both). "
        "Daemon-level theorems are about the monitor's accepted sequences; that real qmail-send runs are accepted is C03/C04's correspondence (qsim) plus, for the three bounce events, this check's synthetic replay. "
        "At-least-once: a notice whose unlink failed is injected again (stated). Two imprecisions of the monitor found (not of qmail-send): it does not VERP-strip the sender before the #@[] test "
        "(sender '#@[]-@[]': theorem C14_daemon_verp_discard_gap, such senders are not replayed) and its paragraph-header guard ignores stripvdomprepend. "
        "Not a theorem: that a paragraph's text names the address of its record (monitor guard + oracle only); that the spec-side control-file reader (specVdoms/specLocals) equals the model's readfile/cmEntries "
        "(compared on every case, DISAGREE channel; the first-line reader IS proved equal). C14_remote_as_is, C14_strip_local/_user/_removed/_kept and C14_recipient_line are corollaries that unfold the spec. "
        "The end-to-end oracle skips a case only when the non-ambiguity hypothesis fails (counted: e2e_ambiguous_skipped). "
        "Two earlier defects of stripvdomprepend vs rewrite() (virtual user entries, locals) were found by this work and are repaired (160bf54, dd724e5); the check flags the old behaviours.",
   technique="Lean 4 proof (paragraph-reader automaton + closed form of addbounce, channel-aware naming vs the rule and end to end vs C10's rewrite model, case analysis of injectbounce, history invariant over the daemon acceptor with trace characterisation) + exhaustive/fault-injecting differential correspondence with the C code incl. the real rewrite() and a leg with the real qmail.c and a scripted queue program, spec-side oracle from raw control-file bytes, synthetic replay through the daemon monitor",
   design="DESIGN.md §2 C14")
CHECKS["C15"] = dict(
   text="Theorems about the Lean model of qmail-send.c's scheduling code and prioq.c: squareroot() is the exact integer root for ALL ages 0..2^32-1 (16-step loop invariant), saturates above, "
        "is monotone and never overflows for any non-negative long; nextretry() is strictly in the future, equals birth+(isqrt(age)+10|20)^2 (chanskip regenerated from the source), is monotone in the attempt time, "
        "overflows for no long birth time below 2^63-65555^2 (wrapped machine arithmetic = mathematical value; complement: what the wrap-around gives beyond); for EVERY sequence of prioq_insert/prioq_delmin the array is a heap, "
        "prioq_min is a minimum, insert adds exactly the entry and delmin removes exactly the root; pass_dochan starts only the heap minimum and only when due, promptly, earliest-due first; flagdying <=> recent > birth+lifetime and then "
        "every K/Z/D report finishes the recipient; pqfinish+pqstart reproduce the schedule; pqrun makes everything due. HISTORY LEVEL, over all event histories of the daemon model (pqstart / pass_dochan+del_dochan+job_close+markdone / "
        "pqrun / pqfinish / pass_selprep composed as in qmail-send.c, with injected open/getinfo/unlink/stat failures): well-formedness is an invariant of every step; after a pass that leaves a recipient to do, in EVERY continuation of clock "
        "changes, passes with any reports and any system failure, and clean restarts, the message is not started again on that channel before birth+(isqrt(t-birth)+skip)^2; a due message is started within rank passes on its channel "
        "(earliest-due first, no starvation); nothing is lost (every channel file stays scheduled, a message leaving its last channel is in pqdone); TERM+restart keeps every heap entry; once recent > birth+lifetime a pass answered K/Z/D "
        "removes the message from the channel; every scheduled entry is due by birth+(isqrt(lifetime)+skip)^2 or already due along every fault-free history, hence every message leaves its channel within rank passes after that time. "
        "PROMPTNESS OF THE SLEEP (select loop): for every snapshot of the daemon's globals and every startable due time d (head of the heap of a channel that is not mid-pass with a job slot free, head of pqfail, head of pqdone) the "
        "select timeout is 0 once d has been reached and at most d-recent+SLEEP_FUZZ before, whatever the other channel is doing (mid-pass with every slot taken, writes pending, spawner dead); at history level the same for EVERY entry "
        "of a channel that is not mid-pass and for pqdone entries (the select-preparation model Nq.SelPrep is C16's, imported read-only). "
        "FAILURE PATHS as pure functions with theorems: the trouble exit (recent+SLEEP_SYSFAIL, strictly later than the old due time), job_close in full, pqadd in full, pqfail in pass_do: never earlier than the persisted back-off time, "
        "never lost from all of pqchan/pqdone/pqfail. Tied to the current source by running the real static squareroot() on every age below 2^28 (quick) / 2^32 (thorough) and around every perfect square, nextretry() on a 1.25M-point grid "
        "plus the edges of the no-overflow range, prioq_* on all op sequences over 4 keys to length 8/10 plus random ones to 10^4 ops, seeded daemon histories over a real on-disk queue directory (real pqstart/pass_dochan/del_dochan/"
        "job_close/pqrun/pqfinish/pass_selprep with a virtual clock stepped around every retry time and the expiry boundary, ALRM, TERM+restart, EIO injected into stat/unlink/open_read on a fifth of the passes), pqadd/pqfail scenarios "
        "through the real pass_do()+pqadd() with per-file stat outcomes, and 640 (quick) / 16000 (thorough) select-loop scenarios in which the real main() of qmail-send and qmail-clean run under the simulated libc with a discrete-event "
        "virtual clock (time passes only inside select; deliveries take scripted virtual durations, so a channel sits mid-pass with every slot taken while entries on the other channel, on its own heap, in pqdone after a failed bounce "
        "injection and in pqfail after a failed start-up stat become due; arrivals, ALRM, short lifetimes; controls without a busy channel): at every select the daemon's globals, the timeout it passed and the clock at which select "
        "returned are judged by the executable form of the promptness theorem (never wakes more than SLEEP_FUZZ after a startable due time having slept; everything due after ALRM) and the timeout is compared with the model; "
        "the property oracles (incl. a ghost monitor of the history back-off theorem and the nothing-is-lost predicate) are evaluated on the implementation's outputs.",
   note=NOTE_COMMON + "Modelled, not verified: times are 64-bit longs (overflow range stated by C15_overflow_range; beyond it C has undefined behaviour, the complement theorem describes two's-complement wrap-around only); the file system returns "
        "the mtime given to utimes (exercised on the real FS); spawners report only K/Z/D (a mangled report is deferred even in the expiring pass: complement theorem); system failures are injected by wrapping libc calls inside the included "
        "source; allocation failure, utimes failure, messdone (and its pqdone re-insertion), the 'trouble reading'/'unknown record type' exits at history level are outside the model. The select preparation is modelled by Nq.SelPrep "
        "(owned by C16, compared with the real daemon at every select there and in this check's select-loop scenarios); the rest of the select loop (who calls pass_dochan when) belongs to the Daemon model of C03/C04/C16: "
        "C15_hist_leaves bounds the number of passes after the expiry bound, not wall-clock seconds, and in the select-loop scenarios virtual time passes only inside select() (a pass itself takes no time). The head of the heap of a "
        "channel that is mid-pass is by design not startable until the pass ends (stated as the excluded case). pqfail is proved at function level (pqadd/pass_do) and is not part of the history model. "
        "Ages >= 2^32 s are outside the property's quantifier (complement theorems state the saturation).",
   technique="Lean 4 proof (loop invariant with nlinarith; heap-with-a-hole invariants + swap permutations; induction over op sequences; inductive invariants WF/Tracked/Owed/DueBy over all histories of the daemon-step interpreter, rank variant for "
        "no-starvation; minimum-of-due-times characterisation of the select timeout) + exhaustive/differential correspondence with the C code incl. function-level daemon histories on a real queue directory with libc fault injection and "
        "discrete-event runs of the real main() loop under the simulated libc",
   design="DESIGN.md §2 C15")
CHECKS["C17"] = dict(
   text="44 theorems about the Lean models of quote.c, token822.c, qmail-remote.c addrmangle, commands.c, qmail-smtpd.c addrparse, hfield.c, headerbody.c and qmail-inject.c; all are proved by induction / simulation over "
        "the model functions (none restates a monitor guard); the models are tied to the C code by the translator and by trace comparison in two differential harnesses. Quoting: for EVERY local part (any bytes) and every "
        "sane domain unquote(parse(quote2(local@domain)))=local@domain with token shape word(.word)*@domain, and token822_addrlist on these tokens succeeds with exactly ONE callback carrying the whole address; "
        "addrparse(<addrmangle a>)=a up to 899 bytes, refused beyond, through one commands() line, for MAIL FROM and for RCPT TO; the regenerated ok[] table is inside atomok/atomcheck (decide over 256 bytes) and the "
        "theorems' atom bytes are exactly RFC 822's atom characters (decide against a definition written from the RFC). Envelope, from BYTES to the queue: for every legal rendering (a generator-style spec: atoms, quoted "
        "strings/literals with any quoted-pairs, nested comments, any white space and folds) token822_parse returns exactly the rendered tokens; comment tokens never influence token822_addrlist (any token list); for every "
        "address list accepted by a grammar automaton - mailboxes, display-name <route-addr>, groups, repeated and missing commas - and for every address-list tree, token822_addrlist succeeds and hands exactly the listed "
        "mailboxes, right to left, to the callback; hfield_known equals an independent field-name matcher plus table lookup (every line); C17_field_end_to_end: for a field TEXT that is a legal rendering of name:tree whose "
        "own name is To/Cc/Bcc/Apparently-To (Resent-To/Cc/Bcc) and sane control values, the strings the field contributes to hrlist (hrrlist) are exactly the tree's mailboxes rewritten by the documented STRING-level rule "
        "Spec.Addr.rewriteMailbox (default host, default domain, plus domain, literal hosts, source routes stripped), nothing to the other list; command-line recipients local@host are rewritten by the same rule (any local "
        "part); C17_envelope_inject (no existential): for every message on which qmail-inject exits 0 the recipients given to qmail-queue are the rewritten arguments followed by the concatenation of the fields' "
        "contributions - the Resent- ones if ANY field is one of the eight Resent- fields, else the To/Cc/Bcc/Apparently-To ones - per -a/-h/-H/default; parse(unparse n ts)=ts for EVERY line length (folding macro included) "
        "on clean tokens, and the rewritten field IS clean whenever the field's input tokens are clean and none is the atom '+' alone (complement: To: u@+ does not re-parse); the output message is Return-Path line (only "
        "-n) ++ at most four generated fields ++ concatenation of the fields' saved contributions ++ body, and a field NAMED Bcc/Resent-Bcc/Return-Path/Content-Length contributes nothing while Bcc/Resent-Bcc still feed the "
        "envelope. Tied to the current source by the translator (ok[], atomok, atomcheck, escape sets, hname[], H_*, LINELEN) and by two differential harnesses: H1 runs the real quoting/parsing functions on every local part "
        "over a 17-byte alphabet to length 5/6 (each through token822_addrlist and through MAIL FROM and RCPT TO) and every token string over a 15-byte alphabet to length 5/6 plus random long inputs and grammar-generated "
        "lists, re-renders the tokens the real parser returned (random folds, quoted-pairs, nested comments) and parses them again, and runs token822_addrlist a second time without the comment tokens; H2 runs the real "
        "qmail-inject main in-process with a stand-in queue on headers from an RFC 822 grammar generator (groups, routes, comments, quoted strings, literals, folding, missing commas, the bare host '+'; expected mailboxes "
        "known by construction) x flag/strategy/configuration combinations, and injects every produced message a second time. Oracles (the theorems' predicates) are evaluated on the implementation's own output; a generated "
        "grammatical header that qmail-inject rejects is a failure; each oracle has a floor on the number of cases it judged (below it the run is an error).",
   note=NOTE_COMMON + "Partial: (1) that the rewritten header, parsed AGAIN by token822_addrlist, yields the same addresses is proved only up to tokens (parse(unparse out)=out from input-level hypotheses); the second "
        "address-list pass is covered by the second-injection oracle only. (2) Bcc removal is proved for the saved-header DECOMPOSITION (a field named Bcc contributes nothing); that no line of the final TEXT - inside a "
        "kept field holding LF in a quoted string, in the generated From field, in the body - is read as a Bcc header by an independent reader is covered by the oracle Ihidden only (C17_bcc_message_partial). "
        "(3) headerbody's line splitting is tied by correspondence only; the end-to-end theorems start from the field texts headerbody delivers. The grammar automaton is sufficient, not a characterisation of everything the "
        "code accepts. C17_modes, C17_bcc and the per-field part of C17_envelope_field are one-step unfoldings kept for readability; the whole-run statements are C17_envelope_inject, C17_bcc_message_partial and "
        "C17_field_end_to_end. Modelled, not verified: stand-in queue, control files/environment supplied by the harness, fixed clock and pid, ipme list, no NUL in C strings; Mail-Followup-To (QMAILMFTFILE) is not "
        "exercised. Finding C17-angle-comment (comment inside <...> defeated route stripping / plus-domain rule) was repaired in /repo (a66f18c); the pre-fix code is detected as a violation, and C17_comments_ignored is "
        "false for it. An independent audit of the statements found an under-determined existential in the former C17_envelope_inject and a re-parse conjunct conditional on a derived value; both statements were replaced "
        "(notes/C17.md section 2a).",
   technique="Lean 4 proof (tokenizer transducer run lemmas and a fold invariant for unparse, table facts by decide, simulation 'same but taout' for comments, abstract edge automaton for the right-to-left parser, "
        "cleanliness invariant through token822_addrlist and rwgeneric, hmatch = independent matcher by lock-step induction, list induction over header fields for recipient lists / htypeseen / saved header) + "
        "exhaustive/grammar-based differential correspondence with the C code, oracle floors",
   design="DESIGN.md §2 C17")
CHECKS["C18"] = dict(
   text="Theorems over ALL request strings / command streams / report streams and ALL system-call outcomes about Lean models of qmail-clean.c main + cleanuppid, "
        "spawn.c getcmd/docmd/main with the report() of qmail-lspawn.c and qmail-rspawn.c, and qmail-send.c del_dochan. "
        "Inductive consequences of the models' invariants over whole streams/sessions: qmail-clean's whole trace satisfies the oracle predicate cleanOK (per request at most one "
        "cleanuppid sweep that unlinks only pid/<name> of listed entries whose stat succeeded with atime + OSSIFIED <= now, then only the files the request names, exactly one status "
        "byte, nothing after 'x'), and every path ever unlinked is intd/N, mess/(N mod split)/N resp. intd/N, todo/N of a validated request or such an old pid/ entry; over a whole spawn "
        "session (any chunking, interleaving, file-system behaviour) the oracle predicate opensOK holds: every open is the message id of a complete command of the input (independent "
        "grammar) and is digits and non-leading '/', spawn() happens only directly after the open of a regular queue-owned file, in the slot and with the sender and recipient of a command "
        "naming it, any other open is followed by one Z report; reports = complete commands received before the end of input and no slot is left in use, for every session including EOF on "
        "descriptor 0 at any point with deliveries in flight and children reaped (select interrupted by SIGCHLD) any number of wake-ups before the EOF on their pipe is read; at every point "
        "reports + slots in use = commands received, so the exit test of the main loop (end of input and no slot in use, a reaped but unreported slot counting as in use) implies exactly one "
        "report per command, and after it no event has any effect (the exit point is compared with the real program's); the report reader keeps dline <= REPORTMAX, every log line for a delivery "
        "carries at most REPORTMAX-2 bytes of report text (oracle truncOK, for every byte stream and hence every read() chunking; REPORTMAX-3 plus the fixed sentence for an expired message), and over a whole stream the "
        "records it marks equal those of a declarative reference reader (writer's grammar delnum-text-NUL, first report for a delivery in flight decides) and form a sub-multiset of the "
        "deliveries in flight, each by the single byte D. Per-step case analyses that restate the guards of one model function (tied to the code by trace replay, not by an invariant): "
        "one status per request, canonical decimal N < 2^64 of a 7..100-byte 'foop/'/'todo/' request, no spawn for a non-regular or foreign-owned file, reports + running children +1 per "
        "command and preserved by child exit/output, a reaped child keeps its slot and the EOF on its pipe writes exactly one report with the stored wait status, a child's report body is a fixed "
        "text or a letter plus pieces of the child's own output, out-of-range/unused delivery numbers "
        "ignored, a report in flight frees that slot and marks at most its own record. Tied to the current source by a translator for every report text/table/constant and by "
        "running the real code (sanitised build, system calls incl. the pid/ directory, select/SIGCHLD/EOF orders and read() sizes scripted, fork-free) against the compiled models on 2.6 M (quick) "
        "exhaustive and random cases (incl. every sequence of up to 4 (thorough 5) end-of-input/reap/pipe-EOF/exit events after a first command, reports of REPORTMAX-14..REPORTMAX+2110 text bytes in "
        "reads of 1, 2, 3, 7, 1023, 1024, 2047, 2048 and random sizes) with the property oracles evaluated on the implementation's traces.",
   note=NOTE_COMMON + "Modelled, not verified: system-call outcomes (unlink/open/fstat/pipe/fork results, now(), the listing and access times of pid/) are inputs; OOM, write errors to the parent, "
        "EINTR on read/write (select returning -1 after SIGCHLD is scripted), several descriptors ready in one select wake-up, negative time_t and the child side after fork are not exercised; the "
        "multiset of delivery numbers over a session and the bounce half of sendOK are checked by the oracle only; the length of a bounce record is compared with the model's (same text as the "
        "log line) but has no oracle bound of its own; the split of the log into lines is done by the driver. "
        "cleanuppid's unlinks of pid/<name> older than 36 h are part of the model and of the oracle since the audit repair (before, the harness made opendir fail and the claim 'never any other path' "
        "silently excluded them). The step-based reader refMarks shares the model's framing and serves only as proof bridge; the stated reference is the declarative one. "
        "The heap over-read this check found in qmail-rspawn.c report() is fixed (9e1dfcc); the pre-fix code is a detected mutant.",
   technique="Lean 4 proof (validation cascades, decimal round trip, framing-automaton invariant = independent grammar, per-event balance invariants incl. end of input and two-step child death, exit test as model predicate, log-line text bound, step-based = declarative reader) + translator for report tables + exhaustive/structured differential correspondence of three real programs",
   design="DESIGN.md §2 C18")
CHECKS["C19"] = dict(
   text="Theorems (59, no sorry) about the Lean model Nq.Pop3 of qmail-pop3d.c/maildir.c/prioq.c/commands.c and qmail-popup.c, over ALL stored messages, command streams and maildirs. "
        "(a) Against the independently written RFC 1939 reference Nq.Pop3Ref: an RFC 1939 client decodes the payload of RETR to exactly the lines of the file plus the documented blank line and of TOP n k - "
        "k of any size, also >= 2^64-1 where count+1 saturates to 'no limit' - to header+blank+k body lines (no bare LF, dots stuffed, terminator only at the end); msgno() equals the reference reading of a "
        "message number in terms of the unbounded decimal value (accepted <=> digits, 1..count, unmarked; an accepted number denotes that message; DELE n marks message n); the model's line parser agrees "
        "with the reference's on every NUL-free line; and a STEP and SESSION SIMULATION: under an explicit relation Sim between model and reference state (same paths, size = length of the data, marked <=> in the "
        "reference's set, file absent <=> reported gone) every reply of every non-QUIT command is accepted by the reference's matchReply as the reply RFC 1939 requires (STAT total, LAST, LIST/UIDL values, RETR/TOP "
        "payload, refusals) and the relation is preserved, QUIT's lines are accepted by matchQuit, the start state of main() is related to the reference's initial state on a numbering that is a mtime-sorted "
        "permutation of the eligible files, hence the reference's walk accepts the whole transcript of main() for every sequence of NUL/LF-free command lines interleaved with removals by third parties "
        "(side conditions, all explicit: <= INT_MAX messages, no LF in a path, total size < 2^64-1, unique maildir names). Not proved: the last stage of the oracle (sorted final maildir = expectFs); the final "
        "maildir is characterised path by path instead. "
        "(b) Inductive invariants of the model: the message table built at start-up is a permutation of the eligible files (new/ and cur/, no dot files, mtime < now) sorted by mtime (heap sort of prioq.c via "
        "simulation to the C15 heap model) and message numbers denote that same file and size for the whole session whatever bytes arrive in whatever pieces and whatever files vanish; nothing is unlinked or "
        "renamed before or without QUIT; pop3_quit's loop removes every marked message, keeps every other file unchanged, and an unmarked new/x is afterwards cur/x:2, with the same data and new/x is gone; LAST is "
        "the highest number marked since the last RSET at every point of every session; one handler per LF-terminated line, independent of read sizes. "
        "(c) qmail-popup at the level of main(): for USER u CRLF PASS p CRLF <anything> and APOP name digest CRLF <anything> (any case, u/p any non-empty NUL/LF-free bytes) descriptor 3 receives exactly "
        "u NUL p NUL <greeting timestamp> NUL, the output and the exit code are as stated; nothing reaches descriptor 3 unless the loop stopped in doanddie(). "
        "(d) Linking lemmas - one-branch unfoldings of the model's handlers in the model's own vocabulary (C19_listing, _list_reply, _dele_marks, _rset_unmarks, _marks_unchanged, _retr_reply, _retr_vanished, "
        "_last_reply, _stat, _refuse, _root, _main_session, _preauth_refuse, _preauth_userpass, _preauth_apop, _sizes, _limit_whole/_count) and C19_tables (translator output): these say nothing beyond the model's "
        "definition and are tied to the C code only by trace replay; they are the case lemmas the simulation (a) is assembled from. "
        "Tied to the current source by the translator (both pop3commands[] tables, the number scanner in use, tmp/ age) and by running the real main() of both programs (sanitised build of the working tree, real "
        "temporary maildir, stand-in checker) against the compiled model on every command sequence up to length 3/4 over a 41-command alphabet on 5 maildir populations, every message over {LF,'.',a,CR} up to "
        "length 6/7, random sessions with vanishing files, arbitrary read sizes and maildirs of up to 49 messages, and by driving prioq.c directly; the ORACLE is the same reference Nq.Pop3Ref.sessionOk evaluated on "
        "the IMPLEMENTATION's transcript and final maildir - exists an admissible numbering (mtime-sorted permutation of the eligible files), decided exactly by lazy exhaustive search over all tie permutations "
        "(first candidate: the model's order if independently admissible; a failing case with more than 8! orderings is counted as skipped, never reported) - plus, for the heap, 'every delmin removes a minimum, "
        "nothing lost, drain sorted' on the implementation's output.",
   note=NOTE_COMMON + "Modelled, not verified: readdir order (recorded by the harness), the clock (fixed), stat/open/read succeed on existing files, unique maildir names (NamesOk is a hypothesis of the QUIT and "
        "session theorems: with colliding names rename(2) in pop3_quit replaces a message), pipe/fork succeed, timeouts. By correspondence and oracle only: which of several files with equal mtime gets the "
        "lower number (heap shape; left open by the property); the sorted-maildir stage of sessionOk for the model; a removal in the middle of a command line (the session theorem is at line granularity; "
        "C19_chunking covers read sizes). LAST is specified as the code behaves (highest DELEted number; RFC 1460's 'highest accessed' would also count RETR). Thorough tier: 6.76 M cases, 350 s wall at load "
        "average 40-52 (16 cores shared).",
   technique="Lean 4 proof (step/session simulation between the model and an independent RFC 1939 reference; encoder/decoder induction over lines; session invariants; file-system algebra for QUIT; heap-sort via "
        "simulation to the C15 prioq model; byte-level lemmas for fmt_ulong and the reply texts) + translator for command tables + exhaustive differential correspondence with the C programs",
   design="DESIGN.md §2 C19")
CHECKS["C02"] = dict(
   text="Theorems about EVERY state reachable from the empty queue by ANY sequence of system-call-granular events of any number of qmail-queue instances, qmail-send with its qmail-clean, further "
        "qmail-send instances, the clock, kills and crashes (Lean model Nq.QueueSys; one event per directory operation; inductive invariant coupling each actor's control point to the files of its number, "
        "proved for all 23 event kinds): every message number is always in one of S1-S5 of INTERNALS.md (C02_states); mess/n names inode n (C02_inode); a number is taken only in S1 and never shared "
        "by two running injectors (C02_unique_*); every step is a documented move S1>S2>S3>S4>S5>S2>S1 / S3>S2 (C02_moves), bounce/n is removed only after local/remote, info/n only after those and bounce, "
        "mess/n last (C02_order_*); qmail-send asks for collection of intd/mess only right after removing info/n itself or when inode n is older than OSSIFIED = 36 h and it saw no info and no todo - and "
        "then these facts still hold and no running qmail-queue owns n, because DEATH < OSSIFIED (constants regenerated from the sources) (C02_stale, C02_stale_window, C02_timer); only the lock holder "
        "changes the queue (C02_mutex_needed, from the invariant). Three statements hold by construction of the model and get their force from the guards replayed on real traces plus the oracle, not from the induction: "
        "C02_inode (the guard m = n of iLinkMess + oracle 'name differs from inode'), C02_mutex (a qmail-send that finds the lock taken has no further event; oracle 'queue changed by a qmail-send that does not hold the lock'), "
        "C02_crash (a crash changes no name; the point is that the state it leaves is reachable, so everything above holds after it). The guards of the model are OS facts about succeeded calls "
        "and the code's own observations (stat/unlink results since it last slept), never the documented states themselves. Tied to the code by running the real qmail-queue (3 instances), qmail-send "
        "(2 instances) and qmail-clean as threads under the in-memory POSIX simulator with a seeded schedule decision before every queue-directory call, stalled/killed injectors, malformed envelopes, "
        "single faults, aged leftovers of every kind (which the model reaches from the EMPTY queue by a synthesised accepted event sequence, so every replayed run starts from a reachable state), clock jumps, world crashes and restarts, sender forms '', '#@[]', failing bounce injections (2400/60000 seeded scenarios) plus a systematic leg: depth-first enumeration of every interleaving of the queue-file calls for five small configurations (complete for the first in the quick tier; the evidence says per configuration how many partitions were enumerated completely): each trace is replayed through QueueSys.accept, the reconstructed directory is compared "
        "with the simulator's dump, and the oracle evaluates the theorems' predicates on the concrete directory after every mutating call.",
   note=NOTE_COMMON + "Modelled, not verified: OS semantics of DESIGN.md 1.4 as implemented by harness/sim.c (atomic synchronous directory operations, fresh inode numbers, alarm(n) lets no call happen n seconds "
        "later, flock as mutex, atime of a new file = creation time); qmail-clean dies with its qmail-send; bounce injection is a stand-in (C01/C14); spawners scripted; readdir returns at least the entries present "
        "during the whole scan. Schedules are sampled, not enumerated: the unbounded-interleaving claim rests on the theorem, the sampling ties the model to the code.",
   technique="Lean 4 proof (inductive invariant of an interleaving system with unboundedly many actors, closed under kill/crash/restart; per-step documented-move theorem) + trace-replay correspondence with the real programs under a deterministic POSIX simulator (schedule, fault, stall, crash injection)",
   design="DESIGN.md §2 C02, Appendix B")

CHECKS["C12"] = dict(
   text="Theorems over EVERY accepted system-call trace of the Lean acceptors of qmail-local.c maildir()+maildir_child() and mailfile() (hence every message, chunking, short write, "
        "EINTR, failing open/read/write/fsync/close/link, alarm) and, by prefix-closure, every crash instant with un-fsynced data arbitrary: a name in new/ => the file is exactly "
        "Return-Path line + Delivered-To line + message; exit 0 => present and durable; failure => 111 and absent (unless a signal hit the child after link: then complete); "
        "new/ is populated only by link after open_excl, complete writes, fsync, close; the name time.pid.host determines time and pid; the exit-status switch is regenerated from the source. "
        "Mbox: for ALL messages, senders, recipients, times the appended entry is read back by the mbox(5) reader (written independently from the man page) as exactly the old messages "
        "plus (From_ line, Return-Path + Delivered-To + message with only a partial last line completed); header lines are single lines, the From_ line yields the sanitised sender; "
        "gfrom = documented From_/>From_ test; for ANY number of concurrent deliveries and every interleaving with flock as a mutex the file is always old content + complete entries "
        "in lock order + the holder's partial output, failed deliveries leave nothing (truncate to the length lseek returned under the lock), final file = entries of exactly the exit-0 deliveries; "
        "after open_append every exit is 0 or 111 and 0 iff a successful fsync of the complete entry happened; once a delivery has seen a failing read/write/fsync (not EINTR) it can only "
        "exit 111 and is never committed - for every entry length and every chunking into writes, i.e. every buffered writer (error_fails); the From_ date has exactly 24 characters for years <= 9999 (from the proved Gregorian "
        "calendar of datetime_tai); a run ending in a successful link has before it open_excl, writes = exactly the content, fsync after the last write, close (inductive). "
        "Inductive consequences of trace/interleaving invariants: atomic, success, failure, exit codes, link_reach, serial, final, rollback, append, exit_zero_iff, error_fails; guard restatements tied only by "
        "trace replay: link_only, truncate_only_locked, rollback_needs_lock, synced_by_fsync. "
        "Tied to the current source by running the real qmail-local main() under the in-memory POSIX simulator (fork redirected so the maildir child runs as a second simulated process): "
        "every crash point x 5 crash resolutions, every call index x {EIO, ENOSPC, short write, EINTR, alarm}, name collisions, 2-3 concurrent "
        "deliveries under enumerated schedules; mbox and maildir output lengths (lead-in measured on the implementation) and message lengths exactly k*1024+d, d=-3..3, and the full "
        "residue range 0..1030, each x a failing call at every call index of the delivery x {ENOSPC, short write, EINTR, short write then ENOSPC}; every trace replayed through the acceptors; gfrom()/myctime() exhaustively/densely; oracle = maildir predicate on concrete crash states, "
        "mboxRead on the concrete final file.",
   note=NOTE_COMMON + "Modelled, not verified: OS semantics of DESIGN 1.4 (sim.c); (time,pid) unique among live deliveries (the name-uniqueness clause rests on this plus the "
        "injectivity theorem); files present in new/ before a delivery staying untouched is oracle-only (driver checks every traced name, crash states compared); if lock_ex() fails the program "
        "proceeds unlocked, and a failing ftruncate is ignored by the code: both are outside the hypothesis Benign of the serial/final/roll-back theorems (exercised and counted in the evidence); old mbox not ending at a line boundary is outside the round-trip theorem; "
        "mbox is not crash-atomic (only roll-back on errors is claimed); C12_date_24 imports the calendar theorem of Nq/Lemmas/Datetime.lean (C07 worker).",
   technique="Lean 4 proof (acceptor invariants over all traces + crash relation; interleaving-system invariant for unboundedly many processes; list-level round trip through the mbox(5) reader) "
             "+ exact trace correspondence with the real program under a deterministic POSIX simulator (crash, fault and schedule enumeration)",
   design="DESIGN.md §2 C12")
CHECKS["C20"] = dict(
   text="PARTIAL proof. Proved for ALL lengths (Lean, no bound) about models of the code between untrusted input and memory: gen_allocdefs.h readyplus/ready/append, "
        "stralloc_catb/copyb and quote.c doit() with the exact 32-bit arithmetic of __builtin_add/mul_overflow (success => len <= a, a*sizeof = bytes requested without wrap, every store "
        "index < a; a request that does not fit 32 bits is refused untouched - the CVE-2005-1513 regime; quote.c doit()/quote_need() for every length that passes the two overflow checks, with the counter "
        "types read from the source - the pre-26e354b signed counters provably overflow for >= 2^30-byte addresses and are kept as a mutant model); substdio put/bput/flush/putflush/feed/get (0 <= p <= n, n+p = size, every byte_copy inside the buffer, caller buffer never overrun, stream laws for every write/read chunking); "
        "the fixed buffers of qmail-qmqpd/qmail-qmtpd/qmail-getpw/qmail.c as index-list models whose sizes and guards are regenerated from the sources and whose index sets are compared in-process with what the real "
        "getbuf()/qmtpd main()/userext()/qmail_errstr()/quote_need() store or read; every length getlen() can return is < 2^31 for every byte stream and smtptext never exceeds HUGESMTPTEXT (over the C07/C09 models); "
        "qmail-lspawn's accumulated child output <= truncreport for every chunk sequence (qmail-rspawn has no cut: stated); statements about other properties' models, labelled: spawn.c slots (C18), pop3d msgno (C19), REPORTMAX = C18_send_bound (cited); dns.c "
        "resolve/findname/findip/findmx (every read < responselen for every dn_expand honouring its contract; the pre-367ee1b code provably over-reads); the cdb reader on arbitrary files. "
        "Tied to the current source by differential harnesses on the real functions (ASan+UBSan, exact-size blocks, scripted allocator/descriptors, interposed resolver with poisoned buffer tail). "
        "NOT proved - covered only by sanitised execution: all other parser loops and whole programs: token822/cdb/control/constmap/ip/headerbody/getln in-process (~1.5M/13M cases) and the real "
        "sanitised qmail-smtpd/-qmtpd/-qmqpd/-pop3d/-popup/-inject/-local binaries on every truncation point, declared lengths up to 2^31/2^32/2^64, thousands of tokens, nesting 50000 "
        "(~12k/90k child runs); oracle = no sanitizer report/signal/hang, documented exit status.",
   note=NOTE_COMMON + "Partial: absence of UB outside the modelled arithmetic is evidence by instrumented execution, not proof. Assumed: LP64, builtin overflow semantics, malloc(0) != NULL, "
        "read/write return 1..len or -1, resolver returns -1 or 12..buflen bytes, dn_expand contract (checked at run time), fmt_ulong <= 20 digits. Slot/msgno/cdb/getlen/smtptext theorems are about the "
        "models of C18/C19/C11/C07/C09 (tied by those properties' harnesses; cdbSeek and reportBody re-tied here). C20_checks_present/C20_sources_recognised are tripwires on the source text, not semantic theorems. The 1 GiB quote() case runs in the thorough tier (and as failing-input search when an obligation breaks), not in quick.",
   technique="Lean 4 proof (bounds arithmetic over exact machine-integer models; inductive stream laws) + translator for buffer sizes/guards + differential correspondence + sanitised execution of real binaries",
   design="DESIGN.md §2 C20")
CHECKS["C01"] = dict(
   text="Theorems over EVERY accepted system-call trace of the Lean acceptor of qmail-queue.c main() (hence every message, envelope, read/write chunking, short write, EINTR, failing call, "
        "caught signal at any point after alarm(DEATH), chdir/alloc failure) and, by prefix-closure, every instant at which the process or machine stops, with every file not fsynced since its last "
        "change arbitrary after the crash. Inductive consequences of the invariants: todo visible => message file = Received line + supplied bytes, envelope well-formed and stored exactly (C01_atomic); "
        "exit 0 => visible and durable (C01_success); exit with any code other than 0 and the signal handlers' 52/81 => never visible (C01_failure); exit 52/81 (handlers do not clean up) => visible only if "
        "link(intd,todo) had succeeded, and then complete as after success (C01_killed); leftovers only pid / pid+mess / mess / mess+intd (C01_leftovers); in a run in which no call fails the exit code IS the "
        "documented verdict on the envelope - 0 well-formed, 91 wrong record letter, 11 address of 1003 bytes, 54 stream ends first - and a non-well-formed envelope leaves nothing visible (C01_refusal), "
        "conversely 91/11 arise only from the scanner's verdict whatever fails (C01_refusal_only). About the scanner function alone: it accepts exactly F sender NUL (T rcpt NUL)* NUL with NUL-free addresses "
        "<= 1002 bytes (soundness, completeness, the 1003-byte refusal, 54 <=> no verdict on any prefix). Restatements of acceptor guards, tied to the code only by the trace replay: a run starts with "
        "alarm(DEATH) or is a bare exit 61/62/51, DEATH < OSSIFIED (constants regenerated from the sources) (C01_timer); after a delivered signal the trace has nothing but _exit(52|81) (C01_handler_no_cleanup). "
        "Tied to the code by replaying the real qmail-queue's traces, recorded under an in-memory POSIX simulator for ~14000/36000 (input, chunking, fault list) cases - well-formed and "
        "malformed/truncated/over-long envelopes, every call index x {EIO, ENOSPC, short write, EINTR} also on the runs whose input fails by itself (so every call inside cleanup() is faulted), fault pairs, "
        "random fault chains of up to 3, SIGALRM (clock jump past alarm(DEATH), the program's own handler) at every call index incl. after the link and inside cleanup() and after a first fault, missing "
        "/var/qmail or queue, each alloc() of qmail-queue.c failing, SIGBUS at an alloc() - through the acceptor, and by judging with the property oracle every final state and the concrete crash states "
        "(x 5 loss resolutions) at every call of traces of up to 150 calls and at the first 40, last 60 and every 97th call of longer ones; the exit code is judged against the documented verdict in every "
        "run whose trace shows no failing event; the Received line is checked against the documented format computed from the uid/pid/instant given (4 uid forms, instants 1970-2099).",
   note=NOTE_COMMON + "Modelled, not verified: the OS semantics of DESIGN.md 1.4 as implemented by harness/sim.c (synchronous atomic directory operations, fsync durability, arbitrary loss of un-fsynced "
        "data, unique inode numbers); signals are delivered between system calls only, and SIGBUS only at the program's alloc() calls (2 control points); chdir and alloc() are not traced by the simulator - "
        "their failures appear in the model as bare exits 61/62/51 at the control points where the source can reach them; die(81) from the unreachable pidfmt() length test is not modelled; the calendar "
        "of the Received date is Nq.Datetime.tai (proved against the civil calendar in C07). Observation on the unchanged tree (allowed by C01, not a defect): SIGALRM between link(intd,todo) and _exit "
        "gives exit 52 with the complete message queued.",
   technique="Lean 4 proof (three inductive invariants over a system-call trace acceptor + crash relation: state/file-system coupling, exit-code provenance, forward exit-code determination; scanner "
        "soundness/completeness) + trace-replay correspondence with the real qmail-queue under a simulated libc with fault, signal and crash injection",
   design="DESIGN.md §2 C01")

CHECKS["C16"] = dict(
   text="Theorems (1) over ALL interleavings of any number of injectors with the daemon (inductive invariant of the Lean acceptor of the trigger protocol: link todo, open/write/close of the FIFO vs "
        "trigger_set's close/reopen, opendir, readdir): whenever the daemon is outside a todo scan and an injector has completed its publish-then-signal steps for an unprocessed entry, the trigger descriptor is "
        "readable; otherwise a re-arm is in progress or the open scan will still return the entry. The orderings 'trigger_set precedes opendir', 'link precedes the pull' and 'readdir returns every entry present at "
        "opendir before NULL' are ACCEPTOR GUARDS (C16_order, C16_scan_complete restate them): assumptions about the programs, validated by replaying every enumerated trace of the real programs through the "
        "acceptor, not proved consequences. BOUNDED-STEPS LIVENESS for daemon-only suffixes: from any state satisfying the invariant every run of the daemon's own steps (no injector step, no 25-minute timer, any "
        "readdir order) of length 2*|todo|+3 has 'processed' the entry, i.e. readdir has returned its name and handed it to todo_do (strictly decreasing measure; bound attained), and the daemon is never blocked "
        "while a completed injection is unprocessed; complement C16_rescan_backstop for what lies beyond (a failed scan start or a failure after readdir): select never sleeps beyond nexttodorun and the body at "
        "nexttodorun passes todo_do's guard without a pull, so such an entry waits at most SLEEP_TODO; (2) about the Lean transcription of qmail-send.c main()'s whole select preparation (wakeup = "
        "recent+SLEEP_FOREVER, pass_selprep, todo_selprep, cleanup_selprep, comm/del/trigger descriptor sets, tv_sec, loop condition) as a function of a snapshot of the daemon's globals: C16_no_spin - timeout = 0 IFF "
        "a pass has a free slot, a todo or cleanup scan is in progress or a due time has been reached; otherwise 0 < timeout = wakeup-recent+SLEEP_FUZZ where wakeup is EXACTLY the minimum of recent+SLEEP_FOREVER and "
        "the due times the daemon can act on; C16_never_past_any_queued - the same over ALL entries of pqchan[]/pqfail/pqdone (not only the heap roots the code reads), under the premise that every root is a minimum "
        "of its queue (discharged for C15's model of prioq.c by C16_roots_of_heap; checked on the implementation's arrays); a select that does not sleep (timeout 0 or a watched descriptor ready) is always followed "
        "by a *_do that passes its guards, and a sleep is only requested when none would act (the exit-time pqfail/pqdone exception is stated); complement theorem for a pre-1970 clock. Tied to the code by running "
        "the real qmail-queue (2 instances), qmail-send and qmail-clean as threads under an in-memory POSIX simulator with every interleaving of the trigger-related system calls enumerated for one injector and "
        "enumerated/sampled for two (both readdir semantics), each trace replayed through the acceptor (DISAGREE on a rejected event or when the simulator's FIFO readiness differs from the acceptor's; oracle: the "
        "statement of C16_no_lost_wakeup evaluated in Lean on the real descriptor at every idle select, never sleeps with a completed injection unprocessed, name returned by readdir within the proved bound), and by "
        "reading the real daemon's globals and the full contents of its four priority queues at the moment select() is entered, in these runs and in ~975/37000 daemon scenarios (deliveries, deferrals, bounce "
        "failures, faults, TERM with deliveries in flight, crashes, clean restarts; deferred queues of 3-6 messages with distinct due times and entries leaving/returning; SIGALRM/SIGHUP/SIGTERM interrupting a select "
        "(EINTR) at selects drawn from the whole run and swept over every idle select with messages queued): ~0.97M/47M selects whose timeout and descriptor sets must equal the model's on the snapshot (DISAGREE - also "
        "catches globals rewritten after the *_selprep calls) and satisfy the theorems' predicates evaluated on the implementation's values, 'earliest due event' being the minimum over everything queued (ORACLE). The "
        "select(timeout 0) spin oracle over the C03 histories is kept.",
   note=NOTE_COMMON + "Modelled, not verified: FIFO semantics of DESIGN.md 1.4 as implemented by harness/sim.c; the `dEnd` guard assumes readdir does not skip entries while the daemon itself unlinks todo/ entries in "
        "the middle of a scan (exercised on sim.c only); the periodic rescan is outside the trigger model on purpose; fault paths are outside the property's quantifier and outside the trigger model: an opendir "
        "failure after trigger_set() (pull consumed, no scan) and every return/goto fail after readdir (todo/n stays, no wake-up pending) leave the entry to the next pull or the 25-minute rescan "
        "(C16_rescan_backstop bounds that wait; the pull->scan oracle skips scenarios with injected faults); liveness (C16_bounded, C16_bounded_run) is for daemon-only suffixes - across interleaved injector steps "
        "the measure can grow and no bound is claimed (the driver's budget is renewed by every injector step); an injector stopped between write and close keeps the FIFO readable across re-arms, so the daemon "
        "rescans continuously (true of the real code as well: 'no busy loop' is proved for the timeout, not for the trigger path under a stuck writer; the scheduler's fairness bound cuts that branch); not "
        "modelled: the HASNAMEDPIPEBUG1 variant of trigger.c (daemon also holds a write descriptor), open_read failing inside trigger_set (fd = -1: FIFO unwatched until the next re-arm), a daemon restart in the "
        "middle of a scan in the trigger model (restarts are exercised in the daemon scenarios only); times are unbounded integers (no overflow of datetime_sec); the snapshot is read inside select(), after "
        "everything the loop does before blocking - a rewrite of the globals that is undone again before select() would not be seen; a select interrupted by a signal is modelled as handler, partial timeout, EINTR, "
        "no descriptor event consumed; bodyActs states that a *_do function gets past its guards - what it then does belongs to C03/C04/C15; nfds is covered by correspondence only. Observation (not a violation, "
        "clock before 1970 only): `*wakeup = 0` is the literal epoch, so with recent < 0 the daemon would sleep -recent+1 s with work pending (C16_pre_epoch).",
   technique="Lean 4 proof (inductive invariant over unbounded interleavings; decreasing measure for bounded-steps liveness; exact-minimum characterisation of the select timeout over everything queued) + systematic "
             "schedule enumeration of the real programs under a simulated libc, traces replayed through the acceptor, + state snapshots (globals and full priority-queue contents) of the running daemon at every "
             "select, with signals interrupting selects, compared with the model and judged by the theorems' predicates",
   design="DESIGN.md §2 C16, Appendix C")
CHECKS["C05"] = dict(
  text="Theorems over ALL byte streams about the Lean model dblast of qmail-smtpd.c blast(): the 5-state automaton equals a line-based RFC 5321 reference decoder (verdict, stored bytes, unread remainder); accepted iff CRLF-terminated LF-free non-lone-dot lines followed by .CRLF; a bare LF is refused (451); decode(encode m)=m for a reference conforming sender and for this package's own client; the hop scanner equals a line-based hop count (C05_hops*). Chunking independence (C05_chunking, _anyscript, _ssin, _indep, _roundtrip): the blast() loop composed with the substdio input model (substdio_get(&ssin,&ch,1) over any buffer size, any pre-buffered bytes, every read script incl. short reads, refills and failing reads) computes dblast of the concatenated stream and leaves in ssin exactly the bytes after the terminator - for every split of the stream into network reads. Tied to the current source by running the real blast() over the real ssin/saferead/substdi.c (sanitised build of the working tree) against the compiled models on every string over {CR,LF,'.',x} up to length 9/12 (also followed by a terminator and next command), every such string up to length 5/8 at every offset across the 1024-byte buffer refill, hop-counter header sets, random streams, and 1-5 KiB streams each under read plans 1/2/1023/1024/1025/full/mixed/random short reads/pre-buffered/failing read; compared on verdict, stored bytes, consumed count, hops, final ssin.p/ssin.n and number of read() calls; oracles on the implementation's behaviour = reference decoder, line-based hop count, and chunk-independence (every split of a stream gives the same result).",
  note=NOTE_COMMON + "Modelled, not verified: the substdio model is value-level (buffer = list of unread bytes; the array x and the byte_copyr shift of substdio_feed are tied only by correspondence: real substdio under 1023/1024/1025/mixed/random read plans with p/n/read-count comparison, and C20's harness); die_alarm is not distinguished from die_read; timeouts are not injected; qmail_put/databytes are outside C05.",
  technique="Lean 4 proof (automaton = line spec; framing iff; round-trip simulations; Mealy machine composed with the substdio stream law for every read script) + exhaustive differential correspondence with the C code under scripted read chunkings",
  design="DESIGN.md §2 C05")

CHECKS["C06"] = dict(
  text="Theorems over ALL byte strings about the Lean model rblast of qmail-remote.c blast(): terminator exactly once at the end, no bare LF, dot-stuffed lines, decode(encode m)=canon m for both the RFC reference decoder and the model of qmail-smtpd's automaton, identity for CR-free messages, refusal iff the message ends inside a line. canon is characterised without the state machine (C06_canon_spec: greedy two-byte tokens) and shown to equal the documented rule exactly on messages without two adjacent CRs (C06_canon_documented; the CR CR quirk is stated as C06_canon_crcr). Incomplete transmissions (C06_prefix_no_terminator): every prefix of what blast() emits - the bytes flushed before perm_partialline(), a failing read or a dropped connection - has no bare LF and shows a lone-dot line only if it is the complete transmission of an accepted message. Chunking independence (C06_chunking, _anyscript, _prefix, _no_early_end, _indep, _wire, C06_chunked_roundtrip): the blast() loop composed with the substdio input and output models (substdio_get(1) incl. the CR look-ahead across a buffer refill; the individual substdio_put calls; flush; any buffer sizes; every read script and every write script incl. short reads/writes and failing calls) puts exactly rblast m on the wire (concatenation of the write()s), and qmail-smtpd's loop over any segmentation of those bytes stores canon m. Tied to the current source by running the real blast() over the real substdio and safewrite (sanitised build of the working tree) against the compiled models on every string over {CR,LF,'.',a} up to length 9/12 under read chunkings full/1/2/3 and short writes, a failing read at every position and failing writes for length <=5/8, every string up to length 5/8 at every offset across the 1024-byte refill, random messages to 64 KiB (7 of 8 ending in a line end; half with substdio buffer sizes from 1 to 1024), and 1-5 KiB messages under 16 fixed + random read x write plans; compared on outcome, bytes taken by the socket, bytes left in smtptobuf and number of write() calls; property oracles evaluated on the implementation's output for completed (terminator once, no bare LF, stuffed, decodes to canon m, nothing unflushed) and for refused/failed/dropped transmissions (prefix of the encoder output, no bare LF, no lone-dot line), plus chunk-independence of the wire.",
  note=NOTE_COMMON + "Modelled, not verified: the substdio model is value-level (buffers are byte lists; array placement tied by correspondence here and in C20); the peer's line splitting (RFC 5321: lines end at CR LF only - with a peer that also breaks lines at bare CR the CR CR quirk would matter: 'CR CR . LF' is sent as 'CRLF CR . CRLF', see notes/C06.md observation and candidate repair). The 'package's own server' half of C06_decode is about the model dblast; its tie to qmail-smtpd.c is check C05 (seed C06-m2 is detected by C05, not C06). The full-session leg H2 (real smtp() against a scripted server, DATA payload = this encoder) is C09's harness (oracle wireOrderQ with encodedBody = rfull).",
  technique="Lean 4 proof (automaton simulation + line-shape invariant + prefix closure; Mealy machine composed with the substdio input and output stream laws for every read/write script) + exhaustive differential correspondence with the C code under scripted read and write chunkings",
  design="DESIGN.md §2 C06")

CHECKS["C03"] = dict(
   text="Theorems about EVERY event sequence accepted by the Lean monitor of qmail-send + qmail-clean's observable protocol (every filesystem-mutating call, delivery command, byte of every "
        "spawner report, bounce injection, crash, restart; unbounded messages, recipients, histories). Inductive consequences of the accounting invariant (MInv, preserved by all 27 event kinds): in every "
        "reachable state every accepted recipient is still queued (unmarked record, info/<m> and mess/<m> present), reported delivered, has its paragraph in a pending bounce/<m> or in a bounce file whose "
        "injection succeeded, or falls under one of the two documented exemptions PER RECORD - its own paragraph was in the bounce file of a #@[] message when that was discarded (only possible when the "
        "accepted sender is #@[]: C03_dropped_only_doublebounce), or in bounce/<m> when a crash damaged the file (C03_accounted; a never-attempted recipient is never exempt); a message loses info/<m> only "
        "when everyone is accounted for (C03_finished, C03_info_last); a successful injection has the envelope bounceEnvelope of the sender qmail-queue ACCEPTED the message with, never for #@[] "
        "(C03_bounce_to_sender, via the invariant info/<m> = F sender NUL); a D mark is written only after a K report or after the bounce paragraph of a D/expired-Z report (C03_flip); channel files are "
        "unlinked only when every record is finished (C03_unlink). About the report reader itself, for every state: only K finishes a recipient at report time and only D / Z-past-lifetime of an outstanding "
        "in-range delivery schedules a bounce paragraph (C03_report_other, C03_note_origin). Guard readbacks of the monitor, tied to the code only by trace replay: a paragraph consumes such a scheduled "
        "note (C03_paragraph_needs_report), bounce/<m> is unlinked only after a last successful injection or for an accepted sender #@[] (C03_bounce_removed; WHAT was injected last is C14's daemon layer). "
        "Tied to the code by replaying the traces of the real qmail-send and qmail-clean mains - and, for every bounce injection, of the REAL qmail.c (qmail_open/put/fail/from/to/close, its child branch included) driving the "
        "REAL qmail-queue main through simulated pipe/fork/exec/wait, the bounce being what qmail-queue commits to the queue and an ordinary message of the history from then on - under an in-memory POSIX simulator (scripted spawners, ~5300/130000 seeded histories: signals, single failing "
        "calls incl. a sweep over every call of qmail-send that touches info/local/remote/bounce/todo (among them open/read of bounce/<m> and mess/<m> inside injectbounce), every unlink of qmail-clean and system calls of the qmail-queue child in slot-reusing multi-message histories, process/machine crashes, "
        "restarts after crashes and after clean stops at every interesting select, spawner limit bytes and concurrency over 0..255 with up to 280 recipients, withheld reports, expired messages) through "
        "the monitor (after a process crash bounce/<m> may differ from the model only by an interrupted addbounce; no file may vanish), and by an independent accounting oracle on each concrete run, keyed by "
        "RECORD (message, channel, byte offset, generation): K read for that record, or still T at that offset, or in todo/<m>, or its paragraph in bounce/<m> with info/<m>, or its paragraph header in the "
        "text of a bounce of THAT message queued with the envelope of the accepted sender (any other envelope is itself a violation), or exempt because its own paragraph was discarded with the file of a "
        "#@[] message or was in the file before a machine crash and not after; plus: no bounce paragraph without a D report or a Z read while clock > birth + lifetime, no completion mark for a record that "
        "has neither a K nor its paragraph.",
   note=_DAEMON_NOTE_REAL + " Known monitor imprecisions (not exercised by the harness configuration): the #@[] test uses the unstripped sender (VERP '#@[]-@[]'), the paragraph header uses the channel-file "
        "address (stripvdomprepend), crashBounce exempts all paragraphs of a damaged file although a half-lost file may keep early ones (the observer is exact per paragraph).",
   technique="Lean 4 proof (inductive accounting invariant over a protocol monitor, closed under crash/restart events) + trace-replay correspondence with the real daemon under a simulated libc",
   design="DESIGN.md §2 C03/C04, Appendix A")
