"""C -> Nq.CFlow translator (byte loops with several read points: qmail-remote.c blast()).  See lean/Nq/CFlow.lean.
Anything outside the fragment raises ExtractError: a reshaped source is a broken tie, never a silent pass."""
from extract import ExtractError, c_string_unescape
from cmini import strip


class Flow:
    def __init__(self, where, byte_var, res_var, get_fn, get_stream, put_fn, put_stream, flush_fn, crit_var, noret_fns):
        self.where, self.byte_var, self.res_var = where, byte_var, res_var
        self.get_fn, self.get_stream, self.put_fn, self.put_stream = get_fn, get_stream, put_fn, put_stream
        self.flush_fn, self.crit_var, self.noret = flush_fn, crit_var, list(noret_fns)

    def err(self, msg, n=None):
        loc = ""
        if n is not None:
            b = n.get("range", {}).get("begin", {})
            line = b.get("line") or b.get("spellingLoc", {}).get("line") or b.get("expansionLoc", {}).get("line")
            loc = " (line %s)" % line if line else ""
        raise ExtractError("%s: %s%s - outside the fragment Nq.CFlow gives a meaning to" % (self.where, msg, loc))

    def name_of(self, n):
        n = strip(n)
        return n["referencedDecl"]["name"] if n.get("kind") == "DeclRefExpr" else None

    def addr_of(self, n, name):
        n = strip(n)
        return n.get("kind") == "UnaryOperator" and n.get("opcode") == "&" and self.name_of(n["inner"][0]) == name

    def operand(self, n, other_is_r):
        n = strip(n)
        k = n.get("kind")
        if k == "DeclRefExpr":
            nm = n["referencedDecl"]["name"]
            if nm == self.byte_var:
                return ".ch"
            if nm == self.res_var:
                return ".r"
            self.err("reference to %s" % nm, n)
        if k == "IntegerLiteral":
            return "(.lit %d)" % int(n["value"])
        if k == "CharacterLiteral":
            v = int(n["value"])
            if not 0 <= v < 128:
                self.err("character constant outside ASCII", n)
            return "(.lit %d)" % v
        if k == "UnaryOperator" and n.get("opcode") == "-":
            v = strip(n["inner"][0])
            if v.get("kind") == "IntegerLiteral" and int(v["value"]) == 1 and other_is_r:
                return "(.lit 2)"          # the C value -1 of a read result is the embedding's 2
            self.err("negative constant other than -1 compared with the read result", n)
        self.err("operand of kind %s" % k, n)

    def cond(self, n):
        n = strip(n)
        if n.get("kind") != "BinaryOperator" or n.get("opcode") not in ("==", "!="):
            self.err("condition that is not an == / != test", n)
        a, b = n["inner"]
        a_r, b_r = self.name_of(a) == self.res_var, self.name_of(b) == self.res_var
        ea, eb = self.operand(a, b_r), self.operand(b, a_r)
        if ".ch" in (ea, eb) and ".r" in (ea, eb):
            self.err("the byte compared with the read result", n)
        return "(.%s %s %s)" % ("eq" if n["opcode"] == "==" else "ne", ea, eb)

    def seq(self, items):
        if not items:
            return ".skip"
        out = items[-1]
        for s in reversed(items[:-1]):
            out = "(.seq %s %s)" % (s, out)
        return out

    def stmt(self, n, in_loop):
        k = n.get("kind")
        if k == "NullStmt":
            return ".skip"
        if k == "CompoundStmt":
            return self.seq([self.stmt(c, in_loop) for c in n.get("inner", [])])
        if k == "IfStmt":
            inner = n["inner"]
            if len(inner) not in (2, 3):
                self.err("if statement with a declaration", n)
            return "(.ite %s %s %s)" % (self.cond(inner[0]), self.stmt(inner[1], in_loop),
                                       self.stmt(inner[2], in_loop) if len(inner) == 3 else ".skip")
        if k == "WhileStmt":
            inner = n["inner"]
            if len(inner) != 2:
                self.err("while statement with a declaration", n)
            return "(.while %s %s)" % (self.cond(inner[0]), self.stmt(inner[1], True))
        if k == "ForStmt":
            f = n["inner"]
            if len(f) != 5 or any(x for x in f[:4]):
                self.err("a for loop that is not `for (;;)`", n)
            return "(.forever %s)" % self.stmt(f[4], True)
        if k == "BreakStmt":
            if not in_loop:
                self.err("break outside a loop", n)
            return ".brk"
        if k == "BinaryOperator" and n.get("opcode") == "=":
            lhs, rhs = n["inner"]
            nm = self.name_of(lhs)
            r = strip(rhs)
            if nm == self.res_var:
                ok = r.get("kind") == "CallExpr" and self.name_of(r["inner"][0]) == self.get_fn and len(r["inner"]) == 4
                if ok:
                    a3 = strip(r["inner"][3])
                    ok = (self.addr_of(r["inner"][1], self.get_stream) and self.addr_of(r["inner"][2], self.byte_var)
                          and a3.get("kind") == "IntegerLiteral" and int(a3["value"]) == 1)
                if not ok:
                    self.err("%s assigned something other than %s(&%s,&%s,1)" % (self.res_var, self.get_fn, self.get_stream, self.byte_var), n)
                return ".get"
            if nm == self.crit_var:
                if r.get("kind") != "IntegerLiteral" or int(r["value"]) != 1:
                    self.err("%s assigned something other than 1" % self.crit_var, n)
                return ".crit"
            self.err("assignment to %s" % nm, n)
        if k == "CallExpr":
            callee = self.name_of(n["inner"][0])
            args = n["inner"][1:]
            if callee == self.put_fn:
                if len(args) != 3 or not self.addr_of(args[0], self.put_stream):
                    self.err("%s() not on &%s" % (callee, self.put_stream), n)
                cnt = strip(args[2])
                if cnt.get("kind") != "IntegerLiteral":
                    self.err("%s() with a length that is not a constant" % callee, n)
                cnt = int(cnt["value"])
                if self.addr_of(args[1], self.byte_var):
                    if cnt != 1:
                        self.err("%s(&%s) with length %d" % (callee, self.byte_var, cnt), n)
                    return ".putch"
                lit = strip(args[1])
                if lit.get("kind") != "StringLiteral":
                    self.err("%s() of something other than &%s or a string literal" % (callee, self.byte_var), n)
                bs = list(c_string_unescape(lit["value"][1:-1]))
                if cnt != len(bs) or any(b >= 128 for b in bs):
                    self.err("%s() of a literal of %d bytes with length %d" % (callee, len(bs), cnt), n)
                return "(.puts [%s])" % ", ".join(str(b) for b in bs)
            if callee == self.flush_fn:
                if len(args) != 1 or not self.addr_of(args[0], self.put_stream):
                    self.err("%s() not on &%s" % (callee, self.put_stream), n)
                return ".flush"
            if callee in self.noret:
                if args:
                    self.err("%s() with arguments" % callee, n)
                return "(.noret %d)" % self.noret.index(callee)
            self.err("call of %s()" % callee, n)
        self.err("statement of kind %s" % k, n)

    def function(self, fdecl):
        if any(c.get("kind") == "ParmVarDecl" for c in fdecl.get("inner", [])):
            self.err("the function has parameters")
        body = [c for c in fdecl["inner"] if c.get("kind") == "CompoundStmt"][0]
        items = body.get("inner", [])
        i, seen = 0, {}
        while i < len(items) and items[i].get("kind") == "DeclStmt":
            for v in items[i].get("inner", []):
                if v.get("kind") != "VarDecl" or v.get("inner"):
                    self.err("local declaration with an initialiser", v)
                seen[v["name"]] = v.get("type", {}).get("qualType")
            i += 1
        if seen != {self.res_var: "int", self.byte_var: "char"}:
            self.err("locals are %r, expected int %s and char %s" % (seen, self.res_var, self.byte_var))
        return self.seq([self.stmt(c, False) for c in items[i:]])
