#!/usr/bin/env python3
"""Replace (or append) the CHECKS["Cxx"] block in tools/manifest_entries.py by the LAST such block found in notes/Cxx.md,
then regenerate MANIFEST.json.  usage: sync_entry.py C20 [C12 ...]"""
import os, re, sys, subprocess, html
VERIF = os.path.dirname(os.path.dirname(os.path.abspath(__file__)))
P = os.path.join(VERIF, "tools", "manifest_entries.py")


def block(txt, key, last=True):
    tag = 'CHECKS["%s"] = dict(' % key
    i = txt.rfind(tag) if last else txt.find(tag)
    if i < 0:
        return None, None
    # the block ends at the first line that is exactly ")" + optional spaces after a design=... line, i.e. the closing paren of dict(
    m = re.compile(r'design="[^"]*"\)\s*\n').search(txt, i)
    return i, m.end()


s = open(P).read()
for key in sys.argv[1:]:
    n = open(os.path.join(VERIF, "notes", key + ".md")).read()
    i, j = block(n, key)
    if i is None:
        print("no entry in notes for", key); continue
    new = html.unescape(n[i:j])
    a, b = block(s, key, last=False)
    if a is None:
        s = s.rstrip() + "\n\n" + new
    else:
        s = s[:a] + new + s[b:]
    print("synced", key)
open(P, "w").write(s)
subprocess.run([sys.executable, os.path.join(VERIF, "tools", "mkmanifest.py")], check=True)
