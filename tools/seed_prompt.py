#!/usr/bin/env python3
"""Print the prompt given to an independent sub-agent that seeds a property-breaking change.
The agent gets only the property text and a scratch worktree; nothing from /verif.
usage: seed_prompt.py C05 /tmp/mut/C05"""
import json, sys, os

pid, wt = sys.argv[1], sys.argv[2]
here = os.path.dirname(os.path.abspath(__file__))
prop = None
for l in open(os.path.join(here, '..', 'properties.jsonl')):
    d = json.loads(l)
    if d['id'] == pid:
        prop = d
out = wt + '-out'
print(f"""You are helping to evaluate a verification effort for notqmail (a qmail-derived mail transfer agent, written in C).
You have your own scratch git worktree of the source at {wt} (a checkout of the pinned commit; build with `make -j8 it`
in that directory, about 10 seconds; the existing unit tests run with `make -C tests test` after the build — 22 libcheck tests).
Work ONLY inside {wt} and {out} (create the latter). Do NOT read, list or use anything under /verif, and do not touch /repo
itself: your work must be independent of any existing verification machinery. The sandbox is offline.

Here is a semantic property of notqmail that is supposed to hold on the current code:

```json
{json.dumps(prop, indent=1)}
```

Your job: produce THREE different small source changes ("seeded defects") to notqmail, at three different code sites or
mechanisms, each of which
  (a) BREAKS this property (some part of its statement becomes false for at least one input / schedule / crash point /
      history within the property's quantifier),
  (b) still compiles (`make -j8 it` succeeds without new warnings that would give it away) and still passes the existing
      test suite (`make -C tests test` all green), and
  (c) is realistic - the kind of slip a maintainer could make in a refactoring or "optimisation" (an off-by-one, a
      reordered pair of calls, a dropped check or sync, a wrong constant, a missed state reset, a condition that is
      right except in a corner) - and is SUBTLE: it must need something specific to manifest (a particular interleaving,
      a crash or fault at a particular point, a multi-step sequence of operations, an unusual input, or two cooperating
      sites that each look fine alone), NOT something ordinary use would expose at once. A change that breaks every
      delivery, or every session, is not wanted.
For each change also write a DEMONSTRATION: a test or small program/script that fails (exit status non-zero) with the change
and passes (exit 0) without it, showing the property violation concretely on the real code (e.g. a C program that
#includes or links the relevant notqmail source/objects and feeds the triggering input, or a shell/python script that runs
the built binaries in a temp directory; fault/crash injection by LD_PRELOAD, a wrapper or a harness of your own is fine).
The demonstration must take the path of a notqmail source tree as its first argument (it may build that tree or assume
`make -j8 it` was run there), must not need root-owned /var/qmail or qmail users, must clean up after itself and must run in
under 2 minutes.

Deliver, for k = 1, 2, 3, a directory {out}/m<k>/ containing:
  patch.diff   - `git diff` of ONLY the seeded change against the pinned commit (apply with `git apply`); no build output
  demo.sh      - executable: `demo.sh <tree>` exits 0 when the property holds on <tree>, non-zero when violated
                 (plus any helper sources it needs, in the same directory)
  README.md    - which clause of the property is broken, the exact triggering input/schedule/fault/sequence, why ordinary
                 use and the existing tests do not notice, what you ran and the observed outputs with and without the change
Before you finish, verify for each change, starting from a clean checkout state each time (`git -C {wt} checkout -- . && git -C {wt} clean -fdxq`):
  1. without the patch: build ok, unit tests pass, demo.sh exits 0;
  2. with the patch: build ok, unit tests pass, demo.sh exits non-zero.
Leave the worktree clean (no patch applied, `git clean -fdxq`) at the end. Reply with a short summary: for each change the
site, the idea, the trigger, and the verification results of steps 1 and 2. If you cannot find three, deliver what you have.""")
